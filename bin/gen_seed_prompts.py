#!/usr/bin/env python3
"""gen_seed_prompts.py <round> <outdir> C01 C02 ...  -> <outdir>/prompt_<id>.txt for the seeding sub-agents
(property text + every earlier change for that property from DESIGN.md 0.5 and lib/r*_rows.py; nothing else
from /verif). Worktrees are expected at /tmp/wt<round>_<id>."""
import json, re, sys, glob, importlib.util
rnd, out, pids = sys.argv[1], sys.argv[2], sys.argv[3:]
design = open('/verif/DESIGN.md').read()
prev = {}
for m in re.finditer(r'^\| (C\d\d)-([A-Z](?:/[A-Z])?) \| (.*?) \|', design, re.M):
    prev.setdefault(m.group(1), []).append(m.group(3))
for l in open('/verif/properties.jsonl'):
    p = json.loads(l); pid = p['id']
    if pid not in pids:
        continue
    wt = f'/tmp/wt{rnd}_{pid}'
    files = ', '.join(p['anchors'].get('files', []))
    mech = '\n'.join(f"  - {m['name']} ({m['where']})" for m in p['anchors'].get('mechanism', []))
    earlier = '\n'.join(f'  - {x}' for x in prev.get(pid, []))
    txt = f"""You are helping to evaluate a verification effort for the Rust library bmwill/anemo (a peer-to-peer RPC networking library over QUIC/quinn with mTLS peer identity, connection management, custom framing and tower middleware). Your job is to act as a careful 'bug seeder': write TWO independent, realistic changes to the library, each of which breaks the semantic property below while the code still compiles and the existing test suite still passes.

Work ONLY inside your own scratch git worktree: {wt} (a checkout of the repository; never touch /repo or /verif, never read /verif). Everything is offline: use `cargo test --workspace --offline` / `cargo build --offline` (no network, no new crates; dev-dependencies already used by the workspace are available). The machine is shared with other jobs: pass `-j 4` to cargo. The code contains some `#[cfg(bmwill_anemo_verif)]` hook blocks; that cfg is OFF in normal builds - ignore those blocks, do not edit inside them and do not rely on them.

PROPERTY {pid} - {p['title']}
{p['statement']}
Quantified over: {p['quantifier']['text']}
Why the existing tests cannot settle it: {p['why_tests_cant']}
Code the property is anchored in: {files}
Mechanisms:
{mech}

WHAT TO PRODUCE
Two changes, A and B, different from each other in site and mechanism. Each must:
 1. be the kind of edit a real contributor could plausibly make (a refactor, an 'optimisation', a small feature, a tidy-up, a well-meant hardening, an off-by-one, a mis-ordered step, a cache, a changed default...), not sabotage that looks deliberate; no dead giveaways in comments;
 2. compile, and leave the whole existing suite (`cargo test --workspace --offline`) passing;
 3. really break the property as stated above (say which clause);
 4. need something SPECIFIC to manifest - a particular interleaving, a crash/fault/timeout at a particular point, a multi-step sequence of operations, an unusual-but-valid input or configuration, or two cooperating sites that each look fine alone - NOT something ordinary use would expose at once;
 5. come with a demonstration: a NEW integration test file under crates/<crate>/tests/<new_name>.rs (one file, no edits to existing tests, using only the public API and existing dev-dependencies) that FAILS with the change applied and PASSES on the unchanged tree, deterministically (run it 3 times each way).

Earlier rounds already produced the following changes for this property; yours must differ from all of them in site AND mechanism. Prefer changes to the CORE logic the property is about (the decision functions, orderings, state updates and their interleavings named under "Mechanisms") over changes that need an exotic environment (thousands of peers, hash collisions, configuration files, unusual address families):
{earlier}

Do not use `git stash` (the stash is shared between worktrees of one repository). Keep your final report short (under 400 words) - the files under _out/ are what counts.

OUTPUT (exact layout; paths relative to the worktree root; `_out` is untracked - do not commit anything):
  _out/A/patch.diff   - `git diff` of the library change ONLY (no test file), applies with `git apply` on a clean checkout
  _out/A/demo.patch   - a patch that ONLY adds the new test file (create with `git add -N <file> && git diff -- <file>`), applies on top of a clean checkout with or without patch.diff
  _out/A/notes.md     - first line `# {pid} round-{rnd} change A - <one-line summary>`; then sections: Change (file, function, what), Clause broken, What it needs to manifest, Demonstration, Commands and output (the cargo test summaries you observed: suite with change = all pass; demo with change = FAIL; demo without change = PASS)
  _out/B/...          - same for change B
Finish with the worktree clean apart from `_out/` and `target/` (git checkout -- . ; remove the test files you added). Verify before finishing that both patch files apply to a clean checkout with `git apply --check`.

Keep the library changes small (typically 1-30 lines). Read the code first; take the time to find a subtle spot. Write each _out file as soon as that change is confirmed (A first), so that partial work is not lost."""
    open(f'{out}/prompt_{pid}.txt', 'w').write(txt)
    print(pid, len(prev.get(pid, [])))
