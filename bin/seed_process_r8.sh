#!/bin/bash
# usage: r5_process.sh Cxx  -> confirm A and B in /tmp/wt8_Cxx then triage against the quick check (isolated)
C=$1
for X in A B; do
  D=/tmp/wt8_$C/_out/$X
  [ -f $D/patch.diff ] || { echo "######## R8 $C $X MISSING"; continue; }
  echo "######## R8 $C $X"
  /verif/bin/confirm_seed /tmp/wt8_$C $D 2>&1
  echo "-- triage"
  flock /tmp/r5.lock /verif/bin/try_seed_iso $D/patch.diff $C quick 2>&1
done
