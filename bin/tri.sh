#!/bin/bash
# usage: tri.sh <patch> <check> [tier]   (isolated triage under the shared lock)
flock /tmp/r5.lock /verif/bin/try_seed_iso "$@"
