#!/bin/bash
# re-run stored seeds of some properties against their quick checks (isolated copy)
for C in "$@"; do
  for d in /verif/seeded/$C-*; do
    k=$(basename $d)
    K=$C
    [ "$k" = "C02-L" ] && K=C16
    [ "$k" = "C17-L" ] && K=C16
    r=$(flock /tmp/r5.lock /verif/bin/try_seed_iso $d/patch.diff $K quick 2>&1 | grep -m1 "^check")
    echo "$k $r"
  done
done
