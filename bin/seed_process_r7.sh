#!/bin/bash
# usage: r5_process.sh Cxx  -> confirm A and B in /tmp/wt7_Cxx then triage against the quick check (isolated)
C=$1
for X in A B; do
  D=/tmp/wt7_$C/_out/$X
  [ -f $D/patch.diff ] || { echo "######## R7 $C $X MISSING"; continue; }
  echo "######## R7 $C $X"
  /verif/bin/confirm_seed /tmp/wt7_$C $D 2>&1
  echo "-- triage"
  /verif/bin/try_seed_iso $D/patch.diff $C quick 2>&1
done
