#!/bin/bash
cd /verif
for C in C02 C03 C04 C05 C08 C10 C11 C12 C13; do
  for X in A B; do
    P=/tmp/wt8_$C/_out/$X/patch.diff
    [ -f $P ] || continue
    bin/try_seed $P $C quick > work/final_r8_${C}_$X.log 2>&1
    echo "$C $X $(grep -m1 '^check' work/final_r8_${C}_$X.log)"
  done
done
git -C /repo status --short | head -3
