#!/bin/bash
cd /verif
for C in C09 C01 C06 C07 C15 C16 C18 C19; do
  for X in A B; do
    P=/tmp/wt8_$C/_out/$X/patch.diff
    [ -f $P ] || continue
    bin/try_seed $P $C quick > work/final_r8_${C}_$X.log 2>&1
    echo "$C $X $(grep -m1 '^check' work/final_r8_${C}_$X.log)"
  done
done
git -C /repo status --short | head -3
