#!/bin/bash
# final confirmation of the round-6 changes against /repo itself (apply, run the detecting quick check, undo)
cd /verif
for C in C01 C02 C03 C04 C05 C06 C07 C08 C09 C10 C11 C12 C13 C14 C15 C16 C17 C18 C19 C20; do
  for X in A B; do
    P=/tmp/wt6_$C/_out/$X/patch.diff
    [ -f $P ] || continue
    K=$C
    [ "$C$X" = "C02B" ] && K=C16
    [ "$C$X" = "C17B" ] && K=C16
    bin/try_seed $P $K quick > work/final_r6_${C}_$X.log 2>&1
    echo "$C $X $(grep -m1 '^check' work/final_r6_${C}_$X.log)"
  done
done
git -C /repo status --short | head -3
