//! Schedule gates: a controller (the scenario script) can hold any task of the code under test
//! at a named hook point until it decides to release it. Thread-local, like the trace run.

use futures::future::BoxFuture;
use serde_json::Value;
use std::cell::RefCell;
use tokio::sync::oneshot;

type Pred = Box<dyn Fn(&Value) -> bool>;

struct Rule {
    id: u64,
    name: String,
    pred: Pred,
    /// how many more arrivals to hold (None = unlimited)
    remaining: Option<usize>,
}

struct Held {
    rule: u64,
    fields: Value,
    release: oneshot::Sender<()>,
}

#[derive(Default)]
struct State {
    next: u64,
    rules: Vec<Rule>,
    held: Vec<Held>,
    arrivals: u64,
}

thread_local! {
    static STATE: RefCell<State> = RefCell::new(State::default());
}

pub fn reset() {
    STATE.with(|s| *s.borrow_mut() = State::default());
}

/// Called from anemo's `verif::point`.
pub fn dispatch(name: &'static str, fields: &Value) -> Option<BoxFuture<'static, ()>> {
    let run = crate::trace::current()?;
    STATE.with(|s| {
        let mut st = s.borrow_mut();
        if st.rules.is_empty() {
            return None;
        }
        let fields = run.normalise_fields(fields);
        let idx = st
            .rules
            .iter()
            .position(|r| r.name == name && r.remaining != Some(0) && (r.pred)(&fields))?;
        let rule = st.rules[idx].id;
        if let Some(n) = st.rules[idx].remaining.as_mut() {
            *n -= 1;
        }
        let (tx, rx) = oneshot::channel();
        st.held.push(Held {
            rule,
            fields,
            release: tx,
        });
        st.arrivals += 1;
        let fut: BoxFuture<'static, ()> = Box::pin(async move {
            let _ = rx.await;
        });
        Some(fut)
    })
}

/// Hold every task arriving at `name` whose (normalised) fields satisfy `pred`.
pub fn hold(name: &str, pred: impl Fn(&Value) -> bool + 'static) -> u64 {
    hold_n(name, None, pred)
}

/// Hold only the next `n` matching arrivals.
pub fn hold_n(name: &str, n: Option<usize>, pred: impl Fn(&Value) -> bool + 'static) -> u64 {
    STATE.with(|s| {
        let mut st = s.borrow_mut();
        st.next += 1;
        let id = st.next;
        st.rules.push(Rule {
            id,
            name: name.to_owned(),
            pred: Box::new(pred),
            remaining: n,
        });
        id
    })
}

/// Fields of the tasks currently held by `rule`.
pub fn held(rule: u64) -> Vec<Value> {
    STATE.with(|s| {
        s.borrow()
            .held
            .iter()
            .filter(|h| h.rule == rule)
            .map(|h| h.fields.clone())
            .collect()
    })
}

pub fn held_count(rule: u64) -> usize {
    STATE.with(|s| s.borrow().held.iter().filter(|h| h.rule == rule).count())
}

/// Wait (in virtual time, bounded) until `rule` holds at least `n` tasks.
pub async fn wait_held(rule: u64, n: usize, max_ms: u64) -> bool {
    let deadline = tokio::time::Instant::now() + std::time::Duration::from_millis(max_ms);
    loop {
        if held_count(rule) >= n {
            return true;
        }
        if tokio::time::Instant::now() >= deadline {
            return false;
        }
        tokio::time::sleep(std::time::Duration::from_millis(1)).await;
    }
}

/// Release the oldest task held by `rule`.
pub fn release_one(rule: u64) -> bool {
    STATE.with(|s| {
        let mut st = s.borrow_mut();
        if let Some(pos) = st.held.iter().position(|h| h.rule == rule) {
            let h = st.held.remove(pos);
            let _ = h.release.send(());
            true
        } else {
            false
        }
    })
}

/// Release everything held by `rule` and remove the rule.
pub fn release(rule: u64) {
    STATE.with(|s| {
        let mut st = s.borrow_mut();
        st.rules.retain(|r| r.id != rule);
        let mut i = 0;
        while i < st.held.len() {
            if st.held[i].rule == rule {
                let h = st.held.remove(i);
                let _ = h.release.send(());
            } else {
                i += 1;
            }
        }
    })
}

pub fn release_all() {
    STATE.with(|s| {
        let mut st = s.borrow_mut();
        st.rules.clear();
        for h in st.held.drain(..) {
            let _ = h.release.send(());
        }
    })
}

/// Release the oldest task held by `rule` whose fields satisfy `pred`.
pub fn release_matching(rule: u64, pred: impl Fn(&Value) -> bool) -> bool {
    STATE.with(|s| {
        let mut st = s.borrow_mut();
        if let Some(pos) = st
            .held
            .iter()
            .position(|h| h.rule == rule && pred(&h.fields))
        {
            let h = st.held.remove(pos);
            let _ = h.release.send(());
            true
        } else {
            false
        }
    })
}
