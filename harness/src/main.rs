mod adversary;
mod fabric;
mod gate;
mod gen;
mod sim;
mod trace;
mod tracing_all;
mod scenarios;

fn main() {
    let args: Vec<String> = std::env::args().collect();
    // the in-process replay scenarios run with every log statement enabled; the simulated-network
    // scenarios enable it per run (see sim::run_sim)
    let _tracing = if args.get(1).map(|s| s.starts_with("replay-") || s.starts_with("table-") || s == "codegen-cancel" || s == "codegen-deadline" || s == "limstress").unwrap_or(false) {
        Some(tracing_all::on_this_thread())
    } else {
        None
    };
    let code = scenarios::dispatch(&args[1..]);
    std::process::exit(code);
}
