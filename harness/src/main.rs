mod adversary;
mod fabric;
mod gate;
mod gen;
mod sim;
mod trace;
mod scenarios;

fn main() {
    let args: Vec<String> = std::env::args().collect();
    let code = scenarios::dispatch(&args[1..]);
    std::process::exit(code);
}
