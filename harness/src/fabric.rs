//! In-memory datagram fabric: a `quinn::AsyncUdpSocket` whose datagrams travel through a
//! scriptable network (latency, loss, duplication, reordering, directed partitions) on tokio's
//! (paused) clock. One fabric per simulation run; everything lives on one thread.

use rand::{rngs::StdRng, Rng, SeedableRng};
use std::{
    collections::{HashMap, HashSet, VecDeque},
    fmt,
    io::{self, IoSliceMut},
    net::SocketAddr,
    pin::Pin,
    sync::{Arc, Mutex, Weak},
    task::{Context, Poll, Waker},
    time::Duration,
};

#[derive(Clone, Debug)]
pub struct Policy {
    pub latency_ms: (u64, u64),
    pub loss: f64,
    pub dup: f64,
    /// probability that a datagram gets an extra delay (reordering)
    pub reorder: f64,
    pub reorder_extra_ms: u64,
}

impl Default for Policy {
    fn default() -> Self {
        Self {
            latency_ms: (1, 1),
            loss: 0.0,
            dup: 0.0,
            reorder: 0.0,
            reorder_extra_ms: 20,
        }
    }
}

#[derive(Clone, Debug)]
pub struct InitialPacket {
    pub t_ms: u64,
    pub src: SocketAddr,
    pub dst: SocketAddr,
    pub scid: Vec<u8>,
}

struct Inner {
    sockets: HashMap<SocketAddr, Weak<SimSocket>>,
    rng: StdRng,
    policy: Policy,
    blocked: HashSet<(SocketAddr, SocketAddr)>,
    /// per ordered pair: number of datagrams sent so far, and the indexes to drop
    counters: HashMap<(SocketAddr, SocketAddr), u64>,
    drop_script: HashMap<(SocketAddr, SocketAddr), HashSet<u64>>,
    /// the first Initial packet of each distinct client connection id
    initials: Vec<InitialPacket>,
    seen_scids: HashSet<(SocketAddr, Vec<u8>)>,
    epoch: tokio::time::Instant,
    sent: u64,
    dropped: u64,
    delivered: u64,
    /// rate-limited path-activity log: (src, dst, lost) -> last time reported
    path_reported: HashMap<(SocketAddr, SocketAddr, bool), u64>,
    path_logger: Option<Arc<dyn Fn(SocketAddr, SocketAddr, bool) + Send + Sync>>,
}

pub struct Fabric {
    inner: Mutex<Inner>,
}

impl fmt::Debug for Fabric {
    fn fmt(&self, f: &mut fmt::Formatter<'_>) -> fmt::Result {
        f.write_str("Fabric")
    }
}

impl Fabric {
    pub fn new(seed: u64) -> Arc<Self> {
        Arc::new(Self {
            inner: Mutex::new(Inner {
                sockets: HashMap::new(),
                rng: StdRng::seed_from_u64(seed),
                policy: Policy::default(),
                blocked: HashSet::new(),
                counters: HashMap::new(),
                drop_script: HashMap::new(),
                initials: Vec::new(),
                seen_scids: HashSet::new(),
                epoch: tokio::time::Instant::now(),
                sent: 0,
                dropped: 0,
                delivered: 0,
                path_reported: HashMap::new(),
                path_logger: None,
            }),
        })
    }

    /// Create the socket for a bound std socket; keeps the std socket so the port stays reserved.
    pub fn socket(self: &Arc<Self>, std_socket: &std::net::UdpSocket) -> Arc<SimSocket> {
        let addr = std_socket.local_addr().expect("local addr");
        let keep = std_socket.try_clone().ok();
        let socket = Arc::new(SimSocket {
            addr,
            fabric: self.clone(),
            queue: Mutex::new(VecDeque::new()),
            waker: Mutex::new(None),
            _keep: keep,
        });
        self.inner
            .lock()
            .unwrap()
            .sockets
            .insert(addr, Arc::downgrade(&socket));
        socket
    }

    /// Report datagram activity per ordered address pair (at most once per 200 ms).
    pub fn set_path_logger(&self, f: Arc<dyn Fn(SocketAddr, SocketAddr, bool) + Send + Sync>) {
        self.inner.lock().unwrap().path_logger = Some(f);
    }

    pub fn set_policy(&self, policy: Policy) {
        self.inner.lock().unwrap().policy = policy;
    }

    pub fn policy(&self) -> Policy {
        self.inner.lock().unwrap().policy.clone()
    }

    /// Drop every datagram from `src` to `dst` until unblocked.
    pub fn block(&self, src: SocketAddr, dst: SocketAddr) {
        self.inner.lock().unwrap().blocked.insert((src, dst));
    }

    pub fn unblock(&self, src: SocketAddr, dst: SocketAddr) {
        self.inner.lock().unwrap().blocked.remove(&(src, dst));
    }

    pub fn partition(&self, a: SocketAddr, b: SocketAddr) {
        self.block(a, b);
        self.block(b, a);
    }

    pub fn heal(&self, a: SocketAddr, b: SocketAddr) {
        self.unblock(a, b);
        self.unblock(b, a);
    }

    pub fn heal_all(&self) {
        self.inner.lock().unwrap().blocked.clear();
    }

    /// Drop the `n`-th (0-based, counted from now on this ordered pair) datagram from src to dst.
    pub fn drop_nth(&self, src: SocketAddr, dst: SocketAddr, n: u64) {
        let mut inner = self.inner.lock().unwrap();
        let base = inner.counters.get(&(src, dst)).copied().unwrap_or(0);
        inner
            .drop_script
            .entry((src, dst))
            .or_default()
            .insert(base + n);
    }

    pub fn is_bound(&self, addr: SocketAddr) -> bool {
        self.inner
            .lock()
            .unwrap()
            .sockets
            .get(&addr)
            .map(|w| w.strong_count() > 0)
            .unwrap_or(false)
    }

    pub fn initials(&self) -> Vec<InitialPacket> {
        self.inner.lock().unwrap().initials.clone()
    }

    pub fn stats(&self) -> (u64, u64, u64) {
        let inner = self.inner.lock().unwrap();
        (inner.sent, inner.dropped, inner.delivered)
    }

    fn send(self: &Arc<Self>, src: SocketAddr, dst: SocketAddr, datagram: Vec<u8>) {
        let mut deliveries: Vec<u64> = Vec::new();
        {
            let mut inner = self.inner.lock().unwrap();
            inner.sent += 1;
            if std::env::var_os("VERIF_STORM").is_some() && inner.sent % 20_000 == 0 {
                eprintln!(
                    "fabric: {} datagrams sent; now {src}->{dst} len {} first byte {:02x} t={}ms",
                    inner.sent,
                    datagram.len(),
                    datagram[0],
                    inner.epoch.elapsed().as_millis()
                );
            }
            let index = {
                let c = inner.counters.entry((src, dst)).or_insert(0);
                let i = *c;
                *c += 1;
                i
            };
            if let Some(scid) = initial_scid(&datagram) {
                if inner.seen_scids.insert((src, scid.clone())) {
                    let t_ms = inner.epoch.elapsed().as_millis() as u64;
                    inner.initials.push(InitialPacket {
                        t_ms,
                        src,
                        dst,
                        scid,
                    });
                }
            }
            let scripted = inner
                .drop_script
                .get(&(src, dst))
                .map(|s| s.contains(&index))
                .unwrap_or(false);
            let policy = inner.policy.clone();
            let lost = scripted
                || inner.blocked.contains(&(src, dst))
                || (policy.loss > 0.0 && inner.rng.gen_bool(policy.loss));
            if std::env::var_os("VERIF_PKTLOG").is_some() {
                eprintln!(
                    "pkt t={} {}->{} len={} b0={:02x} {}",
                    inner.epoch.elapsed().as_millis(),
                    src.port(),
                    dst.port(),
                    datagram.len(),
                    datagram[0],
                    if lost { "LOST" } else { "ok" }
                );
            }
            let mut report = None;
            if let Some(logger) = inner.path_logger.clone() {
                let t = inner.epoch.elapsed().as_millis() as u64;
                let due = inner
                    .path_reported
                    .get(&(src, dst, lost))
                    .map(|last| t >= last + 200)
                    .unwrap_or(true);
                if due {
                    inner.path_reported.insert((src, dst, lost), t);
                    report = Some(logger);
                }
            }
            if let Some(logger) = report {
                drop(inner);
                logger(src, dst, lost);
                inner = self.inner.lock().unwrap();
            }
            if lost {
                inner.dropped += 1;
                return;
            }
            let first = latency(&mut inner.rng, &policy);
            deliveries.push(first);
            if policy.dup > 0.0 && inner.rng.gen_bool(policy.dup) {
                let second = latency(&mut inner.rng, &policy);
                deliveries.push(second);
            }
        }
        for latency in deliveries {
            let fabric = self.clone();
            let datagram = datagram.clone();
            tokio::spawn(async move {
                tokio::time::sleep(Duration::from_millis(latency)).await;
                let target = {
                    let mut inner = fabric.inner.lock().unwrap();
                    // a partition that started while in flight also eats the datagram
                    if inner.blocked.contains(&(src, dst)) {
                        inner.dropped += 1;
                        return;
                    }
                    inner.delivered += 1;
                    inner.sockets.get(&dst).and_then(|w| w.upgrade())
                };
                if let Some(target) = target {
                    target.queue.lock().unwrap().push_back((src, datagram));
                    if let Some(waker) = target.waker.lock().unwrap().take() {
                        waker.wake();
                    }
                }
            });
        }
    }
}

fn latency(rng: &mut StdRng, policy: &Policy) -> u64 {
    let (lo, hi) = policy.latency_ms;
    let mut l = if hi > lo { rng.gen_range(lo..=hi) } else { lo };
    if policy.reorder > 0.0 && rng.gen_bool(policy.reorder) {
        l += policy.reorder_extra_ms;
    }
    l
}

/// If `datagram` starts with a QUIC long-header Initial packet, its source connection id.
fn initial_scid(d: &[u8]) -> Option<Vec<u8>> {
    if d.len() < 7 || d[0] & 0x80 == 0 || (d[0] & 0x30) != 0 {
        return None;
    }
    let version = u32::from_be_bytes([d[1], d[2], d[3], d[4]]);
    if version == 0 {
        return None;
    }
    let dcid_len = d[5] as usize;
    let scid_len_at = 6 + dcid_len;
    let scid_len = *d.get(scid_len_at)? as usize;
    let scid = d.get(scid_len_at + 1..scid_len_at + 1 + scid_len)?;
    Some(scid.to_vec())
}

pub struct SimSocket {
    addr: SocketAddr,
    fabric: Arc<Fabric>,
    queue: Mutex<VecDeque<(SocketAddr, Vec<u8>)>>,
    waker: Mutex<Option<Waker>>,
    _keep: Option<std::net::UdpSocket>,
}

impl fmt::Debug for SimSocket {
    fn fmt(&self, f: &mut fmt::Formatter<'_>) -> fmt::Result {
        write!(f, "SimSocket({})", self.addr)
    }
}

#[derive(Debug)]
struct AlwaysWritable;

impl quinn::UdpPoller for AlwaysWritable {
    fn poll_writable(self: Pin<&mut Self>, _cx: &mut Context) -> Poll<io::Result<()>> {
        Poll::Ready(Ok(()))
    }
}

impl quinn::AsyncUdpSocket for SimSocket {
    fn create_io_poller(self: Arc<Self>) -> Pin<Box<dyn quinn::UdpPoller>> {
        Box::pin(AlwaysWritable)
    }

    fn try_send(&self, transmit: &quinn::udp::Transmit) -> io::Result<()> {
        let segment = transmit.segment_size.unwrap_or(transmit.contents.len().max(1));
        for chunk in transmit.contents.chunks(segment.max(1)) {
            self.fabric
                .send(self.addr, transmit.destination, chunk.to_vec());
        }
        Ok(())
    }

    fn poll_recv(
        &self,
        cx: &mut Context,
        bufs: &mut [IoSliceMut<'_>],
        meta: &mut [quinn::udp::RecvMeta],
    ) -> Poll<io::Result<usize>> {
        let mut queue = self.queue.lock().unwrap();
        let mut n = 0;
        while n < bufs.len().min(meta.len()) {
            let Some((src, datagram)) = queue.pop_front() else {
                break;
            };
            let len = datagram.len().min(bufs[n].len());
            bufs[n][..len].copy_from_slice(&datagram[..len]);
            meta[n] = quinn::udp::RecvMeta {
                addr: src,
                len,
                stride: len,
                ecn: None,
                dst_ip: None,
            };
            n += 1;
        }
        if n > 0 {
            Poll::Ready(Ok(n))
        } else {
            *self.waker.lock().unwrap() = Some(cx.waker().clone());
            Poll::Pending
        }
    }

    fn local_addr(&self) -> io::Result<SocketAddr> {
        Ok(self.addr)
    }

    /// Behave like a GSO-capable socket. (With 1 here quinn 0.11.12 never finishes closing a
    /// client connection that failed during the handshake: the padded Initial close packet fills
    /// the only datagram, the Handshake-space close is never reached, and under a paused clock
    /// the connection driver spins forever.)
    fn max_transmit_segments(&self) -> usize {
        8
    }

    fn may_fragment(&self) -> bool {
        false
    }
}
