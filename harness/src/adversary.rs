//! Adversary endpoints: raw quinn endpoints on the fabric with hand-built rustls configurations
//! (any certificate chain, any signing key, any SNI, optional client certificate, verifiers that
//! accept everything) and raw stream access. Also the certificate mint used by the identity
//! decision tables.

use crate::fabric::Fabric;
use rcgen::{CertificateParams, KeyPair, PublicKeyData, SignatureAlgorithm};
use rustls::pki_types::{CertificateDer, PrivateKeyDer, ServerName, UnixTime};
use std::{net::SocketAddr, sync::Arc};

pub fn ed_key_der(seed: &[u8; 32]) -> PrivateKeyDer<'static> {
    use pkcs8::EncodePrivateKey;
    let kp = ed25519::KeypairBytes {
        secret_key: *seed,
        public_key: None,
    };
    let pkcs8 = kp.to_pkcs8_der().unwrap();
    PrivateKeyDer::Pkcs8(pkcs8.as_bytes().to_vec().into())
}

pub fn ed_keypair(seed: &[u8; 32]) -> KeyPair {
    KeyPair::from_der_and_sign_algo(&ed_key_der(seed), &rcgen::PKCS_ED25519).unwrap()
}

/// A public key without its private half (to forge "X's key, signed by somebody else").
pub struct BarePublicKey {
    pub raw: Vec<u8>,
    pub alg: &'static SignatureAlgorithm,
}

impl PublicKeyData for BarePublicKey {
    fn der_bytes(&self) -> &[u8] {
        &self.raw
    }
    fn algorithm(&self) -> &SignatureAlgorithm {
        self.alg
    }
}

#[derive(Clone, Debug)]
pub enum Validity {
    Ok,
    Expired,
    NotYet,
}

/// What to mint. `subject_seed`: the Ed25519 key in the SPKI (or P-256 when `p256`);
/// `signer_seed`: who signs (None = self-signed with the subject key).
#[derive(Clone, Debug)]
pub struct CertSpec {
    pub subject_seed: [u8; 32],
    pub signer_seed: Option<[u8; 32]>,
    pub names: Vec<String>,
    pub validity: Validity,
    pub p256: bool,
    /// shape of the subject-alternative-name extension: "dns" (the names), "absent" (no SAN at
    /// all), "iponly" (one IP address, no DNS name), "garbled" (a SAN extension whose SEQUENCE
    /// holds a UTF8String instead of a GeneralName)
    pub san_kind: &'static str,
    /// another identity's complete Ed25519 SubjectPublicKeyInfo planted in the serial number
    /// (before the real SPKI) and in a private extension (after it)
    pub decoy: Option<[u8; 32]>,
    /// the subject's common name (None: the certificate generator's default); names live in the
    /// subjectAltName extension, whatever the subject says
    pub subject_cn: Option<String>,
}

impl CertSpec {
    pub fn plain(subject_seed: [u8; 32], signer_seed: Option<[u8; 32]>, names: Vec<String>) -> Self {
        Self { subject_seed, signer_seed, names, validity: Validity::Ok, p256: false, san_kind: "dns", decoy: None, subject_cn: None }
    }
}

/// DER of the SubjectPublicKeyInfo of an Ed25519 key
pub fn ed25519_spki(public_key: &[u8; 32]) -> Vec<u8> {
    let mut v = vec![0x30, 0x2a, 0x30, 0x05, 0x06, 0x03, 0x2b, 0x65, 0x70, 0x03, 0x21, 0x00];
    v.extend_from_slice(public_key);
    v
}

pub struct Minted {
    pub der: CertificateDer<'static>,
    /// private key matching the SPKI, when we have it (always for own keys)
    pub key: Option<PrivateKeyDer<'static>>,
}

pub fn mint(spec: &CertSpec) -> Minted {
    let mut params = CertificateParams::new(if spec.san_kind == "dns" { spec.names.clone() } else { vec![] }).unwrap();
    match spec.san_kind {
        "iponly" => params.subject_alt_names = vec![rcgen::SanType::IpAddress("10.1.2.3".parse().unwrap())],
        "garbled" => {
            // SEQUENCE { UTF8String name }: well-formed DER, not a GeneralName
            let name = spec.names.first().cloned().unwrap_or_default().into_bytes();
            let mut content = vec![0x30, (name.len() + 2) as u8, 0x0c, name.len() as u8];
            content.extend_from_slice(&name);
            params.custom_extensions.push(rcgen::CustomExtension::from_oid_content(&[2, 5, 29, 17], content));
        }
        _ => {}
    }
    if let Some(cn) = &spec.subject_cn {
        let mut dn = rcgen::DistinguishedName::new();
        dn.push(rcgen::DnType::CommonName, cn.clone());
        params.distinguished_name = dn;
    }
    if let Some(victim) = spec.decoy {
        let spki = ed25519_spki(&crate::sim::peer_id_of(&victim).0);
        let mut serial = vec![0x01];
        serial.extend_from_slice(&spki);
        params.serial_number = Some(rcgen::SerialNumber::from_slice(&serial));
        params.custom_extensions.push(rcgen::CustomExtension::from_oid_content(&[1, 3, 6, 1, 4, 1, 99999, 1], spki));
    }
    let now = time::OffsetDateTime::now_utc();
    match spec.validity {
        Validity::Ok => {}
        Validity::Expired => {
            params.not_before = now - time::Duration::days(20);
            params.not_after = now - time::Duration::days(10);
        }
        Validity::NotYet => {
            params.not_before = now + time::Duration::days(10);
            params.not_after = now + time::Duration::days(20);
        }
    }
    if spec.p256 {
        let kp = KeyPair::generate_for(&rcgen::PKCS_ECDSA_P256_SHA256).unwrap();
        let cert = params.self_signed(&kp).unwrap();
        return Minted {
            der: cert.der().clone(),
            key: Some(PrivateKeyDer::Pkcs8(kp.serialize_der().into())),
        };
    }
    let subject = ed_keypair(&spec.subject_seed);
    match spec.signer_seed {
        None => {
            let cert = params.self_signed(&subject).unwrap();
            Minted {
                der: cert.der().clone(),
                key: Some(ed_key_der(&spec.subject_seed)),
            }
        }
        Some(signer_seed) => {
            // issuer: a self-signed certificate of the signer with the same names
            let signer = ed_keypair(&signer_seed);
            let issuer_params = CertificateParams::new(spec.names.clone()).unwrap();
            let issuer = issuer_params.self_signed(&signer).unwrap();
            let cert = params.signed_by(&subject, &issuer, &signer).unwrap();
            Minted {
                der: cert.der().clone(),
                key: Some(ed_key_der(&spec.subject_seed)),
            }
        }
    }
}

/// The certificate an honest anemo endpoint with this key and name presents.
#[cfg(feature = "direct")]
pub fn honest_cert(seed: &[u8; 32], name: &str) -> CertificateDer<'static> {
    let (_, der, _) = anemo::verif::direct::endpoint_identity(*seed, name, None).unwrap();
    CertificateDer::from(der)
}

/// (without the direct-drive wrappers: a self-signed certificate of that key for that name)
#[cfg(not(feature = "direct"))]
pub fn honest_cert(seed: &[u8; 32], name: &str) -> CertificateDer<'static> {
    mint(&CertSpec::plain(*seed, None, vec![name.to_owned()])).der
}

/// A request as it travels (DESIGN 3.3 / AnemoWire): preamble, header frame (bincode: route, header
/// map), body frame - written by the harness itself, not by the code under test.
pub fn encode_request(route: &str, headers: &[(&str, &str)], body: &[u8]) -> Vec<u8> {
    let mut h = Vec::new();
    h.extend_from_slice(&(route.len() as u64).to_le_bytes());
    h.extend_from_slice(route.as_bytes());
    let map: std::collections::BTreeMap<&str, &str> = headers.iter().copied().collect();
    h.extend_from_slice(&(map.len() as u64).to_le_bytes());
    for (k, v) in map {
        h.extend_from_slice(&(k.len() as u64).to_le_bytes());
        h.extend_from_slice(k.as_bytes());
        h.extend_from_slice(&(v.len() as u64).to_le_bytes());
        h.extend_from_slice(v.as_bytes());
    }
    let mut out = PREAMBLE.to_vec();
    out.extend_from_slice(&(h.len() as u32).to_be_bytes());
    out.extend_from_slice(&h);
    out.extend_from_slice(&(body.len() as u32).to_be_bytes());
    out.extend_from_slice(body);
    out
}

/// A response as the harness reads it off the wire.
pub struct RawResponse {
    pub status: u16,
    pub headers: std::collections::HashMap<String, String>,
    pub body: bytes::Bytes,
}

pub fn decode_response(data: &[u8]) -> anyhow::Result<RawResponse> {
    fn take<'a>(d: &mut &'a [u8], n: usize) -> anyhow::Result<&'a [u8]> {
        anyhow::ensure!(d.len() >= n, "response truncated");
        let (a, b) = d.split_at(n);
        *d = b;
        Ok(a)
    }
    fn string(d: &mut &[u8]) -> anyhow::Result<String> {
        let n = u64::from_le_bytes(take(d, 8)?.try_into().unwrap()) as usize;
        Ok(String::from_utf8(take(d, n)?.to_vec())?)
    }
    let mut d = data;
    anyhow::ensure!(take(&mut d, 8)? == &PREAMBLE[..], "bad preamble");
    let hl = u32::from_be_bytes(take(&mut d, 4)?.try_into().unwrap()) as usize;
    let mut h = take(&mut d, hl)?;
    let status = u16::from_le_bytes(take(&mut h, 2)?.try_into().unwrap());
    let n = u64::from_le_bytes(take(&mut h, 8)?.try_into().unwrap());
    let mut headers = std::collections::HashMap::new();
    for _ in 0..n {
        let k = string(&mut h)?;
        let v = string(&mut h)?;
        headers.insert(k, v);
    }
    anyhow::ensure!(h.is_empty(), "trailing bytes in the response header");
    let bl = u32::from_be_bytes(take(&mut d, 4)?.try_into().unwrap()) as usize;
    let body = bytes::Bytes::copy_from_slice(take(&mut d, bl)?);
    anyhow::ensure!(d.is_empty(), "trailing bytes after the response");
    Ok(RawResponse { status, headers, body })
}

//
// rustls plumbing
//

#[derive(Debug)]
struct AcceptAnyServer;

impl rustls::client::danger::ServerCertVerifier for AcceptAnyServer {
    fn verify_server_cert(
        &self,
        _: &CertificateDer<'_>,
        _: &[CertificateDer<'_>],
        _: &ServerName<'_>,
        _: &[u8],
        _: UnixTime,
    ) -> Result<rustls::client::danger::ServerCertVerified, rustls::Error> {
        Ok(rustls::client::danger::ServerCertVerified::assertion())
    }
    fn verify_tls12_signature(
        &self,
        _: &[u8],
        _: &CertificateDer<'_>,
        _: &rustls::DigitallySignedStruct,
    ) -> Result<rustls::client::danger::HandshakeSignatureValid, rustls::Error> {
        Ok(rustls::client::danger::HandshakeSignatureValid::assertion())
    }
    fn verify_tls13_signature(
        &self,
        _: &[u8],
        _: &CertificateDer<'_>,
        _: &rustls::DigitallySignedStruct,
    ) -> Result<rustls::client::danger::HandshakeSignatureValid, rustls::Error> {
        Ok(rustls::client::danger::HandshakeSignatureValid::assertion())
    }
    fn supported_verify_schemes(&self) -> Vec<rustls::SignatureScheme> {
        rustls::crypto::ring::default_provider()
            .signature_verification_algorithms
            .supported_schemes()
    }
}

#[derive(Debug)]
struct AcceptAnyClient {
    mandatory: bool,
}

impl rustls::server::danger::ClientCertVerifier for AcceptAnyClient {
    fn offer_client_auth(&self) -> bool {
        true
    }
    fn client_auth_mandatory(&self) -> bool {
        self.mandatory
    }
    fn root_hint_subjects(&self) -> &[rustls::DistinguishedName] {
        &[]
    }
    fn verify_client_cert(
        &self,
        _: &CertificateDer<'_>,
        _: &[CertificateDer<'_>],
        _: UnixTime,
    ) -> Result<rustls::server::danger::ClientCertVerified, rustls::Error> {
        Ok(rustls::server::danger::ClientCertVerified::assertion())
    }
    fn verify_tls12_signature(
        &self,
        _: &[u8],
        _: &CertificateDer<'_>,
        _: &rustls::DigitallySignedStruct,
    ) -> Result<rustls::client::danger::HandshakeSignatureValid, rustls::Error> {
        Ok(rustls::client::danger::HandshakeSignatureValid::assertion())
    }
    fn verify_tls13_signature(
        &self,
        _: &[u8],
        _: &CertificateDer<'_>,
        _: &rustls::DigitallySignedStruct,
    ) -> Result<rustls::client::danger::HandshakeSignatureValid, rustls::Error> {
        Ok(rustls::client::danger::HandshakeSignatureValid::assertion())
    }
    fn supported_verify_schemes(&self) -> Vec<rustls::SignatureScheme> {
        rustls::crypto::ring::default_provider()
            .signature_verification_algorithms
            .supported_schemes()
    }
}

#[derive(Debug)]
struct FixedClientCert(Arc<rustls::sign::CertifiedKey>);

impl rustls::client::ResolvesClientCert for FixedClientCert {
    fn resolve(
        &self,
        _: &[&[u8]],
        _: &[rustls::SignatureScheme],
    ) -> Option<Arc<rustls::sign::CertifiedKey>> {
        Some(self.0.clone())
    }
    fn has_certs(&self) -> bool {
        true
    }
}

#[derive(Debug)]
struct FixedServerCert(Arc<rustls::sign::CertifiedKey>);

impl rustls::server::ResolvesServerCert for FixedServerCert {
    fn resolve(&self, _: rustls::server::ClientHello<'_>) -> Option<Arc<rustls::sign::CertifiedKey>> {
        Some(self.0.clone())
    }
}

fn certified(
    chain: Vec<CertificateDer<'static>>,
    signing_key: &PrivateKeyDer<'static>,
) -> Arc<rustls::sign::CertifiedKey> {
    let key = rustls::crypto::ring::sign::any_supported_type(signing_key).expect("signing key");
    // rustls does not check that the key matches the certificate
    Arc::new(rustls::sign::CertifiedKey::new(chain, key))
}

/// A "signing key" that labels its CertificateVerify with `scheme` and fills it with junk: what a
/// party without the private key can always send.
#[derive(Debug)]
struct JunkSigner(rustls::SignatureScheme);

impl rustls::sign::SigningKey for JunkSigner {
    fn choose_scheme(&self, _offered: &[rustls::SignatureScheme]) -> Option<Box<dyn rustls::sign::Signer>> {
        Some(Box::new(JunkSigner(self.0)))
    }
    fn algorithm(&self) -> rustls::SignatureAlgorithm {
        rustls::SignatureAlgorithm::ED25519
    }
}

impl rustls::sign::Signer for JunkSigner {
    fn sign(&self, message: &[u8]) -> Result<Vec<u8>, rustls::Error> {
        Ok(message.iter().cycle().take(64).map(|b| b ^ 0x5a).collect())
    }
    fn scheme(&self) -> rustls::SignatureScheme {
        self.0
    }
}

pub fn scheme_named(name: &str) -> rustls::SignatureScheme {
    match name {
        "ed448" => rustls::SignatureScheme::ED448,
        "ecdsa" => rustls::SignatureScheme::ECDSA_NISTP256_SHA256,
        "unknown" => rustls::SignatureScheme::Unknown(0x0b0b),
        _ => rustls::SignatureScheme::ED25519,
    }
}

fn certified_junk(chain: Vec<CertificateDer<'static>>, scheme: rustls::SignatureScheme) -> Arc<rustls::sign::CertifiedKey> {
    Arc::new(rustls::sign::CertifiedKey::new(chain, Arc::new(JunkSigner(scheme))))
}

/// Like `client_config`, but the proof of possession is junk labelled with `scheme`.
pub fn client_config_junk_proof(chain: Vec<CertificateDer<'static>>, scheme: rustls::SignatureScheme) -> quinn::ClientConfig {
    let crypto = rustls::ClientConfig::builder_with_provider(provider())
        .with_protocol_versions(&[&rustls::version::TLS13])
        .unwrap()
        .dangerous()
        .with_custom_certificate_verifier(Arc::new(AcceptAnyServer))
        .with_client_cert_resolver(Arc::new(FixedClientCert(certified_junk(chain, scheme))));
    quinn::ClientConfig::new(Arc::new(quinn::crypto::rustls::QuicClientConfig::try_from(crypto).unwrap()))
}

/// Like `server_config`, but the proof of possession is junk labelled with `scheme`.
pub fn server_config_junk_proof(chain: Vec<CertificateDer<'static>>, scheme: rustls::SignatureScheme) -> quinn::ServerConfig {
    let crypto = rustls::ServerConfig::builder_with_provider(provider())
        .with_protocol_versions(&[&rustls::version::TLS13])
        .unwrap()
        .with_client_cert_verifier(Arc::new(AcceptAnyClient { mandatory: false }))
        .with_cert_resolver(Arc::new(FixedServerCert(certified_junk(chain, scheme))));
    quinn::ServerConfig::with_crypto(Arc::new(quinn::crypto::rustls::QuicServerConfig::try_from(crypto).unwrap()))
}

fn provider() -> Arc<rustls::crypto::CryptoProvider> {
    Arc::new(rustls::crypto::ring::default_provider())
}

/// A client that presents `chain` (or nothing) and proves possession of `signing_key`.
pub fn client_config(
    chain: Option<(Vec<CertificateDer<'static>>, PrivateKeyDer<'static>)>,
    transport: Option<Arc<quinn::TransportConfig>>,
) -> quinn::ClientConfig {
    let builder = rustls::ClientConfig::builder_with_provider(provider())
        .with_protocol_versions(&[&rustls::version::TLS13])
        .unwrap()
        .dangerous()
        .with_custom_certificate_verifier(Arc::new(AcceptAnyServer));
    let crypto = match chain {
        Some((chain, key)) => {
            builder.with_client_cert_resolver(Arc::new(FixedClientCert(certified(chain, &key))))
        }
        None => builder.with_no_client_auth(),
    };
    let mut cfg = quinn::ClientConfig::new(Arc::new(
        quinn::crypto::rustls::QuicClientConfig::try_from(crypto).unwrap(),
    ));
    if let Some(t) = transport {
        cfg.transport_config(t);
    }
    cfg
}

/// A server that presents `chain` signed with `signing_key` whatever name is asked for and
/// accepts any client certificate (or none).
pub fn server_config(
    chain: Vec<CertificateDer<'static>>,
    signing_key: PrivateKeyDer<'static>,
) -> quinn::ServerConfig {
    let crypto = rustls::ServerConfig::builder_with_provider(provider())
        .with_protocol_versions(&[&rustls::version::TLS13])
        .unwrap()
        .with_client_cert_verifier(Arc::new(AcceptAnyClient { mandatory: false }))
        .with_cert_resolver(Arc::new(FixedServerCert(certified(chain, &signing_key))));
    quinn::ServerConfig::with_crypto(Arc::new(
        quinn::crypto::rustls::QuicServerConfig::try_from(crypto).unwrap(),
    ))
}

/// A raw quinn endpoint on the fabric.
pub fn endpoint(
    fabric: &Arc<Fabric>,
    server: Option<quinn::ServerConfig>,
) -> anyhow::Result<(quinn::Endpoint, SocketAddr)> {
    let mut last = None;
    for _ in 0..50 {
        let addr = crate::sim::next_port();
        match std::net::UdpSocket::bind(addr) {
            Ok(std_socket) => {
                let socket: Arc<dyn quinn::AsyncUdpSocket> = fabric.socket(&std_socket);
                let ep = quinn::Endpoint::new_with_abstract_socket(
                    quinn::EndpointConfig::default(),
                    server,
                    socket,
                    Arc::new(quinn::TokioRuntime),
                )?;
                return Ok((ep, addr));
            }
            Err(e) => last = Some(e),
        }
    }
    Err(anyhow::anyhow!("no port: {last:?}"))
}

/// anemo's 8-byte handshake preamble / message preamble.
pub const PREAMBLE: [u8; 8] = [b'a', b'n', b'e', b'm', b'o', 0, 1, 0];

/// Speak the listener's side of anemo's handshake on an accepted connection.
pub async fn listener_ack(conn: &quinn::Connection) -> anyhow::Result<()> {
    let mut s = conn.open_uni().await?;
    s.write_all(&PREAMBLE).await?;
    s.finish()?;
    let _ = s.stopped().await;
    Ok(())
}

/// Speak the dialer's side: wait for the listener's ack.
pub async fn dialer_wait_ack(conn: &quinn::Connection) -> anyhow::Result<()> {
    let mut r = conn.accept_uni().await?;
    let mut buf = [0u8; 8];
    r.read_exact(&mut buf).await?;
    if buf != PREAMBLE {
        anyhow::bail!("bad preamble {buf:?}");
    }
    Ok(())
}

/// The raw global connection id (the trace sink maps it to its dense index when logged as "gid").
pub fn gid_of(_run: &crate::trace::Run, conn: &quinn::Connection) -> u64 {
    let mut out = [0u8; 8];
    let _ = conn.export_keying_material(&mut out, b"anemo-verif", b"");
    u64::from_be_bytes(out) >> 12
}
