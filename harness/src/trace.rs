//! Trace recording: the sink installed into anemo's verification hooks plus the harness' own
//! observation events. One `Run` per simulation, found through a thread-local so that several
//! single-threaded simulations can run in parallel OS threads of one process.

use crate::fabric::Fabric;
use anemo::PeerId;
use serde_json::{json, Map, Value};
use std::{
    cell::RefCell,
    collections::HashMap,
    sync::{Arc, Mutex, Once},
};

pub struct Run {
    pub fabric: Arc<Fabric>,
    pub epoch: tokio::time::Instant,
    state: Mutex<RunState>,
}

#[derive(Default)]
struct RunState {
    lines: Vec<Value>,
    seq: u64,
    pid_to_node: HashMap<String, i64>,
    ap_to_node: HashMap<u64, i64>,
    conn_side_to_node: HashMap<(u64, String), i64>,
    gid_dense: HashMap<u64, u64>,
    sid_dense: HashMap<u64, u64>,
    sid_to_gid: HashMap<u64, u64>,
    panics: Vec<String>,
}

thread_local! {
    static CURRENT: RefCell<Option<Arc<Run>>> = const { RefCell::new(None) };
    /// apseq of the last active-set hook event emitted on this thread (multi-thread stress)
    pub static LAST_APSEQ: std::cell::Cell<i64> = const { std::cell::Cell::new(-1) };
}

/// For multi-thread modes: a process-global run used when no thread-local run is set.
static GLOBAL: Mutex<Option<Arc<Run>>> = Mutex::new(None);

pub fn current() -> Option<Arc<Run>> {
    CURRENT
        .with(|c| c.borrow().clone())
        .or_else(|| GLOBAL.lock().unwrap().clone())
}

pub fn set_global(run: Option<Arc<Run>>) {
    *GLOBAL.lock().unwrap() = run;
}

static INSTALL: Once = Once::new();

/// Install the process-wide hooks (idempotent). They dispatch to the current run.
pub fn install_hooks() {
    INSTALL.call_once(|| {
        anemo::verif::set_sink(Some(Arc::new(|ev, fields| {
            if let Some(run) = current() {
                run.record_hook(ev, fields);
            }
        })));
        anemo::verif::set_socket_factory(Some(Arc::new(|std_socket| {
            let run = CURRENT.with(|c| c.borrow().clone())?;
            let socket: Arc<dyn quinn::AsyncUdpSocket> = run.fabric.socket(std_socket);
            Some(socket)
        })));
        anemo::verif::set_gate(Some(Arc::new(|name, fields| {
            crate::gate::dispatch(name, fields)
        })));
        anemo::verif::set_jitter_ms(Some(0));
        anemo::verif::set_clock(Some(Arc::new(|instant| {
            match current() {
                Some(run) => instant
                    .saturating_duration_since(run.epoch.into_std())
                    .as_millis() as u64,
                None => 0,
            }
        })));
    });
}

impl Run {
    /// Start a run on the current thread (must be inside the run's tokio runtime).
    pub fn begin(seed: u64) -> Arc<Run> {
        install_hooks();
        let epoch = tokio::time::Instant::now();
        let run = Arc::new(Run {
            fabric: Fabric::new(seed),
            epoch,
            state: Mutex::new(RunState::default()),
        });
        CURRENT.with(|c| *c.borrow_mut() = Some(run.clone()));
        crate::gate::reset();
        let weak = Arc::downgrade(&run);
        run.fabric.set_path_logger(Arc::new(move |src, dst, lost| {
            if let Some(run) = weak.upgrade() {
                run.obs(
                    -1,
                    "obs.path",
                    json!({"src": src.to_string(), "dst": dst.to_string(), "lost": lost}),
                );
            }
        }));
        run
    }

    /// A process-global run for multi-thread modes (real sockets, wall-clock times).
    pub fn begin_global(seed: u64) -> Arc<Run> {
        install_hooks();
        let run = Arc::new(Run {
            fabric: Fabric::new(seed),
            epoch: tokio::time::Instant::now(),
            state: Mutex::new(RunState::default()),
        });
        set_global(Some(run.clone()));
        run
    }

    pub fn end_global(&self) {
        set_global(None);
    }

    pub fn end(&self) {
        CURRENT.with(|c| *c.borrow_mut() = None);
        crate::gate::reset();
    }

    pub fn now_ms(&self) -> u64 {
        self.epoch.elapsed().as_millis() as u64
    }

    pub fn register_node(&self, peer_id: PeerId, node: i64) {
        self.state
            .lock()
            .unwrap()
            .pid_to_node
            .insert(hex::encode(peer_id.0), node);
    }

    pub fn node_of(&self, peer_id: &PeerId) -> Value {
        let st = self.state.lock().unwrap();
        pid_value(&st, &hex::encode(peer_id.0))
    }

    fn record_hook(&self, ev: &'static str, fields: Value) {
        if let Some(seq) = fields.get("apseq").and_then(Value::as_i64) {
            if ev != "ap.event" {
                LAST_APSEQ.with(|c| c.set(seq));
            }
        }
        let mut st = self.state.lock().unwrap();
        let mut obj = match fields {
            Value::Object(m) => m,
            other => {
                let mut m = Map::new();
                m.insert("value".into(), other);
                m
            }
        };
        // learn the maps
        if ev == "mgr.start" {
            if let (Some(Value::String(pid)), Some(ap)) = (obj.get("node"), obj.get("ap")) {
                if let (Some(node), Some(ap)) = (st.pid_to_node.get(pid).copied(), ap.as_u64()) {
                    st.ap_to_node.insert(ap, node);
                }
            }
        }
        // resolve node
        let node: i64 = if let Some(Value::String(pid)) = obj.get("node") {
            st.pid_to_node.get(pid).copied().unwrap_or(-1)
        } else if let Some(ap) = obj.get("ap").and_then(Value::as_u64) {
            st.ap_to_node.get(&ap).copied().unwrap_or(-(ap as i64) - 100)
        } else if let (Some(gid), Some(Value::String(origin))) =
            (obj.get("gid").and_then(Value::as_u64), obj.get("origin"))
        {
            st.conn_side_to_node
                .get(&(gid, origin.clone()))
                .copied()
                .unwrap_or(-1)
        } else {
            -1
        };
        if let Some(gid) = obj.get("gid").and_then(Value::as_u64) {
            match ev {
                "in.tls" => {
                    st.conn_side_to_node.insert((gid, "in".into()), node);
                }
                "dial.tls" => {
                    st.conn_side_to_node.insert((gid, "out".into()), node);
                }
                "ap.add" => {
                    if let Some(Value::String(origin)) = obj.get("origin") {
                        st.conn_side_to_node
                            .entry((gid, origin.clone()))
                            .or_insert(node);
                    }
                }
                _ => {}
            }
        }
        // which connection a stable id currently denotes (stable ids can be reused)
        if let (Some(gid), Some(sid)) = (
            obj.get("gid").and_then(Value::as_u64),
            obj.get("sid").and_then(Value::as_u64),
        ) {
            let dense = dense_gid(&mut st, gid);
            st.sid_to_gid.insert(sid, dense);
        } else if ev == "ap.remove_id" {
            if let Some(sid) = obj.get("sid").and_then(Value::as_u64) {
                let hgid = st.sid_to_gid.get(&sid).copied().unwrap_or(0);
                obj.insert("hgid".into(), hgid.into());
            }
        }
        if ev == "tmo.set" {
            for k in ["default_ns", "chosen_ns"] {
                if let Some(ns) = obj.get(k).and_then(Value::as_u64) {
                    let us = (ns / 1_000).min(2_000_000_000);
                    obj.insert(k.replace("_ns", "_us"), us.into());
                }
                obj.remove(k);
            }
        }
        obj.remove("node");
        // normalise values
        let keys: Vec<String> = obj.keys().cloned().collect();
        for k in keys {
            let v = obj.remove(&k).unwrap();
            let v = normalise(&mut st, node, &k, v);
            obj.insert(k, v);
        }
        push_line(&mut st, self.now_ms(), node, ev, obj);
    }

    /// Record an observation made by the harness itself.
    pub fn obs(&self, node: i64, ev: &str, fields: Value) {
        let mut st = self.state.lock().unwrap();
        let mut obj = match fields {
            Value::Object(m) => m,
            _ => Map::new(),
        };
        let keys: Vec<String> = obj.keys().cloned().collect();
        for k in keys {
            let v = obj.remove(&k).unwrap();
            let v = normalise(&mut st, node, &k, v);
            obj.insert(k, v);
        }
        push_line(&mut st, self.now_ms(), node, ev, obj);
    }

    /// Normalise hook fields (peer ids to node indexes, connection ids to dense indexes) and
    /// resolve the emitting node like `record_hook` does.
    pub fn normalise_fields(&self, fields: &Value) -> Value {
        let mut st = self.state.lock().unwrap();
        let node: i64 = if let Some(Value::String(pid)) = fields.get("node") {
            st.pid_to_node.get(pid).copied().unwrap_or(-1)
        } else if let Some(ap) = fields.get("ap").and_then(Value::as_u64) {
            st.ap_to_node.get(&ap).copied().unwrap_or(-1)
        } else if let (Some(gid), Some(Value::String(origin))) =
            (fields.get("gid").and_then(Value::as_u64), fields.get("origin"))
        {
            st.conn_side_to_node
                .get(&(gid, origin.clone()))
                .copied()
                .unwrap_or(-1)
        } else {
            -1
        };
        let mut v = normalise(&mut st, -1, "", fields.clone());
        v["node"] = node.into();
        v
    }

    pub fn record_panic(&self, msg: String) {
        self.state.lock().unwrap().panics.push(msg);
    }

    pub fn panics(&self) -> Vec<String> {
        self.state.lock().unwrap().panics.clone()
    }

    pub fn lines(&self) -> Vec<Value> {
        self.state.lock().unwrap().lines.clone()
    }

    pub fn take_lines(&self) -> Vec<Value> {
        let mut st = self.state.lock().unwrap();
        let mut lines = std::mem::take(&mut st.lines);
        // events logged before the manager announced itself: resolve their node now
        for l in lines.iter_mut() {
            if let Some(n) = l.get("node").and_then(Value::as_i64) {
                if n <= -100 {
                    let ap = (-(n + 100)) as u64;
                    if let Some(node) = st.ap_to_node.get(&ap) {
                        l["node"] = (*node).into();
                    }
                }
            }
        }
        lines
    }

    pub fn len(&self) -> usize {
        self.state.lock().unwrap().lines.len()
    }

    /// Dense index of a global connection id as used in the trace.
    pub fn dense_gid(&self, gid: u64) -> u64 {
        let mut st = self.state.lock().unwrap();
        dense_gid(&mut st, gid)
    }
}

fn push_line(st: &mut RunState, t: u64, node: i64, ev: &str, mut obj: Map<String, Value>) {
    st.seq += 1;
    obj.insert("seq".into(), st.seq.into());
    obj.insert("t".into(), t.into());
    obj.insert("node".into(), node.into());
    obj.insert("ev".into(), ev.into());
    if std::env::var_os("VERIF_ECHO").is_some() {
        eprintln!("{}", Value::Object(obj.clone()));
    }
    st.lines.push(Value::Object(obj));
}

fn dense_gid(st: &mut RunState, gid: u64) -> u64 {
    let next = st.gid_dense.len() as u64 + 1;
    *st.gid_dense.entry(gid).or_insert(next)
}

fn pid_value(st: &RunState, s: &str) -> Value {
    match st.pid_to_node.get(s) {
        Some(n) => (*n).into(),
        None => format!("u:{}", &s[..8.min(s.len())]).into(),
    }
}

fn normalise(st: &mut RunState, node: i64, key: &str, v: Value) -> Value {
    match (key, v) {
        ("gid" | "old_gid" | "removed", Value::Number(n)) => {
            let gid = n.as_u64().unwrap_or(0);
            dense_gid(st, gid).into()
        }
        ("sid", Value::Number(n)) => {
            let sid = n.as_u64().unwrap_or(0);
            let next = st.sid_dense.len() as u64 + 1;
            (*st.sid_dense.entry(sid).or_insert(next)).into()
        }
        (_, Value::String(s)) if s.len() == 64 && s.bytes().all(|b| b.is_ascii_hexdigit()) => {
            pid_value(st, &s)
        }
        (_, Value::String(s)) if s.len() > 240 => {
            // error texts may carry backtraces; keep the head only
            let mut end = 240;
            while !s.is_char_boundary(end) {
                end -= 1;
            }
            Value::String(s[..end].replace('\n', " "))
        }
        (_, Value::Array(a)) => Value::Array(
            a.into_iter()
                .map(|x| normalise(st, node, key, x))
                .collect(),
        ),
        (_, Value::Object(m)) => Value::Object(
            m.into_iter()
                .map(|(k, x)| {
                    let x = normalise(st, node, &k, x);
                    (k, x)
                })
                .collect(),
        ),
        (_, other) => other,
    }
}

/// Write lines as ndjson.
pub fn write_ndjson(path: &std::path::Path, lines: &[Value]) -> std::io::Result<()> {
    use std::io::Write;
    if let Some(parent) = path.parent() {
        std::fs::create_dir_all(parent)?;
    }
    let mut f = std::io::BufWriter::new(std::fs::File::create(path)?);
    for l in lines {
        let l = tlc_safe(l.clone());
        serde_json::to_writer(&mut f, &l)?;
        f.write_all(b"\n")?;
    }
    f.flush()
}

pub fn reset_line(run_id: u64, topology: Value) -> Value {
    json!({"ev": "reset", "run": run_id, "seq": 0, "t": 0, "node": -1, "topo": topology})
}

/// TLC's JSON reader has no null and 32-bit integers: drop null-valued keys, clamp big numbers
/// (keeping the exact value as a decimal string under `<key>_big`).
pub fn tlc_safe(v: Value) -> Value {
    match v {
        Value::Object(m) => {
            let mut out = Map::new();
            for (k, x) in m {
                match x {
                    Value::Null => {}
                    Value::Number(n) => {
                        let big = n.as_u64().map(|u| u > i32::MAX as u64).unwrap_or(false)
                            || n.as_i64().map(|i| i < i32::MIN as i64).unwrap_or(false)
                            || n.as_f64().map(|f| f.fract() != 0.0).unwrap_or(false);
                        if big {
                            out.insert(format!("{k}_big"), n.to_string().into());
                            out.insert(k, (i32::MAX as i64).into());
                        } else {
                            out.insert(k, Value::Number(n));
                        }
                    }
                    other => {
                        out.insert(k, tlc_safe(other));
                    }
                }
            }
            Value::Object(out)
        }
        Value::Array(a) => Value::Array(
            a.into_iter()
                .filter(|x| !x.is_null())
                .map(tlc_safe)
                .collect(),
        ),
        other => other,
    }
}
