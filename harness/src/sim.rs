//! Deterministic simulator: real anemo `Network`s on the in-memory fabric, tokio paused clock,
//! one thread. Every wait is bounded in virtual time.

use crate::trace::Run;
use anemo::{
    types::{PeerEvent, PeerInfo},
    Config, Network, PeerId, Request, Response,
};
use bytes::Bytes;
use futures::future::BoxFuture;
use rand::{rngs::StdRng, Rng, SeedableRng};
use serde_json::{json, Value};
use std::{
    convert::Infallible,
    future::Future,
    net::SocketAddr,
    sync::{
        atomic::{AtomicI64, AtomicU64, Ordering},
        Arc, Mutex,
    },
    task::{Context, Poll},
    time::Duration,
};
use tokio::sync::broadcast;

pub const DELIBERATE_HANDLER_PANIC: &str = "deliberate panic in the application's handler (scenario handler-panic)";

pub fn digest(bytes: &[u8]) -> String {
    let d = ring::digest::digest(&ring::digest::SHA256, bytes);
    hex::encode(&d.as_ref()[..8])
}

/// Deterministic pseudo-random body of a given length.
pub fn body_for(nonce: u64, len: usize, salt: u8) -> Bytes {
    let mut v = Vec::with_capacity(len);
    let mut x = nonce
        .wrapping_mul(0x9E37_79B9_7F4A_7C15)
        .wrapping_add(salt as u64 + 1);
    while v.len() < len {
        x ^= x << 13;
        x ^= x >> 7;
        x ^= x << 17;
        let b = x.to_le_bytes();
        let take = (len - v.len()).min(8);
        v.extend_from_slice(&b[..take]);
    }
    Bytes::from(v)
}

pub fn peer_id_of(key: &[u8; 32]) -> PeerId {
    let kp = ring::signature::Ed25519KeyPair::from_seed_unchecked(key).unwrap();
    let mut pk = [0u8; 32];
    pk.copy_from_slice(ring::signature::KeyPair::public_key(&kp).as_ref());
    PeerId(pk)
}

/// `n` private keys ordered so that index order equals PeerId order (the tie-break rank).
pub fn sorted_keys(n: usize, rng: &mut StdRng) -> Vec<[u8; 32]> {
    let mut keys: Vec<[u8; 32]> = (0..n).map(|_| rng.gen()).collect();
    keys.sort_by_key(peer_id_of);
    keys
}

/// The application service every simulated node runs. Behaviour is driven by request headers:
/// `nonce`, `delay-ms`, `resp-len`, `status`, `hold` (never answer). Everything it sees is logged.
pub struct AppService {
    run: Arc<Run>,
    node: i64,
    live: Arc<AtomicI64>,
    extra: Option<Arc<dyn Fn(&Request<Bytes>) + Send + Sync>>,
}

impl AppService {
    pub fn new(run: Arc<Run>, node: i64) -> (Self, Arc<AtomicI64>) {
        let live = Arc::new(AtomicI64::new(1));
        (
            Self {
                run,
                node,
                live: live.clone(),
                extra: None,
            },
            live,
        )
    }
}

impl Clone for AppService {
    fn clone(&self) -> Self {
        self.live.fetch_add(1, Ordering::SeqCst);
        Self {
            run: self.run.clone(),
            node: self.node,
            live: self.live.clone(),
            extra: self.extra.clone(),
        }
    }
}

/// Real-thread scenarios only: every clone of the service takes this long to drop (a service that
/// flushes or joins something when it goes away), which widens the window between "shutdown()
/// returned" and "the last clone is gone" should the two not be ordered.
pub static SLOW_DROP_MS: std::sync::atomic::AtomicU64 = std::sync::atomic::AtomicU64::new(0);

impl Drop for AppService {
    fn drop(&mut self) {
        let ms = SLOW_DROP_MS.load(Ordering::Relaxed);
        if ms > 0 {
            std::thread::sleep(std::time::Duration::from_millis(ms));
        }
        self.live.fetch_sub(1, Ordering::SeqCst);
    }
}

struct AppGuard {
    run: Arc<Run>,
    node: i64,
    nonce: u64,
    armed: bool,
}

impl Drop for AppGuard {
    fn drop(&mut self) {
        if self.armed && self.nonce != 0 {
            self.run
                .obs(self.node, "app.drop", json!({"nonce": self.nonce}));
        }
    }
}

pub fn header_u64<T>(req: &Request<T>, key: &str) -> Option<u64> {
    req.headers().get(key).and_then(|v| v.parse().ok())
}

pub fn headers_digest(headers: &std::collections::HashMap<String, String>) -> String {
    let mut kv: Vec<_> = headers.iter().collect();
    kv.sort();
    let mut buf = Vec::new();
    for (k, v) in kv {
        buf.extend_from_slice(&(k.len() as u32).to_le_bytes());
        buf.extend_from_slice(k.as_bytes());
        buf.extend_from_slice(&(v.len() as u32).to_le_bytes());
        buf.extend_from_slice(v.as_bytes());
    }
    digest(&buf)
}

impl tower::Service<Request<Bytes>> for AppService {
    type Response = Response<Bytes>;
    type Error = Infallible;
    type Future = BoxFuture<'static, Result<Response<Bytes>, Infallible>>;

    fn poll_ready(&mut self, _: &mut Context<'_>) -> Poll<Result<(), Infallible>> {
        Poll::Ready(Ok(()))
    }

    fn call(&mut self, req: Request<Bytes>) -> Self::Future {
        let run = self.run.clone();
        let node = self.node;
        let nonce = header_u64(&req, "nonce").unwrap_or(0);
        let delay = header_u64(&req, "delay-ms").unwrap_or(0);
        let resp_len = header_u64(&req, "resp-len");
        let status = header_u64(&req, "status").unwrap_or(200) as u16;
        let hold = req.headers().contains_key("hold");
        let panics = req.headers().contains_key("panic");
        let block_ms = header_u64(&req, "block-ms").unwrap_or(0);
        let peer_seen = req.peer_id().map(|p| run.node_of(p));
        let origin_seen = req
            .extensions()
            .get::<anemo::ConnectionOrigin>()
            .map(|o| format!("{o:?}"));
        let direction_seen = req
            .extensions()
            .get::<anemo::Direction>()
            .map(|d| format!("{d:?}"));
        run.obs(
            node,
            if nonce == 0 { "app.hostile" } else { "app.start" },
            json!({
                "nonce": nonce,
                "peer_seen": peer_seen,
                "origin_seen": origin_seen,
                "direction_seen": direction_seen,
                "route": req.route(),
                "len": req.body().len(),
                "digest": digest(req.body()),
                "hdigest": headers_digest(req.headers()),
                "nheaders": req.headers().len(),
                "hsize": 8 + req.route().len() + 8
                    + req.headers().iter().map(|(k, v)| 16 + k.len() + v.len()).sum::<usize>(),
            }),
        );
        let mut guard = AppGuard {
            run: run.clone(),
            node,
            nonce,
            armed: true,
        };
        let resp_headers: Vec<(String, String)> = req
            .headers()
            .iter()
            .filter(|(k, _)| k.starts_with("echo-"))
            .map(|(k, v)| (k.clone(), v.clone()))
            .collect();
        let req_body = req.into_body();
        // like most services, the response future owns a clone of the service's state: "every
        // clone of the user's service has been dropped" then also covers in-flight handlers
        let token = self.clone();
        Box::pin(async move {
            let _token = token;
            if block_ms > 0 {
                // a handler that does not yield (blocking / CPU-bound section); real-thread modes only
                std::thread::sleep(Duration::from_millis(block_ms));
            }
            if panics {
                // an application bug: the handler of this one request panics
                panic!("{}", DELIBERATE_HANDLER_PANIC);
            }
            if hold {
                futures::future::pending::<()>().await;
            }
            if delay > 0 {
                tokio::time::sleep(Duration::from_millis(delay)).await;
            }
            let body = match resp_len {
                Some(n) => body_for(nonce, n as usize, 7),
                None => req_body,
            };
            let mut response = Response::new(body)
                .with_status(
                    anemo::types::response::StatusCode::new(status)
                        .unwrap_or(anemo::types::response::StatusCode::Success),
                )
                .with_header("nonce", nonce.to_string());
            for (k, v) in resp_headers {
                response.headers_mut().insert(k, v);
            }
            guard.armed = false;
            drop(guard);
            run.obs(
                node,
                if nonce == 0 { "app.hostile_end" } else { "app.end" },
                json!({
                    "nonce": nonce,
                    "status": response.status().to_u16(),
                    "len": response.body().len(),
                    "digest": digest(response.body()),
                    "hdigest": headers_digest(response.headers()),
                    "hsize": 2 + 8
                        + response.headers().iter().map(|(k, v)| 16 + k.len() + v.len()).sum::<usize>(),
                }),
            );
            Ok(response)
        })
    }
}

thread_local! {
    /// nodes started while this is set also serve the services generated by anemo-build (typed
    /// bincode / JSON methods) next to the application service
    pub static WITH_GENERATED: std::cell::Cell<bool> = const { std::cell::Cell::new(false) };
}

/// Requests under a generated service's name go to the generated servers, everything else to
/// the application service.
#[derive(Clone)]
pub struct Dispatch {
    app: AppService,
    generated: anemo::Router,
}

impl tower::Service<Request<Bytes>> for Dispatch {
    type Response = Response<Bytes>;
    type Error = Infallible;
    type Future = BoxFuture<'static, Result<Response<Bytes>, Infallible>>;

    fn poll_ready(&mut self, _: &mut Context<'_>) -> Poll<Result<(), Infallible>> {
        Poll::Ready(Ok(()))
    }

    fn call(&mut self, req: Request<Bytes>) -> Self::Future {
        let r = req.route();
        if r.starts_with("/c17.Probe/") || r.starts_with("/Greeter/") || r.starts_with("/p.q.Greeter/") {
            let mut g = self.generated.clone();
            Box::pin(async move { g.call(req).await })
        } else {
            Box::pin(self.app.call(req))
        }
    }
}

static NEXT_PORT: AtomicU64 = AtomicU64::new(0);

/// Next candidate listening address: 127.0.0.1 with a port in 10000..30000, starting at a
/// process-specific offset.
pub fn next_port() -> SocketAddr {
    let n = NEXT_PORT.fetch_add(1, Ordering::SeqCst);
    let base = (std::process::id() as u64 * 613) % 20_000;
    let port = 10_000 + ((base + n) % 20_000);
    SocketAddr::from(([127, 0, 0, 1], port as u16))
}

/// AppService with the error type anemo-tower's layers expect.
#[derive(Clone)]
pub struct ToStatus(pub AppService);

impl tower::Service<Request<Bytes>> for ToStatus {
    type Response = Response<Bytes>;
    type Error = anemo::rpc::Status;
    type Future = BoxFuture<'static, Result<Response<Bytes>, anemo::rpc::Status>>;
    fn poll_ready(&mut self, _: &mut Context<'_>) -> Poll<Result<(), Self::Error>> {
        Poll::Ready(Ok(()))
    }
    fn call(&mut self, req: Request<Bytes>) -> Self::Future {
        let fut = self.0.call(req);
        Box::pin(async move {
            match fut.await {
                Ok(r) => Ok(r),
                Err(e) => match e {},
            }
        })
    }
}

/// Turns a Status error back into a response so the stack can be handed to a Network.
#[derive(Clone)]
pub struct FromStatus<S>(pub S);

impl<S> tower::Service<Request<Bytes>> for FromStatus<S>
where
    S: tower::Service<Request<Bytes>, Response = Response<Bytes>, Error = anemo::rpc::Status>,
    S::Future: Send + 'static,
{
    type Response = Response<Bytes>;
    type Error = Infallible;
    type Future = BoxFuture<'static, Result<Response<Bytes>, Infallible>>;
    fn poll_ready(&mut self, cx: &mut Context<'_>) -> Poll<Result<(), Infallible>> {
        self.0.poll_ready(cx).map(|_| Ok(()))
    }
    fn call(&mut self, req: Request<Bytes>) -> Self::Future {
        let fut = self.0.call(req);
        Box::pin(async move {
            Ok(match fut.await {
                Ok(r) => r,
                Err(status) => anemo::types::response::IntoResponse::into_response(status),
            })
        })
    }
}

#[derive(Clone)]
pub struct NodeCfg {
    pub key: [u8; 32],
    pub name: String,
    pub alt: Option<String>,
    pub config: Config,
    /// bind to this address (restart on the same address) or to an ephemeral port
    pub bind: Option<SocketAddr>,
}

thread_local! {
    /// scenario switch: serve through ConcurrencyLimit(n) over InflightLimit(m, Block) (back-pressure
    /// at the top of the service stack plus a per-peer limiter below it)
    pub static SERVER_LIMITS: std::cell::Cell<Option<(usize, usize)>> = const { std::cell::Cell::new(None) };
    /// scenario switch: install a (pass-through) user outbound request layer on new networks
    pub static USER_OUTBOUND_LAYER: std::cell::Cell<bool> = const { std::cell::Cell::new(false) };
}

thread_local! {
    /// how long the user outbound layer (if installed) holds every request before passing it on
    pub static USER_OUTBOUND_DELAY_MS: std::cell::Cell<u64> = const { std::cell::Cell::new(0) };
}

/// user outbound middleware: waits `delay_ms`, then calls the wrapped service
pub struct DelayFirst<S> {
    inner: Option<S>,
    delay_ms: u64,
}

impl<S> tower::Service<Request<Bytes>> for DelayFirst<S>
where
    S: tower::Service<Request<Bytes>, Response = Response<Bytes>, Error = anemo::Error> + Send + 'static,
    S::Future: Send + 'static,
{
    type Response = Response<Bytes>;
    type Error = anemo::Error;
    type Future = BoxFuture<'static, Result<Response<Bytes>, anemo::Error>>;

    fn poll_ready(&mut self, _: &mut Context<'_>) -> Poll<Result<(), anemo::Error>> {
        Poll::Ready(Ok(()))
    }

    fn call(&mut self, req: Request<Bytes>) -> Self::Future {
        // the outbound stack is built per call and used once
        let mut inner = self.inner.take().expect("outbound layer used once per call");
        let delay = self.delay_ms;
        Box::pin(async move {
            if delay > 0 {
                tokio::time::sleep(Duration::from_millis(delay)).await;
            }
            futures::future::poll_fn(|cx| inner.poll_ready(cx)).await?;
            inner.call(req).await
        })
    }
}

pub fn base_config() -> Config {
    let mut c = Config::default();
    c.connectivity_check_interval_ms = Some(5_000);
    c.connect_timeout_ms = Some(2_000);
    c.connection_backoff_ms = Some(10_000);
    c.max_connection_backoff_ms = Some(60_000);
    c.shutdown_idle_timeout_ms = Some(1_000);
    c
}

pub fn quic(c: &mut Config) -> &mut anemo::QuicConfig {
    c.quic.get_or_insert_with(Default::default)
}

pub struct Node {
    pub idx: i64,
    pub cfg: NodeCfg,
    pub peer_id: PeerId,
    pub addr: SocketAddr,
    pub net: Option<Network>,
    pub live_services: Arc<AtomicI64>,
    pub subs: Vec<(u64, broadcast::Receiver<PeerEvent>)>,
}

pub struct Sim {
    pub run: Arc<Run>,
    pub nodes: Vec<Node>,
    pub rng: StdRng,
    next_sub: u64,
    pub next_nonce: Arc<AtomicU64>,
}

impl Sim {
    pub fn new(run: Arc<Run>, seed: u64) -> Self {
        Self {
            run,
            nodes: Vec::new(),
            rng: StdRng::seed_from_u64(seed ^ 0x5151_5151),
            next_sub: 0,
            next_nonce: Arc::new(AtomicU64::new(1)),
        }
    }

    pub fn nonce(&self) -> u64 {
        self.next_nonce.fetch_add(1, Ordering::SeqCst)
    }

    /// Start a node (registers its identity with the trace first).
    pub fn add_node(&mut self, cfg: NodeCfg) -> anyhow::Result<usize> {
        let idx = self.nodes.len() as i64;
        let node = self.start_node(idx, cfg)?;
        self.nodes.push(node);
        Ok(idx as usize)
    }

    fn start_node(&mut self, idx: i64, cfg: NodeCfg) -> anyhow::Result<Node> {
        let peer_id = peer_id_of(&cfg.key);
        self.run.register_node(peer_id, idx);
        let (service, live) = AppService::new(self.run.clone(), idx);
        // Fresh nodes get explicit ports below the OS' ephemeral range, so that a port freed by a
        // shutdown is never handed to somebody else before the node restarts on it.
        let mut tries = 0;
        let net = loop {
            let bind: SocketAddr = cfg.bind.unwrap_or_else(next_port);
            let mut builder = Network::bind(bind)
                .config(cfg.config.clone())
                .server_name(cfg.name.clone())
                .private_key(cfg.key);
            if let Some(alt) = &cfg.alt {
                builder = builder.alternate_server_name(alt.clone());
            }
            if USER_OUTBOUND_LAYER.with(|c| c.get()) {
                // an application layer around every outbound call that takes its time (a client-side
                // limiter, say): the call's deadline runs from the moment the RPC is issued
                let delay = USER_OUTBOUND_DELAY_MS.with(|c| c.get());
                builder = builder.outbound_request_layer(tower::layer::layer_fn(move |inner| DelayFirst { inner: Some(inner), delay_ms: delay }));
            }
            let started = match SERVER_LIMITS.with(|c| c.get()) {
                Some((conc, inflight)) => {
                    let inner = tower::ServiceBuilder::new()
                        .layer(anemo_tower::inflight_limit::InflightLimitLayer::new(
                            inflight,
                            anemo_tower::inflight_limit::WaitMode::Block,
                        ))
                        .service(ToStatus(service.clone()));
                    builder.start(tower::limit::ConcurrencyLimit::new(FromStatus(inner), conc))
                }
                None if WITH_GENERATED.with(|c| c.get()) => builder.start(Dispatch {
                    app: service.clone(),
                    generated: crate::scenarios::codegen::generated_router(),
                }),
                None => builder.start(service.clone()),
            };
            match started {
                Ok(net) => break net,
                Err(e) if cfg.bind.is_none() && tries < 50 => {
                    let _ = e;
                    tries += 1;
                }
                Err(e) => return Err(e),
            }
        };
        drop(service);
        let addr = net.local_addr();
        self.run.obs(
            idx,
            "obs.node_start",
            json!({
                "addr": addr.to_string(),
                "name": cfg.name,
                "alt": cfg.alt,
                "limit": cfg.config.max_concurrent_connections,
                // what the application configured (documented defaults where it left a field unset):
                // the manager must run with exactly these
                "cfg_interval_ms": cfg.config.connectivity_check_interval_ms.unwrap_or(5_000),
                "cfg_step_ms": cfg.config.connection_backoff_ms.unwrap_or(10_000),
                "cfg_max_backoff_ms": cfg.config.max_connection_backoff_ms.unwrap_or(60_000),
                "cfg_connect_timeout_ms": cfg.config.connect_timeout_ms.unwrap_or(10_000),
                "cfg_cap": cfg.config.max_concurrent_outstanding_connecting_connections.unwrap_or(100),
                "shutdown_idle_ms": cfg.config.shutdown_idle_timeout_ms.unwrap_or(60_000),
                "idle_ms": cfg
                    .config
                    .quic
                    .as_ref()
                    .and_then(|q| q.max_idle_timeout_ms)
                    .unwrap_or(30_000), // what applies when nothing is configured (quinn's default)
                "keepalive_ms": cfg
                    .config
                    .quic
                    .as_ref()
                    .and_then(|q| q.keep_alive_interval_ms)
                    .unwrap_or(0),
            }),
        );
        Ok(Node {
            idx,
            cfg,
            peer_id,
            addr,
            net: Some(net),
            live_services: live,
            subs: Vec::new(),
        })
    }

    /// Restart node `i` (after a shutdown) on the same address with the same identity.
    pub fn restart_node(&mut self, i: usize) -> anyhow::Result<()> {
        let mut cfg = self.nodes[i].cfg.clone();
        cfg.bind = Some(self.nodes[i].addr);
        let node = self.start_node(i as i64, cfg)?;
        self.nodes[i] = node;
        Ok(())
    }

    pub fn net(&self, i: usize) -> &Network {
        self.nodes[i].net.as_ref().expect("network running")
    }

    pub fn peer_id(&self, i: usize) -> PeerId {
        self.nodes[i].peer_id
    }

    pub fn addr(&self, i: usize) -> SocketAddr {
        self.nodes[i].addr
    }

    pub fn subscribe(&mut self, i: usize) -> anyhow::Result<u64> {
        let (rx, snapshot) = self.net(i).subscribe()?;
        self.next_sub += 1;
        let id = self.next_sub;
        let snap: Vec<Value> = snapshot.iter().map(|p| self.run.node_of(p)).collect();
        self.run.obs(
            i as i64,
            "obs.subscribe",
            json!({"sub": id, "snapshot": snap}),
        );
        self.nodes[i].subs.push((id, rx));
        Ok(id)
    }

    /// Drain every subscription and log what each subscriber received.
    pub fn drain_events(&mut self) {
        let run = self.run.clone();
        for node in self.nodes.iter_mut() {
            let idx = node.idx;
            node.subs.retain_mut(|(id, rx)| loop {
                match rx.try_recv() {
                    Ok(PeerEvent::NewPeer(p)) => run.obs(
                        idx,
                        "obs.event",
                        json!({"sub": *id, "kind": "new", "peer": run.node_of(&p)}),
                    ),
                    Ok(PeerEvent::LostPeer(p, reason)) => run.obs(
                        idx,
                        "obs.event",
                        json!({"sub": *id, "kind": "lost", "peer": run.node_of(&p),
                               "reason": format!("{reason:?}")}),
                    ),
                    Err(broadcast::error::TryRecvError::Empty) => break true,
                    Err(broadcast::error::TryRecvError::Closed) => {
                        run.obs(idx, "obs.sub_closed", json!({"sub": *id}));
                        break false;
                    }
                    Err(broadcast::error::TryRecvError::Lagged(n)) => {
                        run.obs(idx, "obs.sub_lagged", json!({"sub": *id, "n": n}));
                    }
                }
            });
        }
    }

    pub fn obs_peers(&self, i: usize) {
        if let Some(net) = &self.nodes[i].net {
            let mut peers: Vec<Value> = net.peers().iter().map(|p| self.run.node_of(p)).collect();
            peers.sort_by_key(|v| v.to_string());
            self.run
                .obs(i as i64, "obs.peers", json!({"peers": peers}));
        }
    }

    pub fn obs_all_peers(&self) {
        for i in 0..self.nodes.len() {
            self.obs_peers(i);
        }
    }

    /// `connect` / `connect_with_peer_id` from i to the address of j, bounded.
    pub async fn connect(&self, i: usize, addr: SocketAddr, expect: Option<PeerId>) -> Result<PeerId, String> {
        let net = self.net(i).clone();
        let run = self.run.clone();
        run.obs(
            i as i64,
            "obs.connect_call",
            json!({"addr": addr.to_string(), "expected": expect.as_ref().map(|p| run.node_of(p))}),
        );
        let fut = async {
            match expect {
                Some(p) => net.connect_with_peer_id(addr, p).await,
                None => net.connect(addr).await,
            }
        };
        let result = match tokio::time::timeout(Duration::from_secs(120), fut).await {
            Ok(Ok(p)) => Ok(p),
            Ok(Err(e)) => Err(format!("{e}")),
            Err(_) => Err("HANG".to_string()),
        };
        // listing at the instant the call returned
        let listed = net.peers();
        let ev = connect_event(result.as_ref().err().map(|s| s.as_str()));
        run.obs(
            i as i64,
            ev,
            json!({
                "addr": addr.to_string(),
                "expected": expect.as_ref().map(|p| run.node_of(p)),
                "ok": result.is_ok(),
                "peer": result.as_ref().ok().map(|p| run.node_of(p)),
                "err": result.as_ref().err(),
                "listed": result.as_ref().ok().map(|p| listed.contains(p)),
            }),
        );
        result
    }

    pub fn disconnect(&self, i: usize, peer: PeerId) {
        let r = self.net(i).disconnect(peer);
        self.run.obs(
            i as i64,
            "obs.disconnect",
            json!({"peer": self.run.node_of(&peer), "ok": r.is_ok()}),
        );
    }

    pub fn known_insert(&self, i: usize, info: PeerInfo) {
        let fields = json!({
            "peer": self.run.node_of(&info.peer_id),
            "affinity": format!("{:?}", info.affinity),
            "addrs": info.address.iter().map(|a| format!("{a}")).collect::<Vec<_>>(),
        });
        self.net(i).known_peers().insert(info);
        self.run.obs(i as i64, "obs.known_insert", fields);
    }

    pub fn known_remove(&self, i: usize, peer: PeerId) {
        self.net(i).known_peers().remove(&peer);
        self.run.obs(
            i as i64,
            "obs.known_remove",
            json!({"peer": self.run.node_of(&peer)}),
        );
    }

    pub async fn sleep_ms(&self, ms: u64) {
        tokio::time::sleep(Duration::from_millis(ms)).await;
    }
}

/// Like `rpc`, for a point where the property requires success (listed peer at quiescence).
pub async fn rpc_must(
    run: &Arc<Run>,
    net: &Network,
    from: i64,
    to: PeerId,
    request: Request<Bytes>,
    nonce: u64,
) -> Result<Response<Bytes>, String> {
    rpc_inner(run, net, from, to, request, nonce, true).await
}

/// One RPC with a nonce through `Network::rpc`; logs call and result.
pub async fn rpc(
    run: &Arc<Run>,
    net: &Network,
    from: i64,
    to: PeerId,
    request: Request<Bytes>,
    nonce: u64,
) -> Result<Response<Bytes>, String> {
    rpc_inner(run, net, from, to, request, nonce, false).await
}

async fn rpc_inner(
    run: &Arc<Run>,
    net: &Network,
    from: i64,
    to: PeerId,
    mut request: Request<Bytes>,
    nonce: u64,
    must: bool,
) -> Result<Response<Bytes>, String> {
    request
        .headers_mut()
        .insert("nonce".into(), nonce.to_string());
    run.obs(
        from,
        "obs.rpc_call",
        json!({
            "nonce": nonce,
            "to": run.node_of(&to),
            "route": request.route(),
            "len": request.body().len(),
            "digest": digest(request.body()),
            "hdigest": headers_digest(request.headers()),
            "nheaders": request.headers().len(),
        }),
    );
    let result = match tokio::time::timeout(Duration::from_secs(600), net.rpc(to, request)).await {
        Ok(Ok(r)) => Ok(r),
        Ok(Err(e)) => Err(format!("{e}")),
        Err(_) => Err("HANG".into()),
    };
    log_rpc_result(run, from, nonce, &result, must);
    result
}

/// One RPC through a `Peer` handle the application obtained earlier (it pins the connection that
/// was registered then); logged like any other call.
pub async fn rpc_via_handle(
    run: &Arc<Run>,
    handle: &mut anemo::Peer,
    from: i64,
    mut request: Request<Bytes>,
    nonce: u64,
) -> Result<Response<Bytes>, String> {
    request.headers_mut().insert("nonce".into(), nonce.to_string());
    run.obs(
        from,
        "obs.rpc_call",
        json!({
            "nonce": nonce,
            "to": run.node_of(&handle.peer_id()),
            "route": request.route(),
            "len": request.body().len(),
            "digest": digest(request.body()),
            "hdigest": headers_digest(request.headers()),
            "nheaders": request.headers().len(),
            "handle": true,
        }),
    );
    let result = match tokio::time::timeout(Duration::from_secs(600), handle.rpc(request)).await {
        Ok(Ok(r)) => Ok(r),
        Ok(Err(e)) => Err(format!("{e}")),
        Err(_) => Err("HANG".into()),
    };
    log_rpc_result(run, from, nonce, &result, false);
    result
}

pub fn log_rpc_result(
    run: &Arc<Run>,
    from: i64,
    nonce: u64,
    result: &Result<Response<Bytes>, String>,
    must_succeed: bool,
) {
    let must = if must_succeed { Some(true) } else { None };
    match result {
        Ok(r) => run.obs(
            from,
            "obs.rpc_result",
            json!({
                "nonce": nonce,
                "ok": true,
                "status": r.status().to_u16(),
                "len": r.body().len(),
                "digest": digest(r.body()),
                "hdigest": headers_digest(r.headers()),
                "resp_nonce": r.headers().get("nonce").and_then(|v| v.parse::<u64>().ok()),
                "peer_seen": r.peer_id().map(|p| run.node_of(p)),
                "must_succeed": must,
            }),
        ),
        Err(e) => run.obs(
            from,
            "obs.rpc_result",
            json!({"nonce": nonce, "ok": false, "err": e, "must_succeed": must,
                   "notconn": if e.starts_with("not connected") { Some(true) } else { None }}),
        ),
    }
}

static PANIC_HOOK: std::sync::Once = std::sync::Once::new();

pub fn install_panic_hook() {
    PANIC_HOOK.call_once(|| {
        let quiet = std::env::var("VERIF_SHOW_PANICS").is_err();
        let default = std::panic::take_hook();
        std::panic::set_hook(Box::new(move |info| {
            let msg = format!("{info}");
            if let Some(run) = crate::trace::current() {
                run.record_panic(msg.clone());
                run.obs(-1, "obs.panic", json!({"msg": msg}));
                if !quiet {
                    default(info);
                }
            } else {
                default(info);
            }
        }));
    });
}

/// How a connect() result is classified in the trace.
pub fn connect_event(err: Option<&str>) -> &'static str {
    match err {
        Some("network has been shutdown") => "obs.connect_refused",
        Some("channel closed") => "obs.connect_aborted",
        _ => "obs.connect_result",
    }
}

pub struct RunOutput {
    pub lines: Vec<Value>,
    pub panics: Vec<String>,
    pub result: Result<Value, String>,
    pub virtual_ms: u64,
}

/// Run one single-threaded simulation with a paused clock.
pub fn run_sim<F, Fut>(seed: u64, scenario: F) -> RunOutput
where
    F: FnOnce(Sim) -> Fut,
    Fut: Future<Output = Result<Value, String>>,
{
    install_panic_hook();
    // one run in four executes with every log statement of the code under test enabled
    let _tracing = if seed % 4 == 3 { Some(crate::tracing_all::on_this_thread()) } else { None };
    let rt = tokio::runtime::Builder::new_current_thread()
        .enable_all()
        .start_paused(true)
        .build()
        .expect("runtime");
    let holder: Arc<Mutex<Option<Arc<Run>>>> = Arc::new(Mutex::new(None));
    let h2 = holder.clone();
    let result = rt.block_on(async move {
        let run = Run::begin(seed);
        *h2.lock().unwrap() = Some(run.clone());
        let sim = Sim::new(run.clone(), seed);
        let r = std::panic::AssertUnwindSafe(scenario(sim));
        match futures::FutureExt::catch_unwind(r).await {
            Ok(r) => r,
            Err(_) => Err("scenario panicked".to_string()),
        }
    });
    let run = holder.lock().unwrap().clone().expect("run");
    let virtual_ms = {
        let _g = rt.enter();
        run.now_ms()
    };
    let n_at_end = run.len();
    // let tasks wind down before tearing the runtime down
    drop(rt);
    run.end();
    let mut lines = run.take_lines();
    let teardown_panics: Vec<String> = lines[n_at_end..]
        .iter()
        .filter(|l| l["ev"] == "obs.panic")
        .map(|l| l["msg"].as_str().unwrap_or("").to_owned())
        .collect();
    lines.truncate(n_at_end);
    let _ = teardown_panics;
    RunOutput {
        lines,
        panics: run.panics(),
        result,
        virtual_ms,
    }
}
