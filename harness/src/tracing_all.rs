//! A tracing subscriber that enables every callsite at every level and formats every field it is
//! given (into nowhere). Log statements are code too: with a subscriber like this one installed
//! their arguments are evaluated and their `Debug` / `Display` impls run, as they do in a
//! deployment that logs at TRACE; without one they are skipped entirely.

use std::fmt::Write;
use tracing::field::{Field, Visit};
use tracing::span::{Attributes, Id, Record};
use tracing::{Event, Metadata, Subscriber};

pub struct Everything;

struct Sink(String);

impl Visit for Sink {
    fn record_debug(&mut self, field: &Field, value: &dyn std::fmt::Debug) {
        self.0.clear();
        let _ = write!(self.0, "{}={:?}", field.name(), value);
    }
}

impl Subscriber for Everything {
    fn enabled(&self, _: &Metadata<'_>) -> bool {
        true
    }
    fn new_span(&self, attrs: &Attributes<'_>) -> Id {
        attrs.record(&mut Sink(String::new()));
        Id::from_u64(1)
    }
    fn record(&self, _: &Id, values: &Record<'_>) {
        values.record(&mut Sink(String::new()));
    }
    fn record_follows_from(&self, _: &Id, _: &Id) {}
    fn event(&self, event: &Event<'_>) {
        event.record(&mut Sink(String::new()));
    }
    fn enter(&self, _: &Id) {}
    fn exit(&self, _: &Id) {}
}

/// Install for the current thread until the guard is dropped.
pub fn on_this_thread() -> tracing::subscriber::DefaultGuard {
    tracing::subscriber::set_default(Everything)
}
