//! C03: dialing with an expected identity. One honest dialer D, honest listeners X and Y, and two
//! adversary listeners: E1 replays X's certificate (signing the handshake with its own key), E2
//! presents its own valid certificate. Every (address, pin) combination is dialed, concurrently
//! and under scripted loss of each early handshake datagram.

use super::{run_many, Args};
use crate::adversary as adv;
use crate::scenarios::conn::{finish, node_cfg, settle, Opts};
use crate::sim::{self, Sim};
use rand::seq::SliceRandom;
use rand::Rng;
use serde_json::{json, Value};

async fn run(mut sim: Sim, seed: u64, lossy: bool) -> Result<Value, String> {
    // explicit dials are never blocked by the dialer's own connection limit (0: always "reached"),
    // and a dial that answers Ok has registered the peer
    let limit = [None, None, Some(0), Some(1)][sim.rng.gen_range(0..4)];
    let cap = [None, None, Some(1usize), Some(2)][sim.rng.gen_range(0..4)];
    let o = Opts {
        nodes: 3,
        ops: 0,
        faults: lossy,
        restarts: false,
        known: false,
        limit: None,
        idle_ms: 10_000,
        keepalive_ms: Some(3_000),
        hetero: false,
    };
    // four identities in PeerId order; roles assigned by the seed
    let keys = sim::sorted_keys(4, &mut sim.rng);
    let mut roles: Vec<usize> = vec![0, 1, 2, 3];
    roles.shuffle(&mut sim.rng);
    let e_idx = roles[3];
    // honest nodes must be started in identity order so that node index = identity index;
    // the adversary's identity index is registered without a network
    let mut node_of_identity = vec![usize::MAX; 4];
    let mut next = 0;
    for (ident, key) in keys.iter().enumerate() {
        if ident == e_idx {
            sim.run.register_node(sim::peer_id_of(key), 100 + ident as i64);
            continue;
        }
        let mut cfg = node_cfg(*key, &o);
        if ident == roles[0] {
            cfg.config.max_concurrent_connections = limit; // the dialer only
            // the cap on connections being established governs background dials; explicit dials go ahead
            // at once, pinned as asked, however many are under way
            cfg.config.max_concurrent_outstanding_connecting_connections = cap;
        }
        let i = sim.add_node(cfg).map_err(|e| e.to_string())?;
        node_of_identity[ident] = i;
        next += 1;
    }
    let _ = next;
    // NB: node indexes are 0..2 in identity order among honest ones; the trace uses node indexes
    // as identities, the adversary is 100+k, which keeps the order irrelevant for this scenario.
    let d = node_of_identity[roles[0]];
    let x = node_of_identity[roles[1]];
    let y = node_of_identity[roles[2]];
    let e_key = keys[e_idx];
    let e_who = 100 + e_idx as i64;
    for i in 0..3 {
        sim.subscribe(i).unwrap();
    }

    // E1: X's certificate, E's key.  E2: E's own certificate.
    let x_cert = adv::honest_cert(&sim.nodes[x].cfg.key, "net");
    let e_cert = adv::honest_cert(&e_key, "net");
    let (ep1, addr1) = adv::endpoint(
        &sim.run.fabric,
        Some(adv::server_config(vec![x_cert.clone()], adv::ed_key_der(&e_key))),
    )
    .map_err(|e| e.to_string())?;
    let (ep2, addr2) = adv::endpoint(
        &sim.run.fabric,
        Some(adv::server_config(vec![e_cert.clone()], adv::ed_key_der(&e_key))),
    )
    .map_err(|e| e.to_string())?;
    let (ep3, addr3) = adv::endpoint(
        &sim.run.fabric,
        Some(adv::server_config(vec![e_cert.clone(), x_cert.clone()], adv::ed_key_der(&e_key))),
    )
    .map_err(|e| e.to_string())?;
    sim.run.obs(-1, "obs.addr", json!({"addr": addr3.to_string(), "who": e_who, "kind": "own-cert-then-X"}));
    sim.run.obs(-1, "obs.addr", json!({"addr": addr1.to_string(), "who": e_who, "kind": "replays-X"}));
    sim.run.obs(-1, "obs.addr", json!({"addr": addr2.to_string(), "who": e_who, "kind": "own-cert"}));
    let run_ = sim.run.clone();
    for ep in [ep1.clone(), ep2.clone(), ep3.clone()] {
        let run_ = run_.clone();
        tokio::spawn(async move {
            while let Some(incoming) = ep.accept().await {
                let run_ = run_.clone();
                tokio::spawn(async move {
                    if let Ok(conn) = incoming.await {
                        run_.obs(-1, "obs.note", json!({"what": "adversary accepted a connection"}));
                        let _ = adv::listener_ack(&conn).await;
                        // keep it open; behave like a silent peer
                        conn.closed().await;
                    }
                });
            }
        });
    }

    // the dialer's known-peer table must not matter to what an explicit dial accepts, and a
    // background dial names the identity it is after: entries that are right (X at X's address),
    // wrong (Y on file at X's address) and an absent identity (the adversary's, High affinity) on
    // file at an address where an honest node answers - that dial must fail every time
    let known_mode = sim.rng.gen_range(0..4);
    if known_mode > 0 {
        use anemo::types::{PeerAffinity, PeerInfo};
        let (ax, ay) = (sim.addr(x), sim.addr(y));
        sim.known_insert(d, PeerInfo { peer_id: sim.peer_id(x), affinity: PeerAffinity::Allowed, address: vec![ax.into()] });
        let y_addr = if known_mode == 2 { ax } else { ay };
        sim.known_insert(d, PeerInfo { peer_id: sim.peer_id(y), affinity: PeerAffinity::Allowed, address: vec![y_addr.into()] });
        if known_mode == 3 {
            sim.known_insert(d, PeerInfo { peer_id: sim::peer_id_of(&e_key), affinity: PeerAffinity::High, address: vec![ax.into(), ay.into()] });
        }
    }

    // dials that hang on an address where nobody answers keep the dialer's establishing connections at
    // (or over) its cap for the first two seconds
    let dead = sim::next_port();
    sim.run.obs(-1, "obs.addr", json!({"addr": dead.to_string(), "who": -1, "kind": "dead"}));
    let mut hanging = Vec::new();
    if cap.is_some() {
        for _ in 0..2 {
            let net = sim.net(d).clone();
            let run = sim.run.clone();
            hanging.push(tokio::spawn(async move {
                let r = tokio::time::timeout(std::time::Duration::from_secs(120), net.connect(dead)).await;
                let err = match r { Ok(Ok(_)) => None, Ok(Err(e)) => Some(format!("{e}")), Err(_) => Some("HANG".into()) };
                run.obs(d as i64, sim::connect_event(err.as_deref()), json!({"ok": err.is_none(), "err": err, "addr": dead.to_string()}));
            }));
        }
        settle(&mut sim, 2).await;
    }
    // the dialer's own address is a target too (self-dial, pinned to itself or not); and X's address
    // written as an IPv4-mapped IPv6 address, which an IPv4 endpoint cannot dial at all
    let mapped = |a: std::net::SocketAddr| match a.ip() {
        std::net::IpAddr::V4(v4) => std::net::SocketAddr::new(std::net::IpAddr::V6(v4.to_ipv6_mapped()), a.port()),
        _ => a,
    };
    let x_mapped = mapped(sim.addr(x));
    sim.run.obs(-1, "obs.addr", json!({"addr": x_mapped.to_string(), "who": -1, "kind": "dead"}));
    let targets = [sim.addr(x), sim.addr(y), addr1, addr2, sim.addr(d), addr3, x_mapped];
    let pins = [Some(sim.peer_id(x)), None, Some(sim.peer_id(y)), Some(sim::peer_id_of(&e_key)), Some(sim.peer_id(d))];
    let mut cases: Vec<(usize, usize)> = Vec::new();
    for t in 0..7 {
        for p in 0..5 {
            // the dialer's own address goes with its own identity as the pin or with no pin; its own
            // identity as the pin is also tried on X's and the adversary's address (nobody but the dialer
            // holds that key: those dials fail like any other with the wrong party answering)
            if (t == 4) != (p == 4) && !(t == 4 && p == 1) && !(p == 4 && (t == 0 || t == 3)) {
                continue;
            }
            if t == 6 && p > 2 {
                continue;
            }
            cases.push((t, p));
        }
    }
    cases.shuffle(&mut sim.rng);
    let mut handles = Vec::new();
    let mut n_ok = 0;
    for (k, (t, p)) in cases.iter().enumerate() {
        if lossy {
            // drop one early handshake datagram in one direction
            let n = sim.rng.gen_range(0..12);
            let local = sim.addr(d);
            if sim.rng.gen_bool(0.5) {
                sim.run.fabric.drop_nth(local, targets[*t], n);
            } else {
                sim.run.fabric.drop_nth(targets[*t], local, n);
            }
            sim.run.obs(-1, "obs.fault", json!({"what": "drop_nth", "n": n}));
        }
        let concurrent = sim.rng.gen_bool(0.4);
        if concurrent {
            let net = sim.net(d).clone();
            let run = sim.run.clone();
            let addr = targets[*t];
            let expect = pins[*p];
            handles.push(tokio::spawn(async move {
                let fut = async {
                    match expect {
                        Some(pid) => net.connect_with_peer_id(addr, pid).await,
                        None => net.connect(addr).await,
                    }
                };
                let r = tokio::time::timeout(std::time::Duration::from_secs(120), fut).await;
                let (ok, peer, err) = match r {
                    Ok(Ok(p)) => (true, Some(run.node_of(&p)), None),
                    Ok(Err(e)) => (false, None, Some(format!("{e}"))),
                    Err(_) => (false, None, Some("HANG".to_string())),
                };
                run.obs(
                    d as i64,
                    sim::connect_event(err.as_deref()),
                    json!({"ok": ok, "peer": peer, "err": err, "addr": addr.to_string(),
                           "expected": expect.as_ref().map(|p| run.node_of(p))}),
                );
                ok
            }));
        } else if sim.connect(d, targets[*t], pins[*p]).await.is_ok() {
            n_ok += 1;
        }
        if k % 3 == 0 {
            let ms = [0u64, 1, 10, 2_500][sim.rng.gen_range(0..4)];
            settle(&mut sim, ms).await;
            sim.obs_all_peers();
        }
        if sim.rng.gen_bool(0.2) {
            // free the slot so that later dials register a fresh connection
            let peers = sim.net(d).peers();
            if let Some(p) = peers.first() {
                sim.disconnect(d, *p);
            }
        }
    }
    for h in handles {
        if let Ok(Ok(true)) = tokio::time::timeout(std::time::Duration::from_secs(300), h).await {
            n_ok += 1;
        }
    }
    for h in hanging {
        let _ = tokio::time::timeout(std::time::Duration::from_secs(300), h).await;
    }
    settle(&mut sim, 100).await;
    sim.obs_all_peers();
    ep1.close(0u32.into(), b"");
    ep2.close(0u32.into(), b"");
    ep3.close(0u32.into(), b"");
    let _ = seed;
    finish(&mut sim, o.idle_ms).await;
    Ok(json!({"dials": cases.len(), "ok": n_ok}))
}

pub fn main(a: &Args) -> i32 {
    let lossy = a.u64("lossy", 0) == 1;
    run_many(a, "c03", move |seed, sim| run(sim, seed, lossy))
}
