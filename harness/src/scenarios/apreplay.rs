//! C04 (c), specification -> implementation: behaviours of MC_Ap.tla (every sequence of add /
//! remove / remove_with_stable_id / subscribe up to a depth, or random walks) are executed on the
//! real `ActivePeers` with real QUIC connections. After every step the listing, the stored
//! connection per peer (stable id + origin), the set of locally closed connections and the events
//! delivered to every subscriber are compared with the state the specification requires.

use super::{print_summary, Args};
use crate::adversary as adv;
use anemo::types::{DisconnectReason, PeerEvent};
use anemo::verif::direct::DirectActivePeers;
use anemo::{ConnectionOrigin, PeerId};
use rand::{rngs::StdRng, SeedableRng};
use serde_json::{json, Value};
use std::collections::HashMap;
use tokio::sync::broadcast::{error::TryRecvError, Receiver};

struct World {
    server: quinn::Endpoint,
    addr: std::net::SocketAddr,
    clients: HashMap<i64, quinn::Endpoint>,
    keep: Vec<quinn::Connection>,
}

impl World {
    async fn conn(&mut self, peer: i64) -> quinn::Connection {
        let connecting = self.clients[&peer].connect(self.addr, "net").unwrap();
        let (c, s) = tokio::join!(connecting, async { self.server.accept().await.unwrap().await });
        self.keep.push(c.unwrap());
        if self.keep.len() > 64 {
            // client halves of long finished behaviours
            for c in self.keep.drain(..32) {
                c.close(0u32.into(), b"");
            }
        }
        s.unwrap()
    }
}

fn ev_json(e: &PeerEvent, idx: &HashMap<PeerId, i64>) -> Value {
    match e {
        PeerEvent::NewPeer(p) => json!({"kind": "new", "peer": idx[p], "reason": "-"}),
        PeerEvent::LostPeer(p, r) => json!({"kind": "lost", "peer": idx[p], "reason": format!("{r:?}")}),
    }
}

fn drain(rx: &mut Receiver<PeerEvent>, idx: &HashMap<PeerId, i64>) -> Vec<Value> {
    let mut out = Vec::new();
    loop {
        match rx.try_recv() {
            Ok(e) => out.push(ev_json(&e, idx)),
            Err(TryRecvError::Lagged(n)) => out.push(json!({"lagged": n})),
            Err(_) => break,
        }
    }
    out
}

async fn replay_one(w: &mut World, ids: &HashMap<i64, PeerId>, idx: &HashMap<PeerId, i64>, own: i64, beh: &Value, mut pause: bool) -> (usize, Option<Value>) {
    let ap = DirectActivePeers::new(4096);
    let (mut rx0, snap0) = ap.subscribe();
    if !snap0.is_empty() {
        return (0, Some(json!({"what": "fresh set not empty"})));
    }
    let mut conns: HashMap<i64, quinn::Connection> = HashMap::new();
    let mut full: Vec<Value> = Vec::new(); // the whole event log as subscriber 0 saw it
    let mut later: Vec<(usize, Receiver<PeerEvent>)> = Vec::new(); // (position in `full` at subscription, receiver)
    let mut evals = 0usize;
    let steps = beh["steps"].as_array().unwrap();
    for (i, s) in steps.iter().enumerate() {
        let op = s["op"].as_str().unwrap();
        let peer = s["peer"].as_i64().unwrap();
        let gid = s["gid"].as_i64().unwrap();
        let ret = s["ret"].as_str().unwrap();
        let post = &s["post"];
        let fail = |what: &str, got: Value| Some(json!({"what": what, "step": i, "op": op, "expected": s, "got": got, "behaviour": beh}));
        match op {
            "add" => {
                if !conns.contains_key(&gid) {
                    let c = w.conn(peer).await;
                    conns.insert(gid, c);
                }
                let origin = if s["origin"] == "in" { ConnectionOrigin::Inbound } else { ConnectionOrigin::Outbound };
                // how long the stored connection has been up plays no part in what an add decides: in a
                // few behaviours the next connection for a listed peer arrives seconds (of real time) later
                if pause && ap.stored(&ids[&peer]).is_some() {
                    pause = false;
                    tokio::time::sleep(std::time::Duration::from_millis(2_300)).await;
                }
                let kept = match ap.add(&ids[&own], conns[&gid].clone(), origin) {
                    Ok(k) => k,
                    Err(e) => return (evals, fail("add failed", json!(e.to_string()))),
                };
                if kept != (ret != "rejected") {
                    return (evals, fail("add: kept/rejected differs", json!(kept)));
                }
            }
            "remove" => ap.remove(&ids[&peer], DisconnectReason::Requested),
            "remove_id" => {
                if !conns.contains_key(&gid) {
                    let c = w.conn(peer).await;
                    conns.insert(gid, c);
                }
                ap.remove_with_stable_id(ids[&peer], conns[&gid].stable_id(), DisconnectReason::ConnectionClosed)
            }
            "subscribe" => {
                let (rx, snap) = ap.subscribe();
                let mut got: Vec<i64> = snap.iter().map(|p| idx[p]).collect();
                got.sort();
                if json!(got) != post["listing"] || snap.len() != got.iter().collect::<std::collections::HashSet<_>>().len() {
                    return (evals, fail("subscribe: snapshot differs from the listing", json!(got)));
                }
                later.push((full.len(), rx));
            }
            _ => unreachable!(),
        }
        evals += 1;
        // listing
        let listed = ap.peers();
        let mut got: Vec<i64> = listed.iter().map(|p| idx[p]).collect();
        got.sort();
        if json!(got) != post["listing"] {
            return (evals, fail("listing differs", json!(got)));
        }
        // stored connection per listed peer
        for st in post["stored"].as_array().unwrap() {
            let p = st["peer"].as_i64().unwrap();
            let g = st["gid"].as_i64().unwrap();
            let want_origin = if st["origin"] == "in" { ConnectionOrigin::Inbound } else { ConnectionOrigin::Outbound };
            match ap.stored(&ids[&p]) {
                Some((sid, o)) if sid == conns[&g].stable_id() && o == want_origin => {}
                other => return (evals, fail("stored connection differs", json!(format!("{other:?}")))),
            }
        }
        // locally closed connections: exactly the ones the specification closed
        let closed: Vec<i64> = post["closed"].as_array().unwrap().iter().map(|v| v.as_i64().unwrap()).collect();
        for (g, c) in &conns {
            let is_closed = c.close_reason().is_some();
            if is_closed != closed.contains(g) {
                return (evals, fail("closed connections differ", json!({"gid": g, "closed": is_closed})));
            }
        }
        // events of this step, as the subscriber from the beginning receives them
        let evs = drain(&mut rx0, idx);
        if json!(evs) != post["evs"] {
            return (evals, fail("events differ", json!(evs)));
        }
        full.extend(evs);
        if full.len() as i64 != post["nev"].as_i64().unwrap() {
            return (evals, fail("event count differs", json!(full.len())));
        }
    }
    // later subscribers: exactly the suffix of the log from their subscription on
    for (pos, mut rx) in later {
        let got = drain(&mut rx, idx);
        if got[..] != full[pos..] {
            return (evals, Some(json!({"what": "later subscriber's events are not the log suffix", "pos": pos, "got": got, "behaviour": beh})));
        }
        evals += 1;
    }
    for c in conns.values() {
        c.close(0u32.into(), b"done");
    }
    (evals, None)
}

pub fn replay(a: &Args) -> i32 {
    let file = a.str("file", "");
    let threads = a.u64("threads", 8) as usize;
    let behs: Vec<Value> = serde_json::from_str(&std::fs::read_to_string(&file).unwrap()).unwrap();
    let chunks: Vec<Vec<Value>> = (0..threads).map(|t| behs.iter().skip(t).step_by(threads).cloned().collect()).collect();
    let mut handles = Vec::new();
    for (t, chunk) in chunks.into_iter().enumerate() {
        handles.push(std::thread::spawn(move || {
            let rt = tokio::runtime::Builder::new_current_thread().enable_all().build().unwrap();
            rt.block_on(async move {
                let mut rng = StdRng::seed_from_u64(7000 + t as u64);
                // identities 1 < 2 < 3 < 4 in PeerId order
                let keys = crate::sim::sorted_keys(4, &mut rng);
                let ids: HashMap<i64, PeerId> = keys.iter().enumerate().map(|(i, k)| (i as i64 + 1, crate::sim::peer_id_of(k))).collect();
                let idx: HashMap<PeerId, i64> = ids.iter().map(|(i, p)| (*p, *i)).collect();
                let mut worlds: HashMap<i64, World> = HashMap::new();
                let mut replayed = 0usize;
                let mut evals = 0usize;
                let mut mismatches = Vec::new();
                for beh in &chunk {
                    let own = beh["own"].as_i64().unwrap();
                    if !worlds.contains_key(&own) {
                        let k = &keys[own as usize - 1];
                        let server = quinn::Endpoint::server(
                            adv::server_config(vec![adv::honest_cert(k, "net")], adv::ed_key_der(k)),
                            "127.0.0.1:0".parse().unwrap(),
                        )
                        .unwrap();
                        let addr = server.local_addr().unwrap();
                        let mut clients = HashMap::new();
                        for (i, pk) in keys.iter().enumerate() {
                            let mut client = quinn::Endpoint::client("127.0.0.1:0".parse().unwrap()).unwrap();
                            client.set_default_client_config(adv::client_config(
                                Some((vec![adv::honest_cert(pk, "net")], adv::ed_key_der(pk))),
                                None,
                            ));
                            clients.insert(i as i64 + 1, client);
                        }
                        worlds.insert(own, World { server, addr, clients, keep: Vec::new() });
                    }
                    let (e, m) = replay_one(worlds.get_mut(&own).unwrap(), &ids, &idx, own, beh, replayed == 1 || replayed == 9).await;
                    replayed += 1;
                    evals += e;
                    if let Some(m) = m {
                        if mismatches.len() < 5 {
                            mismatches.push(m);
                        }
                    }
                }
                (replayed, evals, mismatches)
            })
        }));
    }
    let (mut replayed, mut evals, mut mismatches) = (0, 0, Vec::new());
    for h in handles {
        let (r, e, m) = h.join().unwrap();
        replayed += r;
        evals += e;
        mismatches.extend(m);
    }
    mismatches.truncate(5);
    print_summary(&json!({"scenario": "replay-ap", "replayed": replayed, "evaluations": evals, "mismatches": mismatches}));
    0
}
