//! C17: (a) for every service definition row TLC emitted from AnemoCodegen, the real generators'
//! token streams are parsed and the route literals of the generated client, the generated server's
//! dispatch arms and its SERVICE_NAME are compared with the specification; (b) code generated at
//! build time for four definitions is compiled in and typed calls go through a real Router that
//! holds all services at once: each call must reach exactly the handler method of the same name,
//! and the pipeline table (handler Ok / handler Status / undecodable payload) must hold.

use super::{print_summary, Args};
use crate::gen::{self, Msg};
use anemo::{rpc::Status, types::response::StatusCode, Request, Response, Router};
use bytes::Bytes;
use serde_json::{json, Value};
use std::sync::{Arc, Mutex};
use tower::Service;

fn literals(ts: proc_macro2::TokenStream) -> Vec<String> {
    fn walk(ts: proc_macro2::TokenStream, out: &mut Vec<String>) {
        for t in ts {
            match t {
                proc_macro2::TokenTree::Group(g) => walk(g.stream(), out),
                proc_macro2::TokenTree::Literal(l) => {
                    if let Ok(syn::Lit::Str(s)) = syn::parse_str::<syn::Lit>(&l.to_string()) {
                        out.push(s.value());
                    }
                }
                _ => {}
            }
        }
    }
    let mut out = Vec::new();
    walk(ts, &mut out);
    out
}

type Log = Arc<Mutex<Vec<String>>>;

struct Impl {
    tag: &'static str,
    log: Log,
}

fn answer(tag: &str, method: &str, log: &Log, req: Request<Msg>) -> Result<Response<Msg>, Status> {
    log.lock().unwrap().push(format!("{tag}.{method}"));
    let m = req.into_inner();
    if let Some(rest) = m.s.strip_prefix("failcode:") {
        // the handler's own status with a given code, with or without a message
        let (code, with_msg) = rest.split_once(':').map(|(c, w)| (c, w == "with")).unwrap_or((rest, true));
        let code = StatusCode::new(code.parse().unwrap_or(500)).unwrap_or(StatusCode::InternalServerError);
        let st = if with_msg { Status::new_with_message(code, format!("m{}", m.a)) } else { Status::new(code) };
        return Err(st.with_header("why", "because").with_header("x-detail", "kept too"));
    }
    if m.s == "fail-bare" {
        // an error status that carries headers but no message
        Err(Status::new(StatusCode::BadRequest).with_header("why", "because").with_header("retry-after-ms", "250"))
    } else if m.s == "fail" {
        // the handler's own message must win over a forwarded "status-message" header
        Err(Status::new_with_message(StatusCode::BadRequest, format!("no {}", m.a))
            .with_header("why", "because")
            .with_header("status-message", "forwarded from downstream"))
    } else {
        Ok(Response::new(Msg { a: m.a + 1, s: format!("{tag}.{method}:{}", m.s) }).with_header("extra", "kept"))
    }
}

#[anemo::async_trait]
impl gen::root_greeter::greeter_server::Greeter for Impl {
    async fn say_hello(&self, r: Request<Msg>) -> Result<Response<Msg>, Status> {
        // "relay:<hex peer id>:<what>": ask that peer (a typed call through the network this request
        // came in on) and hand whatever comes back - message or error status - to our own caller
        if let Some(rest) = r.inner().s.strip_prefix("relay:") {
            let (hex_id, what) = rest.split_once(':').unwrap_or((rest, ""));
            let mut id = [0u8; 32];
            if hex::decode_to_slice(hex_id, &mut id).is_ok() {
                if let Some(net) = r.extensions().get::<anemo::NetworkRef>().and_then(|n| n.upgrade()) {
                    if let Some(peer) = net.peer(anemo::PeerId(id)) {
                        self.log.lock().unwrap().push(format!("{}.relay", self.tag));
                        let mut client = gen::root_greeter::greeter_client::GreeterClient::new(peer);
                        return client.say_hello(Msg { a: r.inner().a, s: what.to_owned() }).await;
                    }
                }
            }
            return Err(Status::internal("relay target not connected"));
        }
        answer(self.tag, "say_hello", &self.log, r)
    }
    async fn say(&self, r: Request<Msg>) -> Result<Response<Msg>, Status> {
        answer(self.tag, "say", &self.log, r)
    }
}

#[anemo::async_trait]
impl gen::root_greet::greet_server::Greet for Impl {
    async fn say_hello(&self, r: Request<Msg>) -> Result<Response<Msg>, Status> {
        answer(self.tag, "say_hello", &self.log, r)
    }
    async fn x(&self, r: Request<Msg>) -> Result<Response<Bytes>, Status> {
        // raw-bytes handler: encodes the response itself
        let resp = answer(self.tag, "x", &self.log, r)?;
        Ok(resp.map(|m| Bytes::from(bincode::serialize(&m).unwrap())))
    }
}

#[anemo::async_trait]
impl gen::pq_greeter::greeter_server::Greeter for Impl {
    async fn say_hello(&self, r: Request<Msg>) -> Result<Response<Msg>, Status> {
        answer(self.tag, "say_hello", &self.log, r)
    }
}

impl gen::p_empty::empty_server::Empty for Impl {}

#[anemo::async_trait]
impl gen::c17_probe::probe_server::Probe for Impl {
    async fn unit_b(&self, r: Request<gen::Unit>) -> Result<Response<gen::Unit>, Status> {
        self.log.lock().unwrap().push("Probe.unit_b".into());
        Ok(Response::new(r.into_inner()))
    }
    async fn unit_j(&self, r: Request<gen::Unit>) -> Result<Response<gen::Unit>, Status> {
        self.log.lock().unwrap().push("Probe.unit_j".into());
        Ok(Response::new(r.into_inner()))
    }
    async fn opt_b(&self, r: Request<Option<Msg>>) -> Result<Response<Option<Msg>>, Status> {
        self.log.lock().unwrap().push(format!("Probe.opt_b:{}", r.inner().is_some()));
        Ok(Response::new(r.into_inner()))
    }
    async fn opt_j(&self, r: Request<Option<Msg>>) -> Result<Response<Option<Msg>>, Status> {
        self.log.lock().unwrap().push(format!("Probe.opt_j:{}", r.inner().is_some()));
        Ok(Response::new(r.into_inner()))
    }
}

/// payload bytes for a row of the edge table
fn edge_payload(codec: &str, kind: &str, payload: &str, some: bool) -> Bytes {
    let m = Msg { a: 5, s: "edge".into() };
    match (payload, codec, kind) {
        ("empty", _, _) => Bytes::new(),
        ("garbage", "json", _) => Bytes::from_static(b"{not json"),
        ("garbage", _, "unit") => Bytes::from_static(&[0xff]),      // trailing bytes after a zero-length value
        ("garbage", _, _) => Bytes::from_static(&[0x07]),           // invalid Option tag
        ("good", "json", "unit") => Bytes::from(serde_json::to_vec(&gen::Unit).unwrap()),
        ("good", "json", _) => Bytes::from(serde_json::to_vec(&if some { Some(m) } else { None }).unwrap()),
        ("good", _, "unit") => Bytes::from(bincode::serialize(&gen::Unit).unwrap()),
        (_, _, _) => Bytes::from(bincode::serialize(&if some { Some(m) } else { None }).unwrap()),
    }
}

pub fn replay(a: &Args) -> i32 {
    let tables: Value = serde_json::from_str(&std::fs::read_to_string(a.str("table", "")).expect("tables")).unwrap();
    let mut mismatches: Vec<Value> = Vec::new();
    let mut evaluations = 0u64;
    // (a) path agreement on the generators' output
    for row in tables["codegen_paths"].as_array().unwrap() {
        for (codec, raw) in [("anemo::rpc::codec::BincodeCodec", false), ("anemo::rpc::codec::JsonCodec", true)] {
            evaluations += 1;
            let other_route = if row["route"] == "x" { "y" } else { "x" };
            let mut b = anemo_build::manual::Service::builder()
                .name(row["svc"].as_str().unwrap())
                .package(row["pkg"].as_str().unwrap());
            for (f, r) in [("m1", row["route"].as_str().unwrap()), ("m2", other_route)] {
                b = b.method(
                    anemo_build::manual::Method::builder()
                        .name(f)
                        .route_name(r)
                        .request_type("crate::gen::Msg")
                        .response_type("crate::gen::Msg")
                        .codec_path(codec)
                        .server_handler_return_raw_bytes(raw)
                        .build(),
                );
            }
            let svc = b.build();
            let client_lits = literals(anemo_build::client::generate(&svc));
            let server_lits = literals(anemo_build::server::generate(&svc));
            let path = row["path"].as_str().unwrap().to_owned();
            let name = row["name"].as_str().unwrap().to_owned();
            let prefix = row["prefix"].as_str().unwrap();
            let client_paths: Vec<&String> = client_lits.iter().filter(|l| l.starts_with('/')).collect();
            let server_paths: Vec<&String> = server_lits.iter().filter(|l| l.starts_with('/')).collect();
            let mut fail = None;
            if !client_paths.contains(&&path) {
                fail = Some(format!("client routes {client_paths:?} lack {path}"));
            } else if !server_paths.contains(&&path) {
                fail = Some(format!("server dispatch {server_paths:?} lacks {path}"));
            } else if client_paths.len() != 2 || server_paths.len() != 2 {
                fail = Some(format!("unexpected route literals: client {client_paths:?} server {server_paths:?}"));
            } else if !server_lits.contains(&name) {
                fail = Some(format!("SERVICE_NAME is not {name}: {server_lits:?}"));
            } else if format!("/{name}/") != prefix || !client_paths.iter().all(|p| p.starts_with(prefix)) {
                fail = Some(format!("client routes {client_paths:?} are not under the router prefix {prefix}"));
            } else {
                let mut c: Vec<&String> = client_paths.clone();
                let mut s: Vec<&String> = server_paths.clone();
                c.sort();
                s.sort();
                if c != s {
                    fail = Some(format!("client routes {c:?} differ from server dispatch {s:?}"));
                }
            }
            if let Some(f) = fail {
                if mismatches.len() < 6 {
                    mismatches.push(json!({"what": f, "row": row}));
                }
            }
        }
    }
    // (b) compiled services, all in one router
    let log: Log = Default::default();
    let mk = |tag: &'static str| Impl { tag, log: log.clone() };
    let router = Router::new()
        .add_rpc_service(gen::root_greeter::greeter_server::GreeterServer::new(mk("Greeter")))
        .add_rpc_service(gen::root_greet::greet_server::GreetServer::new(mk("Greet")))
        .add_rpc_service(gen::pq_greeter::greeter_server::GreeterServer::new(mk("p.q.Greeter")))
        .add_rpc_service(gen::p_empty::empty_server::EmptyServer::new(mk("p.Empty")))
        .add_rpc_service(gen::c17_probe::probe_server::ProbeServer::new(mk("Probe")));
    let rt = tokio::runtime::Builder::new_current_thread().enable_all().build().unwrap();
    let mut check = |name: &str, want_log: &str, res: Result<Response<Msg>, Status>, row: &Value, n: u32, mismatches: &mut Vec<Value>| {
        let exp = &row["expect"];
        let ran = log.lock().unwrap().drain(..).collect::<Vec<_>>();
        let want_ran: Vec<String> = if exp["handler_ran"].as_bool().unwrap() { vec![want_log.to_owned()] } else { vec![] };
        let ok = match (&res, exp["result"].as_str().unwrap()) {
            (Ok(r), "ok") => r.inner().a == n + 1 && r.inner().s == format!("{want_log}:hi") && r.headers().get("extra").map(|s| s.as_str()) == Some("kept"),
            (Err(s), "err") => {
                s.status().to_u16() as u64 == exp["code"].as_u64().unwrap()
                    && (exp["code"] != 400 || (s.headers().get("why").map(|x| x.as_str()) == Some("because")
                        && (row["handler"] == "status_bare" && s.headers().get("retry-after-ms").map(|x| x.as_str()) == Some("250")
                            || format!("{s:?}").contains(&format!("no {n}")))))
            }
            _ => false,
        };
        if !ok || ran != want_ran {
            mismatches.push(json!({"what": format!("{name}: result {:?}, handlers run {ran:?} (expected {want_ran:?})", res.as_ref().map(|r| r.inner().clone()).map_err(|s| s.status())), "row": row}));
        }
    };
    for row in tables["codegen_pipeline"].as_array().unwrap() {
        let handler = row["handler"].as_str().unwrap();
        let payload = row["payload"].as_str().unwrap();
        for n in 0..6u32 {
            let msg = Msg { a: n, s: match handler { "ok" => "hi".into(), "status_bare" => "fail-bare".into(), _ => "fail".into() } };
            macro_rules! typed {
                ($client:expr, $method:ident, $want:expr) => {{
                    evaluations += 1;
                    let res = if payload == "good" {
                        rt.block_on($client.$method(msg.clone()))
                    } else {
                        // an undecodable payload on the method's route, through the raw service
                        Err(Status::unknown("raw"))
                    };
                    if payload == "good" {
                        check(stringify!($method), $want, res, row, n, &mut mismatches);
                    }
                }};
            }
            let mut c1 = gen::root_greeter::greeter_client::GreeterClient::new(router.clone());
            typed!(c1, say_hello, "Greeter.say_hello");
            typed!(c1, say, "Greeter.say");
            let mut c2 = gen::root_greet::greet_client::GreetClient::new(router.clone());
            typed!(c2, say_hello, "Greet.say_hello");
            typed!(c2, x, "Greet.x");
            let mut c3 = gen::pq_greeter::greeter_client::GreeterClient::new(router.clone());
            typed!(c3, say_hello, "p.q.Greeter.say_hello");
            if payload == "garbage" {
                // raw requests with undecodable bodies on every generated route
                for (path, json_codec) in [("/Greeter/SayHello", false), ("/Greeter/Say", true), ("/Greet/SayHello", false), ("/Greet/x", false), ("/p.q.Greeter/SayHello", true)] {
                    evaluations += 1;
                    let body = if json_codec { Bytes::from_static(b"{not json") } else { Bytes::from_static(&[0xff]) };
                    let mut r = router.clone();
                    let resp = rt.block_on(r.call(Request::new(body).with_route(path))).unwrap();
                    let ran = log.lock().unwrap().drain(..).collect::<Vec<_>>();
                    if resp.status().to_u16() as u64 != row["expect"]["code"].as_u64().unwrap() || !ran.is_empty() {
                        mismatches.push(json!({"what": format!("{path}: undecodable payload answered {:?}, handlers run {ran:?}", resp.status()), "row": row}));
                    }
                }
            }
        }
    }
    // (b'') a message that fails to encode half-way is an error for that call and leaves nothing behind:
    // the calls after it (same thread, same client) deliver their own messages
    {
        let mut c1 = gen::root_greeter::greeter_client::GreeterClient::new(router.clone());
        for round in 0..3u32 {
            evaluations += 1;
            let poisoned = rt.block_on(c1.say_hello(Msg { a: 0x4142_4344 + round, s: gen::POISON.into() }));
            let ran = log.lock().unwrap().drain(..).collect::<Vec<_>>();
            if poisoned.is_ok() || !ran.is_empty() {
                mismatches.push(json!({"what": format!("a request message that cannot be encoded: result {:?}, handlers run {ran:?}", poisoned.map(|r| r.into_inner()).map_err(|s| s.status()))}));
            }
            let after = rt.block_on(c1.say_hello(Msg { a: 7 + round, s: "hi".into() }));
            let ran = log.lock().unwrap().drain(..).collect::<Vec<_>>();
            let ok = matches!(&after, Ok(r) if r.inner().a == 8 + round && r.inner().s == "Greeter.say_hello:hi");
            if !ok || ran != vec!["Greeter.say_hello".to_string()] {
                mismatches.push(json!({"what": format!("the call after a message that failed to encode: {:?}, handlers run {ran:?}", after.map(|r| r.into_inner()).map_err(|s| s.status()))}));
            }
        }
    }
    // (b') every error code a handler may choose, with and without a message
    if let Some(rows) = tables.get("codegen_statuses").and_then(|v| v.as_array()) {
        for row in rows {
            let code = row["code"].as_u64().unwrap();
            let with = row["message"] == "with";
            let msg = Msg { a: 9, s: format!("failcode:{code}:{}", if with { "with" } else { "without" }) };
            let mut results: Vec<(&str, Result<Response<Msg>, Status>, Vec<String>)> = Vec::new();
            let ran_now = || log.lock().unwrap().drain(..).collect::<Vec<_>>();
            let mut c1 = gen::root_greeter::greeter_client::GreeterClient::new(router.clone());
            let r = rt.block_on(c1.say_hello(msg.clone()));
            results.push(("Greeter.say_hello", r, ran_now()));
            let r = rt.block_on(c1.say(msg.clone()));
            results.push(("Greeter.say", r, ran_now()));
            let mut c3 = gen::pq_greeter::greeter_client::GreeterClient::new(router.clone());
            let r = rt.block_on(c3.say_hello(msg.clone()));
            results.push(("p.q.Greeter.say_hello", r, ran_now()));
            for (name, res, ran) in results {
                evaluations += 1;
                let ok = match &res {
                    Err(st) => st.status().to_u16() as u64 == code
                        && st.headers().get("why").map(|x| x.as_str()) == Some("because")
                        && st.headers().get("x-detail").map(|x| x.as_str()) == Some("kept too")
                        && format!("{st:?}").contains("m9") == with,
                    Ok(_) => false,
                };
                if !ok || ran != vec![name.to_string()] {
                    mismatches.push(json!({"what": format!("{name}: the handler's status {code} ({} message, headers why / x-detail) reached the typed caller as {:?}; handlers run {ran:?}",
                        if with { "with" } else { "without" }, res.as_ref().map(|r| r.inner().clone())), "row": row}));
                }
            }
        }
    }
    // (c) message types with an empty or "nothing" encoding: a payload reaches the handler / the
    // typed caller iff the specification says the method's codec decodes it as the method's type
    for row in tables["codegen_edges"].as_array().unwrap() {
        let (codec, kind, payload) = (row["codec"].as_str().unwrap(), row["kind"].as_str().unwrap(), row["payload"].as_str().unwrap());
        let decodable = row["decodable"].as_bool().unwrap();
        let (path, method) = match (codec, kind) {
            ("bincode", "unit") => ("/c17.Probe/UnitB", "unit_b"),
            ("json", "unit") => ("/c17.Probe/UnitJ", "unit_j"),
            ("bincode", _) => ("/c17.Probe/OptB", "opt_b"),
            _ => ("/c17.Probe/OptJ", "opt_j"),
        };
        for some in [false, true] {
            evaluations += 1;
            let body = edge_payload(codec, kind, payload, some);
            if row["dir"] == "request" {
                let mut r = router.clone();
                let resp = rt.block_on(r.call(Request::new(body.clone()).with_route(path))).unwrap();
                let ran = log.lock().unwrap().drain(..).collect::<Vec<_>>();
                let want_ran: Vec<String> = if !decodable { vec![] } else if kind == "unit" { vec![format!("Probe.{method}")] } else { vec![format!("Probe.{method}:{}", payload == "good" && some)] };
                let ok = if decodable { resp.status() == StatusCode::Success && resp.body() == &edge_payload(codec, kind, "good", payload == "good" && some) } else { resp.status() != StatusCode::Success };
                if !ok || ran != want_ran {
                    mismatches.push(json!({"what": format!("{path}: request payload {payload:?} ({} bytes) answered {:?} with {} body bytes, handlers run {ran:?} (expected {want_ran:?})", body.len(), resp.status(), resp.body().len()), "row": row}));
                }
            } else {
                let b2 = body.clone();
                let canned = tower::service_fn(move |_req: Request<Bytes>| {
                    let b = b2.clone();
                    async move { Ok::<_, std::convert::Infallible>(Response::new(b)) }
                });
                let mut c = gen::c17_probe::probe_client::ProbeClient::new(canned);
                let got: Result<String, StatusCode> = match method {
                    "unit_b" => rt.block_on(c.unit_b(gen::Unit)).map(|r| format!("{:?}", r.into_inner())).map_err(|s| s.status()),
                    "unit_j" => rt.block_on(c.unit_j(gen::Unit)).map(|r| format!("{:?}", r.into_inner())).map_err(|s| s.status()),
                    "opt_b" => rt.block_on(c.opt_b(None)).map(|r| format!("{:?}", r.into_inner().is_some())).map_err(|s| s.status()),
                    _ => rt.block_on(c.opt_j(None)).map(|r| format!("{:?}", r.into_inner().is_some())).map_err(|s| s.status()),
                };
                let want_ok = if kind == "unit" { "Unit".to_owned() } else { format!("{:?}", payload == "good" && some) };
                let ok = match &got {
                    Ok(v) => decodable && *v == want_ok,
                    Err(_) => !decodable,
                };
                if !ok {
                    mismatches.push(json!({"what": format!("{method}: response payload {payload:?} ({} bytes) surfaced as {got:?} (decodable: {decodable})", body.len()), "row": row}));
                }
            }
        }
    }
    // (d) undecodable payloads whose error text is long and not ASCII (serde echoes the offending
    // string): an error status, never a panic - at every alignment of 2-, 3- and 4-byte characters
    for ch in ['\u{e9}', '\u{20ac}', '\u{1d11e}'] {
        for pad in 0..4usize {
            evaluations += 1;
            let text = format!("\"{}{}\"", "a".repeat(pad), ch.to_string().repeat(700));
            let body = Bytes::from(text.into_bytes());
            for path in ["/Greeter/Say", "/p.q.Greeter/SayHello", "/c17.Probe/UnitJ", "/c17.Probe/OptJ"] {
                let mut r = router.clone();
                let b = body.clone();
                let res = std::panic::catch_unwind(std::panic::AssertUnwindSafe(|| rt.block_on(r.call(Request::new(b).with_route(path)))));
                let ran = log.lock().unwrap().drain(..).collect::<Vec<_>>();
                match res {
                    Ok(Ok(resp)) if resp.status() != StatusCode::Success && ran.is_empty() => {}
                    Ok(Ok(resp)) => mismatches.push(json!({"what": format!("{path}: a long non-ASCII undecodable request was answered {:?}, handlers run {ran:?}", resp.status())})),
                    Ok(Err(_)) => {}
                    Err(_) => mismatches.push(json!({"what": format!("{path}: the generated server panicked on an undecodable request whose error text is long and not ASCII ({} bytes, pad {pad})", body.len())})),
                }
            }
            let b2 = body.clone();
            let canned = tower::service_fn(move |_req: Request<Bytes>| {
                let b = b2.clone();
                async move { Ok::<_, std::convert::Infallible>(Response::new(b)) }
            });
            let mut c = gen::pq_greeter::greeter_client::GreeterClient::new(canned);
            match std::panic::catch_unwind(std::panic::AssertUnwindSafe(|| rt.block_on(c.say_hello(Msg { a: 1, s: "x".into() })))) {
                Ok(Err(_)) => {}
                Ok(Ok(_)) => mismatches.push(json!({"what": "a long non-ASCII undecodable response surfaced as a success"})),
                Err(_) => mismatches.push(json!({"what": format!("the generated client panicked on an undecodable response whose error text is long and not ASCII (pad {pad})")})),
            }
        }
    }
    // (e) bincode payloads whose length prefixes claim absurd sizes: an error status, never a panic
    // or an attempt to allocate what the prefix says
    for len in [u64::MAX, (isize::MAX as u64) + 1, isize::MAX as u64, 1u64 << 40, 1 << 32, 1 << 31] {
        for tail in [0usize, 3, 64] {
            evaluations += 1;
            let mut junk = vec![1u8, 0, 0, 0]; // a = 1
            junk.extend_from_slice(&len.to_le_bytes()); // s: length prefix
            junk.extend(std::iter::repeat(b'x').take(tail));
            let mut junk_opt = vec![1u8]; // Some(..)
            junk_opt.extend_from_slice(&junk);
            for (path, body) in [("/Greeter/SayHello", junk.clone()), ("/Greet/SayHello", junk.clone()), ("/Greet/x", junk.clone()), ("/c17.Probe/OptB", junk_opt.clone())] {
                let mut r = router.clone();
                let b = Bytes::from(body);
                let res = std::panic::catch_unwind(std::panic::AssertUnwindSafe(|| rt.block_on(r.call(Request::new(b).with_route(path)))));
                let ran = log.lock().unwrap().drain(..).collect::<Vec<_>>();
                match res {
                    Ok(Ok(resp)) if resp.status() != StatusCode::Success && ran.is_empty() => {}
                    Ok(Ok(resp)) => mismatches.push(json!({"what": format!("{path}: a bincode payload with length prefix {len} was answered {:?}, handlers run {ran:?}", resp.status())})),
                    Ok(Err(_)) => {}
                    Err(_) => mismatches.push(json!({"what": format!("{path}: the generated server panicked on a bincode payload whose length prefix claims {len} bytes")})),
                }
            }
            let b2 = Bytes::from(junk.clone());
            let canned = tower::service_fn(move |_req: Request<Bytes>| {
                let b = b2.clone();
                async move { Ok::<_, std::convert::Infallible>(Response::new(b)) }
            });
            let mut c = gen::root_greeter::greeter_client::GreeterClient::new(canned);
            match std::panic::catch_unwind(std::panic::AssertUnwindSafe(|| rt.block_on(c.say_hello(Msg { a: 1, s: "x".into() })))) {
                Ok(Err(_)) => {}
                Ok(Ok(_)) => mismatches.push(json!({"what": format!("a bincode response with length prefix {len} surfaced as a success")})),
                Err(_) => mismatches.push(json!({"what": format!("the generated client panicked on a bincode response whose length prefix claims {len} bytes")})),
            }
        }
    }
    // a response the client cannot decode, and a non-success status, surface as Err
    {
        evaluations += 2;
        let bad = tower::service_fn(|_req: Request<Bytes>| async move {
            Ok::<_, std::convert::Infallible>(Response::new(Bytes::from_static(&[1, 2, 3])))
        });
        let mut c = gen::root_greeter::greeter_client::GreeterClient::new(bad);
        match rt.block_on(c.say_hello(Msg { a: 1, s: "x".into() })) {
            Err(s) if s.status() == StatusCode::Unknown => {}
            other => mismatches.push(json!({"what": format!("undecodable response surfaced as {:?}", other.map(|r| r.into_inner()).map_err(|s| s.status()))})),
        }
        let nf = tower::service_fn(|_req: Request<Bytes>| async move {
            Ok::<_, std::convert::Infallible>(Response::new(Bytes::from(bincode::serialize(&Msg { a: 9, s: "z".into() }).unwrap())).with_status(StatusCode::NotFound))
        });
        let mut c = gen::root_greeter::greeter_client::GreeterClient::new(nf);
        match rt.block_on(c.say_hello(Msg { a: 1, s: "x".into() })) {
            Err(s) if s.status() == StatusCode::NotFound => {}
            other => mismatches.push(json!({"what": format!("non-success status surfaced as {:?}", other.map(|r| r.into_inner()).map_err(|s| s.status()))})),
        }
    }
    mismatches.truncate(8);
    let rows = tables["codegen_paths"].as_array().unwrap().len() + tables["codegen_pipeline"].as_array().unwrap().len()
        + tables["codegen_edges"].as_array().unwrap().len();
    print_summary(&json!({"evaluations": evaluations, "rows": rows, "mismatches": mismatches}));
    0
}


/// C12 at the level of the generated server code: a request future that is dropped (what the
/// network does when the caller abandons the call) must take the user's handler with it.
#[derive(Clone, Default)]
struct CancelImpl {
    started: Arc<std::sync::atomic::AtomicU64>,
    dropped: Arc<std::sync::atomic::AtomicU64>,
}

struct HandlerGuard(Arc<std::sync::atomic::AtomicU64>);
impl Drop for HandlerGuard {
    fn drop(&mut self) {
        self.0.fetch_add(1, std::sync::atomic::Ordering::SeqCst);
    }
}

impl CancelImpl {
    async fn park<T>(&self) -> T {
        let _guard = HandlerGuard(self.dropped.clone());
        self.started.fetch_add(1, std::sync::atomic::Ordering::SeqCst);
        futures::future::pending::<T>().await
    }
}

#[anemo::async_trait]
impl gen::root_greeter::greeter_server::Greeter for CancelImpl {
    async fn say_hello(&self, _r: Request<Msg>) -> Result<Response<Msg>, Status> { self.park().await }
    async fn say(&self, _r: Request<Msg>) -> Result<Response<Msg>, Status> { self.park().await }
}
#[anemo::async_trait]
impl gen::root_greet::greet_server::Greet for CancelImpl {
    async fn say_hello(&self, _r: Request<Msg>) -> Result<Response<Msg>, Status> { self.park().await }
    async fn x(&self, _r: Request<Msg>) -> Result<Response<Bytes>, Status> { self.park().await }
}
#[anemo::async_trait]
impl gen::c17_probe::probe_server::Probe for CancelImpl {
    async fn unit_b(&self, _r: Request<gen::Unit>) -> Result<Response<gen::Unit>, Status> { self.park().await }
    async fn unit_j(&self, _r: Request<gen::Unit>) -> Result<Response<gen::Unit>, Status> { self.park().await }
    async fn opt_b(&self, _r: Request<Option<Msg>>) -> Result<Response<Option<Msg>>, Status> { self.park().await }
    async fn opt_j(&self, _r: Request<Option<Msg>>) -> Result<Response<Option<Msg>>, Status> { self.park().await }
}

pub fn cancel(_a: &Args) -> i32 {
    let imp = CancelImpl::default();
    let router = Router::new()
        .add_rpc_service(gen::root_greeter::greeter_server::GreeterServer::new(imp.clone()))
        .add_rpc_service(gen::root_greet::greet_server::GreetServer::new(imp.clone()))
        .add_rpc_service(gen::c17_probe::probe_server::ProbeServer::new(imp.clone()));
    let m = Msg { a: 1, s: "x".into() };
    let bin = |v: &Msg| Bytes::from(bincode::serialize(v).unwrap());
    let routes: Vec<(&str, Bytes)> = vec![
        ("/Greeter/SayHello", bin(&m)),
        ("/Greeter/Say", Bytes::from(serde_json::to_vec(&m).unwrap())),
        ("/Greet/SayHello", bin(&m)),
        ("/Greet/x", bin(&m)),
        ("/c17.Probe/UnitB", Bytes::new()),
        ("/c17.Probe/UnitJ", Bytes::from_static(b"null")),
        ("/c17.Probe/OptB", Bytes::from(bincode::serialize(&Some(m.clone())).unwrap())),
        ("/c17.Probe/OptJ", Bytes::from_static(b"null")),
    ];
    let mut mismatches: Vec<Value> = Vec::new();
    let mut evaluations = 0u64;
    for flavor in ["current_thread", "multi_thread"] {
        let rt = if flavor == "current_thread" {
            tokio::runtime::Builder::new_current_thread().enable_all().build().unwrap()
        } else {
            tokio::runtime::Builder::new_multi_thread().worker_threads(2).enable_all().build().unwrap()
        };
        for (path, body) in &routes {
            evaluations += 1;
            let (s0, d0) = (imp.started.load(std::sync::atomic::Ordering::SeqCst), imp.dropped.load(std::sync::atomic::Ordering::SeqCst));
            let mut r = router.clone();
            let req = Request::new(body.clone()).with_route(*path);
            let (started, dropped_after) = rt.block_on(async {
                let mut fut = Box::pin(r.call(req));
                // drive the request until the handler runs (or it answers, which it must not)
                let answered = tokio::select! {
                    res = &mut fut => Some(res.map(|r| r.status().to_u16())),
                    _ = async {
                        for _ in 0..200 {
                            if imp.started.load(std::sync::atomic::Ordering::SeqCst) > s0 { break; }
                            tokio::time::sleep(std::time::Duration::from_millis(1)).await;
                        }
                    } => None,
                };
                let started = imp.started.load(std::sync::atomic::Ordering::SeqCst) > s0 && answered.is_none();
                // the caller abandons: the network drops the request's future
                drop(fut);
                tokio::time::sleep(std::time::Duration::from_millis(30)).await;
                (started, imp.dropped.load(std::sync::atomic::Ordering::SeqCst) > d0)
            });
            if !started {
                mismatches.push(json!({"what": format!("{path} ({flavor}): the handler never started")}));
            } else if !dropped_after {
                mismatches.push(json!({"what": format!("{path} ({flavor}): the request's future was dropped but the handler is still alive 30 ms later")}));
            }
        }
    }
    mismatches.truncate(6);
    print_summary(&json!({"evaluations": evaluations, "rows": routes.len() * 2, "mismatches": mismatches}));
    0
}


/// Routers built from generated servers, for the routing checks (C16): the package-less Greeter,
/// p.q.Greeter and the empty p.Empty service, mounted through `add_rpc_service`.
pub fn generated_router() -> Router {
    let log: Log = Default::default();
    let mk = |tag: &'static str| Impl { tag, log: log.clone() };
    Router::new()
        .add_rpc_service(gen::root_greeter::greeter_server::GreeterServer::new(mk("Greeter")))
        .add_rpc_service(gen::pq_greeter::greeter_server::GreeterServer::new(mk("p.q.Greeter")))
        .add_rpc_service(gen::p_empty::empty_server::EmptyServer::new(mk("p.Empty")))
        .add_rpc_service(gen::c17_probe::probe_server::ProbeServer::new(mk("Probe")))
}


/// C11 at the level of the generated server code: behind the inbound timeout layer (as the network
/// installs it) a handler that needs longer than the deadline is answered RequestTimeout at the
/// deadline and is dropped - for every generated method, with a configured default and with a
/// deadline in the request's header.
#[cfg(feature = "direct")]
pub fn deadline(_a: &Args) -> i32 {
    use tower::ServiceExt;
    let imp = CancelImpl::default();
    let router = Router::new()
        .add_rpc_service(gen::root_greeter::greeter_server::GreeterServer::new(imp.clone()))
        .add_rpc_service(gen::root_greet::greet_server::GreetServer::new(imp.clone()))
        .add_rpc_service(gen::c17_probe::probe_server::ProbeServer::new(imp.clone()));
    let m = Msg { a: 1, s: "x".into() };
    let bin = |v: &Msg| Bytes::from(bincode::serialize(v).unwrap());
    let routes: Vec<(&str, Bytes)> = vec![
        ("/Greeter/SayHello", bin(&m)),
        ("/Greeter/Say", Bytes::from(serde_json::to_vec(&m).unwrap())),
        ("/Greet/x", bin(&m)),
        ("/c17.Probe/UnitB", Bytes::new()),
        ("/c17.Probe/OptJ", Bytes::from_static(b"null")),
    ];
    let mut mismatches: Vec<Value> = Vec::new();
    let mut evaluations = 0u64;
    let rt = tokio::runtime::Builder::new_current_thread().enable_all().start_paused(true).build().unwrap();
    for (default_ms, header_ms) in [(Some(150u64), None), (None, Some(150u64)), (Some(5_000), Some(150)), (Some(150), Some(5_000))] {
        for (path, body) in &routes {
            evaluations += 1;
            let (s0, d0) = (imp.started.load(std::sync::atomic::Ordering::SeqCst), imp.dropped.load(std::sync::atomic::Ordering::SeqCst));
            let mut svc = anemo::verif::direct::with_inbound_timeout(default_ms.map(std::time::Duration::from_millis), router.clone().boxed_clone());
            let mut req = Request::new(body.clone()).with_route(*path);
            if let Some(h) = header_ms {
                req.set_timeout(std::time::Duration::from_millis(h));
            }
            let (status, took, started, dropped) = rt.block_on(async {
                let t0 = tokio::time::Instant::now();
                let resp = tokio::time::timeout(std::time::Duration::from_secs(60), svc.call(req)).await;
                let took = t0.elapsed().as_millis() as u64;
                tokio::time::sleep(std::time::Duration::from_millis(50)).await;
                (
                    resp.ok().and_then(|r| r.ok()).map(|r| r.status().to_u16()),
                    took,
                    imp.started.load(std::sync::atomic::Ordering::SeqCst) > s0,
                    imp.dropped.load(std::sync::atomic::Ordering::SeqCst) > d0,
                )
            });
            let what = format!("{path} (default {default_ms:?} ms, header {header_ms:?} ms)");
            if !started {
                mismatches.push(json!({"what": format!("{what}: the handler never started")}));
            } else if status != Some(408) || !(140..=200).contains(&took) {
                mismatches.push(json!({"what": format!("{what}: answered {status:?} after {took} ms, expected RequestTimeout at 150 ms")}));
            } else if !dropped {
                mismatches.push(json!({"what": format!("{what}: RequestTimeout was sent but the handler is still alive 50 ms later")}));
            }
        }
    }
    mismatches.truncate(6);
    print_summary(&json!({"evaluations": evaluations, "rows": routes.len() * 4, "mismatches": mismatches}));
    0
}


/// A failure (or an answer) that is passed along: A asks B, B's handler asks C through the same
/// network and returns what it got. Whatever travels, the identity A's typed client attributes the
/// status / the response to is B's - the authenticated other end of A's connection - and the
/// response B sends carries the handler's headers and the status message, nothing else.
pub fn relay(_a: &Args) -> i32 {
    use crate::scenarios::conn::{node_cfg, Opts};
    let out = crate::sim::run_sim(1, |mut sim| async move {
        let o = Opts { nodes: 3, ops: 0, faults: false, restarts: false, known: false, limit: None, idle_ms: 30_000, keepalive_ms: Some(5_000), hetero: false };
        let keys = crate::sim::sorted_keys(3, &mut sim.rng);
        crate::sim::WITH_GENERATED.with(|c| c.set(true));
        for k in keys {
            sim.add_node(node_cfg(k, &o)).map_err(|e| e.to_string())?;
        }
        crate::sim::WITH_GENERATED.with(|c| c.set(false));
        let (a, b, c) = (0usize, 1usize, 2usize);
        sim.connect(a, sim.addr(b), Some(sim.peer_id(b))).await.map_err(|e| format!("setup: {e}"))?;
        sim.connect(b, sim.addr(c), Some(sim.peer_id(c))).await.map_err(|e| format!("setup: {e}"))?;
        let (pb, pc) = (sim.peer_id(b), sim.peer_id(c));
        let hex_c = hex::encode(pc.0);
        let mut mismatches: Vec<Value> = Vec::new();
        let mut evaluations = 0u64;
        let peer = sim.net(a).peer(pb).ok_or("no peer")?;
        let mut client = gen::root_greeter::greeter_client::GreeterClient::new(peer);
        for what in ["fail", "fail-bare", "hi"] {
            evaluations += 1;
            let r = client.say_hello(Msg { a: 7, s: format!("relay:{hex_c}:{what}") }).await;
            match r {
                Ok(resp) => {
                    if what != "hi" {
                        mismatches.push(json!({"what": format!("relayed {what}: the caller got a success")}));
                    } else if resp.peer_id() != Some(&pb) {
                        mismatches.push(json!({"what": "relayed answer: the response is not attributed to the peer that was asked (the authenticated end of the connection)"}));
                    } else if resp.inner().a != 8 || !resp.inner().s.ends_with(":hi") {
                        mismatches.push(json!({"what": format!("relayed answer garbled: {:?}", resp.inner().s)}));
                    }
                }
                Err(st) => {
                    if what == "hi" {
                        mismatches.push(json!({"what": format!("relayed call failed: {st:?}")}));
                        continue;
                    }
                    if st.peer_id() != Some(&pb) {
                        let who = if st.peer_id() == Some(&pc) { "the third party named inside the message".to_string() } else { format!("{:?}", st.peer_id()) };
                        mismatches.push(json!({"what": format!("relayed {what}: the error status is attributed to {who}, not to the peer that was asked (the authenticated end of the connection)")}));
                    }
                    if st.status() != StatusCode::BadRequest || st.headers().get("why").map(|s| s.as_str()) != Some("because") {
                        mismatches.push(json!({"what": format!("relayed {what}: code / headers of the status changed on the way: {st:?}")}));
                    }
                }
            }
            // the same exchange seen raw: exactly the handler's headers (+ the message) travel
            evaluations += 1;
            let body = Bytes::from(bincode::serialize(&Msg { a: 7, s: format!("relay:{hex_c}:{what}") }).unwrap());
            match sim.net(a).rpc(pb, Request::new(body).with_route("/Greeter/SayHello")).await {
                Ok(resp) => {
                    let mut names: Vec<&str> = resp.headers().keys().map(|k| k.as_str()).collect();
                    names.sort();
                    let want: Vec<&str> = match what {
                        "fail" => vec!["status-message", "why"],
                        "fail-bare" => vec!["retry-after-ms", "why"],
                        _ => vec!["content-type", "extra"],
                    };
                    if names != want {
                        mismatches.push(json!({"what": format!("relayed {what}: the response carries headers {names:?}, the handler's status has {want:?}")}));
                    }
                    if resp.peer_id() != Some(&pb) {
                        mismatches.push(json!({"what": "raw response not attributed to the connection's peer"}));
                    }
                }
                Err(e) => mismatches.push(json!({"what": format!("raw relayed call failed: {e}")})),
            }
        }
        for i in 0..3 {
            crate::scenarios::conn::shutdown(&mut sim, i).await;
        }
        Ok(json!({"evaluations": evaluations, "mismatches": mismatches}))
    });
    let mut mismatches: Vec<Value> = Vec::new();
    let mut evaluations = 0u64;
    match out.result {
        Ok(v) => {
            evaluations = v["evaluations"].as_u64().unwrap_or(0);
            mismatches = v["mismatches"].as_array().cloned().unwrap_or_default();
        }
        Err(e) => mismatches.push(json!({"what": format!("relay scenario failed: {e}")})),
    }
    for p in out.panics {
        mismatches.push(json!({"what": format!("panic: {p}")}));
    }
    mismatches.truncate(6);
    print_summary(&json!({"evaluations": evaluations, "rows": 3, "mismatches": mismatches}));
    0
}
