//! C18 (real threads): the in-flight limiter hit by several OS threads at once. Every trial uses
//! identities the limiter has never seen, and all threads issue their first request for a peer at
//! the same instant (barrier), which is where per-peer state is created; later waves reuse the
//! peers. The wrapped service logs `enter` / `leave` with a global sequence number taken while
//! the request holds its slot, so the log order is a linearisation of slot ownership;
//! InflightStressTrace.tla replays it: never more than Max of one peer inside, every request
//! ends as exactly one of served / refused, all slots free at the end.

use super::{print_summary, Args};
use anemo::{rpc::Status, types::response::StatusCode, PeerId, Request, Response};
use anemo_tower::inflight_limit::{InflightLimitLayer, WaitMode};
use bytes::Bytes;
use rand::{rngs::StdRng, Rng, SeedableRng};
use serde_json::{json, Value};
use std::sync::atomic::{AtomicU64, Ordering};
use std::sync::{Arc, Barrier, Mutex};
use std::task::{Context, Poll};
use tower::{Layer, Service, ServiceExt};

#[derive(Clone)]
struct Inner {
    seq: Arc<AtomicU64>,
    log: Arc<Mutex<Vec<Value>>>,
    hold_us: u64,
}

impl Service<Request<Bytes>> for Inner {
    type Response = Response<Bytes>;
    type Error = Status;
    type Future = futures::future::BoxFuture<'static, Result<Response<Bytes>, Status>>;
    fn poll_ready(&mut self, _: &mut Context<'_>) -> Poll<Result<(), Status>> {
        Poll::Ready(Ok(()))
    }
    fn call(&mut self, req: Request<Bytes>) -> Self::Future {
        let peer: u64 = req.headers().get("peer").and_then(|p| p.parse().ok()).unwrap_or(0);
        let rid: u64 = req.headers().get("rid").and_then(|p| p.parse().ok()).unwrap_or(0);
        // the slot is held from before this call until after the returned future completes
        let s = self.seq.fetch_add(1, Ordering::SeqCst);
        self.log.lock().unwrap().push(json!({"ev": "enter", "s": s, "peer": peer, "rid": rid}));
        let (seq, log, hold) = (self.seq.clone(), self.log.clone(), self.hold_us);
        Box::pin(async move {
            tokio::time::sleep(std::time::Duration::from_micros(hold)).await;
            let s = seq.fetch_add(1, Ordering::SeqCst);
            log.lock().unwrap().push(json!({"ev": "leave", "s": s, "peer": peer, "rid": rid}));
            Ok(Response::new(Bytes::new()))
        })
    }
}

pub fn main(a: &Args) -> i32 {
    let seed = a.u64("seed", 1);
    let trials = a.u64("trials", 40);
    let threads = a.u64("threads", 6) as usize;
    let out = a.str("out", "/verif/work/limstress.ndjson");
    let mut rng = StdRng::seed_from_u64(seed);
    let mut lines: Vec<Value> = Vec::new();
    let mut summary = Vec::new();
    for t in 0..trials {
        let max = [1usize, 1, 2, 3][(t % 4) as usize];
        let block = t % 2 == 1;
        let mode = if block { WaitMode::Block } else { WaitMode::ReturnError };
        let seq = Arc::new(AtomicU64::new(1));
        let log: Arc<Mutex<Vec<Value>>> = Default::default();
        let inner = Inner { seq: seq.clone(), log: log.clone(), hold_us: rng.gen_range(200..3_000) };
        let layer = InflightLimitLayer::new(max, mode);
        let svc = layer.layer(inner);
        // two fresh identities per trial, equal but for one byte
        let mut base = [0u8; 32];
        rng.fill(&mut base);
        let pos = rng.gen_range(0..32);
        let ids: Vec<PeerId> = (1..=2u8).map(|k| { let mut b = base; b[pos] = b[pos].wrapping_add(k); PeerId(b) }).collect();
        let waves = 3u64;
        let barrier = Arc::new(Barrier::new(threads));
        let results: Arc<Mutex<Vec<Value>>> = Default::default();
        let mut hs = Vec::new();
        for th in 0..threads {
            let (svc, ids, barrier, results, seq) = (svc.clone(), ids.clone(), barrier.clone(), results.clone(), seq.clone());
            hs.push(std::thread::spawn(move || {
                let rt = tokio::runtime::Builder::new_current_thread().enable_all().build().unwrap();
                for w in 0..waves {
                    let peer = if th % 3 == 2 { 2u64 } else { 1u64 };
                    let rid = w * 100 + th as u64 + 1;
                    let req = Request::new(Bytes::new())
                        .with_header("peer", peer.to_string())
                        .with_header("rid", rid.to_string())
                        .with_extension(ids[(peer - 1) as usize]);
                    let mut svc = svc.clone();
                    barrier.wait();
                    let r = rt.block_on(async move { svc.ready().await?.call(req).await });
                    let s = seq.fetch_add(1, Ordering::SeqCst);
                    let outcome = match &r {
                        Ok(_) => "served",
                        Err(e) if e.status() == StatusCode::TooManyRequests => "refused",
                        Err(_) => "other",
                    };
                    results.lock().unwrap().push(json!({"ev": "result", "s": s, "peer": peer, "rid": rid, "outcome": outcome}));
                }
            }));
        }
        for h in hs {
            let _ = h.join();
        }
        // afterwards every slot is free: Max sequential requests per peer are all served
        let rt = tokio::runtime::Builder::new_current_thread().enable_all().build().unwrap();
        for peer in 1..=2u64 {
            let mut futs = Vec::new();
            for k in 0..max as u64 {
                let rid = 9000 + peer * 10 + k;
                let req = Request::new(Bytes::new()).with_header("peer", peer.to_string()).with_header("rid", rid.to_string())
                    .with_extension(ids[(peer - 1) as usize]);
                let mut s2 = svc.clone();
                futs.push(async move { (rid, s2.ready().await.unwrap().call(req).await) });
            }
            let rs = rt.block_on(async { tokio::time::timeout(std::time::Duration::from_secs(5), futures::future::join_all(futs)).await });
            match rs {
                Ok(rs) => for (rid, r) in rs {
                    let s = seq.fetch_add(1, Ordering::SeqCst);
                    results.lock().unwrap().push(json!({"ev": "result", "s": s, "peer": peer, "rid": rid, "final": true,
                        "outcome": if r.is_ok() { "served" } else { "refused" }}));
                },
                Err(_) => {
                    let s = seq.fetch_add(1, Ordering::SeqCst);
                    results.lock().unwrap().push(json!({"ev": "result", "s": s, "peer": peer, "rid": 9000 + peer * 10, "final": true, "outcome": "hung"}));
                }
            }
        }
        let mut all: Vec<Value> = log.lock().unwrap().drain(..).collect();
        all.extend(results.lock().unwrap().drain(..));
        all.sort_by_key(|l| l["s"].as_u64());
        lines.push(json!({"ev": "reset", "trial": t, "max": max, "mode": if block { "Block" } else { "ReturnError" }, "threads": threads}));
        let n = all.len();
        lines.extend(all);
        lines.push(json!({"ev": "end", "trial": t}));
        summary.push(json!({"trial": t, "max": max, "block": block, "events": n}));
    }
    crate::trace::write_ndjson(std::path::Path::new(&out), &lines).unwrap();
    let budget = budget_sweep();
    print_summary(&json!({"scenario": "limstress", "trace": out, "trials": summary, "budget_sweep": budget}));
    0
}

/// ReturnError mode decides at once: a request either enters the wrapped service or is refused,
/// it never waits. Two requests of one peer compete for the single slot while the task issuing
/// the first has spent k units of its cooperative-scheduling budget (tokio makes a task yield at
/// its next resource operation once 128 are spent - an await point where none is expected).
/// For every k in 0..=300: one request is inside, the other has been refused.
fn budget_sweep() -> Value {
    let rt = tokio::runtime::Builder::new_current_thread().enable_all().build().unwrap();
    let mut bad = Vec::new();
    let mut evals = 0u64;
    for k in 0..=300u32 {
        evals += 1;
        let seq = Arc::new(AtomicU64::new(1));
        let log: Arc<Mutex<Vec<Value>>> = Default::default();
        let inner = Inner { seq, log: log.clone(), hold_us: 50_000 };
        let svc = InflightLimitLayer::new(1, WaitMode::ReturnError).layer(inner);
        let id = PeerId([k as u8; 32]);
        let (done1, done2, inside) = rt.block_on(async {
            let mut s1 = svc.clone();
            let t1 = tokio::spawn(async move {
                for _ in 0..k {
                    tokio::task::consume_budget().await;
                }
                s1.call(Request::new(Bytes::new()).with_header("peer", "1").with_header("rid", "1").with_extension(id)).await.map(|_| ()).map_err(|e| e.status())
            });
            let mut s2 = svc.clone();
            let t2 = tokio::spawn(async move {
                s2.call(Request::new(Bytes::new()).with_header("peer", "1").with_header("rid", "2").with_extension(id)).await.map(|_| ()).map_err(|e| e.status())
            });
            // both have run as far as they can without the slot being released (held for 50 ms)
            tokio::time::sleep(std::time::Duration::from_millis(10)).await;
            let inside = log.lock().unwrap().iter().filter(|l| l["ev"] == "enter").count();
            let (f1, f2) = (t1.is_finished(), t2.is_finished());
            t1.abort();
            t2.abort();
            (f1, f2, inside)
        });
        // exactly one entered (and is still held, so its task is unfinished); the other finished (refused)
        if inside != 1 || (done1 == done2) {
            bad.push(json!({"k": k, "inside": inside, "first_finished": done1, "second_finished": done2}));
        }
    }
    json!({"evaluations": evals, "bad": bad.into_iter().take(5).collect::<Vec<_>>()})
}
