//! C07: the wire format. (spec -> impl) every (message, bytes) row TLC emitted from AnemoWire is
//! replayed: the real encoder must produce the specification's bytes, the real decoder must
//! return the message from them, reject every strict prefix and every closed-set mutation.
//! (impl -> spec) random larger messages are encoded by the real code and logged as byte arrays;
//! AnemoWireTrace decodes them with the specification's own decoder.

use super::{print_summary, Args};
use anemo::{types::response::StatusCode, Config, Request, Response};
use bytes::Bytes;
use rand::{rngs::StdRng, Rng, SeedableRng};
use serde_json::{json, Value};
use std::collections::HashMap;

fn bytes_of(v: &Value) -> Vec<u8> {
    v.as_array().map(|a| a.iter().map(|x| x.as_u64().unwrap() as u8).collect()).unwrap_or_default()
}

fn string_of(v: &Value) -> String {
    String::from_utf8(bytes_of(v)).expect("spec strings are utf-8")
}

fn map_of(entries: &Value) -> HashMap<String, String> {
    let mut m = HashMap::new();
    for e in entries.as_array().unwrap() {
        m.insert(string_of(&e[0]), string_of(&e[1]));
    }
    m
}

fn block<F: std::future::Future>(f: F) -> F::Output {
    futures::executor::block_on(f)
}

fn enc_req(cfg: &Config, route: &str, headers: &HashMap<String, String>, body: &[u8], ext: bool) -> anyhow::Result<Vec<u8>> {
    let mut r = Request::new(Bytes::copy_from_slice(body)).with_route(route);
    *r.headers_mut() = headers.clone();
    if ext {
        r = r.with_extension(anemo::PeerId([7; 32])).with_extension(anemo::Direction::Outbound);
    }
    Ok(block(anemo::verif::direct::write_request(cfg, Vec::new(), r))?)
}

fn enc_resp(cfg: &Config, status: u16, headers: &HashMap<String, String>, body: &[u8], ext: bool) -> anyhow::Result<Vec<u8>> {
    let mut r = Response::new(Bytes::copy_from_slice(body)).with_status(StatusCode::new(status)?);
    *r.headers_mut() = headers.clone();
    if ext {
        r = r.with_extension(anemo::PeerId([9; 32]));
    }
    Ok(block(anemo::verif::direct::write_response(cfg, Vec::new(), r))?)
}

pub fn replay(a: &Args) -> i32 {
    let tables: Value = serde_json::from_str(&std::fs::read_to_string(a.str("table", "")).expect("tables")).unwrap();
    let cfg = Config::default();
    let mut mismatches: Vec<Value> = Vec::new();
    let mut evaluations = 0u64;
    let mut bad = |what: String, row: &Value, m: &mut Vec<Value>| {
        if m.len() < 6 {
            m.push(json!({"what": what, "row": row}));
        }
    };
    // group the specification's byte strings by message (header order is free)
    let mut group: HashMap<String, Vec<Vec<u8>>> = HashMap::new();
    for kind in ["wire_req", "wire_resp"] {
        for row in tables[kind].as_array().unwrap() {
            let m = &row["msg"];
            let mut hm: Vec<_> = map_of(&m["entries"]).into_iter().collect();
            hm.sort();
            let key = format!("{kind}|{}|{}|{hm:?}|{}", m.get("route").map(|r| r.to_string()).unwrap_or_default(), m.get("status").map(|r| r.to_string()).unwrap_or_default(), m["body"]);
            group.entry(key).or_default().push(bytes_of(&row["bytes"]));
        }
    }
    for kind in ["wire_req", "wire_resp"] {
        for row in tables[kind].as_array().unwrap() {
            evaluations += 1;
            let m = &row["msg"];
            let spec_bytes = bytes_of(&row["bytes"]);
            let headers = map_of(&m["entries"]);
            let body = bytes_of(&m["body"]);
            let mut hm: Vec<_> = headers.clone().into_iter().collect();
            hm.sort();
            let key = format!("{kind}|{}|{}|{hm:?}|{}", m.get("route").map(|r| r.to_string()).unwrap_or_default(), m.get("status").map(|r| r.to_string()).unwrap_or_default(), m["body"]);
            let is_req = kind == "wire_req";
            // encoder: with and without local extensions
            for ext in [false, true] {
                let real = if is_req {
                    enc_req(&cfg, &string_of(&m["route"]), &headers, &body, ext)
                } else {
                    enc_resp(&cfg, m["status"].as_u64().unwrap() as u16, &headers, &body, ext)
                };
                match real {
                    Ok(b) if group[&key].contains(&b) => {}
                    Ok(b) => bad(format!("encoder produced {b:?} (ext={ext}), specification allows {:?}", group[&key]), row, &mut mismatches),
                    Err(e) => bad(format!("encoder failed: {e}"), row, &mut mismatches),
                }
            }
            // decoder on the specification's bytes
            if is_req {
                match block(anemo::verif::direct::read_request(&cfg, &spec_bytes[..])) {
                    Ok(r) => {
                        if r.route() != string_of(&m["route"]) || r.headers() != &headers || r.body()[..] != body[..]
                            || r.version().to_u16() != 1 || r.extensions().len() != 0 {
                            bad(format!("decoder returned route {:?} headers {:?} body {:?}", r.route(), r.headers(), r.body()), row, &mut mismatches);
                        }
                    }
                    Err(e) => bad(format!("decoder rejected the specification's bytes: {e}"), row, &mut mismatches),
                }
            } else {
                match block(anemo::verif::direct::read_response(&cfg, &spec_bytes[..])) {
                    Ok(r) => {
                        if r.status().to_u16() as u64 != m["status"].as_u64().unwrap() || r.headers() != &headers || r.body()[..] != body[..]
                            || r.extensions().len() != 0 {
                            bad(format!("decoder returned status {:?} headers {:?} body {:?}", r.status(), r.headers(), r.body()), row, &mut mismatches);
                        }
                    }
                    Err(e) => bad(format!("decoder rejected the specification's bytes: {e}"), row, &mut mismatches),
                }
            }
            // every strict prefix is rejected (and nothing panics)
            for n in 0..spec_bytes.len() {
                evaluations += 1;
                let ok = if is_req {
                    block(anemo::verif::direct::read_request(&cfg, &spec_bytes[..n])).is_ok()
                } else {
                    block(anemo::verif::direct::read_response(&cfg, &spec_bytes[..n])).is_ok()
                };
                if ok {
                    bad(format!("strict prefix of length {n} was accepted"), row, &mut mismatches);
                }
            }
        }
    }
    for row in tables["wire_bad"].as_array().unwrap() {
        evaluations += 1;
        let b = bytes_of(&row["bytes"]);
        let is_req = row["kind"] == "bad_req";
        let r = std::panic::catch_unwind(std::panic::AssertUnwindSafe(|| {
            if is_req {
                block(anemo::verif::direct::read_request(&cfg, &b[..])).is_ok()
            } else {
                block(anemo::verif::direct::read_response(&cfg, &b[..])).is_ok()
            }
        }));
        match r {
            Ok(false) => {}
            Ok(true) => bad("bytes the specification rejects (closed-set mutation / absurd length prefix) were accepted".into(), row, &mut mismatches),
            Err(_) => bad("the real decoder panicked on bytes the specification rejects with an error".into(), row, &mut mismatches),
        }
    }
    // the handshake preamble
    {
        let mut v = Vec::new();
        block(anemo::verif::direct::write_version_frame(&mut v)).unwrap();
        if v != [97, 110, 101, 109, 111, 0, 1, 0] {
            mismatches.push(json!({"what": format!("handshake preamble is {v:?}")}));
        }
        for n in 0..8 {
            if block(anemo::verif::direct::read_version_frame(&mut &v[..n])).is_ok() {
                mismatches.push(json!({"what": format!("preamble prefix {n} accepted")}));
            }
        }
    }
    // impl -> spec: random messages encoded by the real code, logged as bytes
    let mut rng = StdRng::seed_from_u64(a.u64("seed", 1));
    let n = a.u64("random", 200);
    let mut lines: Vec<Value> = Vec::new();
    let rand_str = |rng: &mut StdRng, max: usize| -> String {
        let len = rng.gen_range(0..=max);
        (0..len).map(|_| match rng.gen_range(0..10) {
            0 => 'é', 1 => '\u{20ac}', 2 => '\u{1F600}', 3 => '/', 4 => '\0',
            _ => (b'a' + rng.gen_range(0..26)) as char,
        }).collect()
    };
    for i in 0..n {
        let mut headers = HashMap::new();
        for _ in 0..rng.gen_range(0..4) {
            let (kl, vl) = if i % 7 == 0 { (80, 150) } else { (6, 10) };
            headers.insert(rand_str(&mut rng, kl), rand_str(&mut rng, vl));
        }
        let body: Vec<u8> = (0..rng.gen_range(0..40)).map(|_| rng.gen()).collect();
        let mut ents: Vec<(Vec<u8>, Vec<u8>)> = headers.iter().map(|(k, v)| (k.as_bytes().to_vec(), v.as_bytes().to_vec())).collect();
        ents.sort();
        let ents_json: Vec<Value> = ents.iter().map(|(k, v)| json!([k, v])).collect();
        if i % 2 == 0 {
            // mostly short routes; some long ones, so that every byte offset up to a few hundred
            // falls inside a multi-byte character in some message
            let route = if i % 10 == 0 { rand_str(&mut rng, 200) } else { rand_str(&mut rng, 12) };
            let b = enc_req(&cfg, &route, &headers, &body, true).unwrap();
            match std::panic::catch_unwind(std::panic::AssertUnwindSafe(|| block(anemo::verif::direct::read_request(&cfg, &b[..])))) {
                Ok(Ok(r)) if r.route() == route && r.headers() == &headers && r.body()[..] == body[..] => {}
                Ok(Ok(_)) => mismatches.push(json!({"what": "random request did not round trip through the real decoder", "route": route})),
                Ok(Err(e)) => mismatches.push(json!({"what": format!("random request encoded by the real code was rejected by the real decoder: {e}"), "route": route})),
                Err(_) => mismatches.push(json!({"what": "the real request decoder panicked on a valid message", "route": route, "route_bytes": route.len()})),
            }
            lines.push(json!({"ev": "wire", "kind": "req", "bytes": b, "route": route.as_bytes(), "entries": ents_json, "body": body}));
        } else {
            let status = [200u16, 400, 404, 408, 429, 500, 505, 520][rng.gen_range(0..8)];
            let b = enc_resp(&cfg, status, &headers, &body, true).unwrap();
            match std::panic::catch_unwind(std::panic::AssertUnwindSafe(|| block(anemo::verif::direct::read_response(&cfg, &b[..])))) {
                Ok(Ok(r)) if r.status().to_u16() == status && r.headers() == &headers && r.body()[..] == body[..] => {}
                Ok(Ok(_)) => mismatches.push(json!({"what": "random response did not round trip through the real decoder"})),
                Ok(Err(e)) => mismatches.push(json!({"what": format!("random response encoded by the real code was rejected by the real decoder: {e}")})),
                Err(_) => mismatches.push(json!({"what": "the real response decoder panicked on a valid message"})),
            }
            lines.push(json!({"ev": "wire", "kind": "resp", "bytes": b, "status": status, "entries": ents_json, "body": body}));
        }
        evaluations += 1;
    }
    // large messages: too big to log byte by byte; the real encoder and decoder must still round
    // trip them, and the encoded length must be what the specification's layout arithmetic gives
    for k in 0..40u64 {
        evaluations += 1;
        let mut headers = HashMap::new();
        let nh = [0usize, 1, 3, 600][(k % 4) as usize];
        for i in 0..nh {
            let vlen = [0usize, 10, 5_000, 20_000, 70_000][((k + i as u64) % 5) as usize];
            headers.insert(format!("Key-{i}-{}", rand_str(&mut rng, 4)), "v".repeat(if nh == 600 { 40 } else { vlen }));
        }
        let body: Vec<u8> = (0..[0usize, 1000, 300_000, 2_000_000][(k % 4) as usize]).map(|i| (i * 7 + k as usize) as u8).collect();
        let hmap: usize = 8 + headers.iter().map(|(k, v)| 16 + k.len() + v.len()).sum::<usize>();
        if k % 2 == 0 {
            let route = format!("/big/{}", rand_str(&mut rng, 30));
            let b = enc_req(&cfg, &route, &headers, &body, true).unwrap();
            let want = 8 + 4 + (8 + route.len() + hmap) + 4 + body.len();
            match block(anemo::verif::direct::read_request(&cfg, &b[..])) {
                Ok(r) if r.route() == route && r.headers() == &headers && r.body()[..] == body[..] && b.len() == want => {}
                Ok(_) => mismatches.push(json!({"what": format!("large request ({} header bytes, {} body bytes) did not round trip exactly; encoded {} bytes, layout says {want}", hmap, body.len(), b.len())})),
                Err(e) => mismatches.push(json!({"what": format!("large request ({} header bytes, {} body bytes) encoded by the real code was rejected by the real decoder: {e}", hmap, body.len())})),
            }
        } else {
            let b = enc_resp(&cfg, 200, &headers, &body, true).unwrap();
            let want = 8 + 4 + (2 + hmap) + 4 + body.len();
            match block(anemo::verif::direct::read_response(&cfg, &b[..])) {
                Ok(r) if r.headers() == &headers && r.body()[..] == body[..] && b.len() == want => {}
                Ok(_) => mismatches.push(json!({"what": format!("large response did not round trip exactly; encoded {} bytes, layout says {want}", b.len())})),
                Err(e) => mismatches.push(json!({"what": format!("large response ({} header bytes) encoded by the real code was rejected by the real decoder: {e}", hmap)})),
            }
        }
    }
    let path = a.str("out", "/verif/work/wire.ndjson");
    crate::trace::write_ndjson(std::path::Path::new(&path), &lines).unwrap();
    let rows = tables["wire_req"].as_array().unwrap().len() + tables["wire_resp"].as_array().unwrap().len() + tables["wire_bad"].as_array().unwrap().len();
    print_summary(&json!({"evaluations": evaluations, "rows": rows, "mismatches": mismatches, "trace": path, "random": n}));
    0
}
