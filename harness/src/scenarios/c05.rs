//! C05: two networks dial each other at about the same time. Schedule gates hold the four
//! finished connecting tasks (each side's outbound dial and inbound handshake) and release them
//! to the two managers in every one of the 4! orders; random latency/loss variants run ungated.
//! Afterwards: quiescence, listing, one RPC each way, and a second look one idle period later
//! (no further events for the pair).

use super::{run_many, Args};
use crate::fabric::Policy;
use crate::gate;
use crate::scenarios::conn::{node_cfg, settle, shutdown, Opts};
use crate::sim::{self, Sim};
use anemo::Request;
use bytes::Bytes;
use rand::Rng;
use serde_json::{json, Value};

fn permutation(mut k: usize, n: usize) -> Vec<usize> {
    let mut items: Vec<usize> = (0..n).collect();
    let mut out = Vec::new();
    let mut f: usize = (1..n).product();
    for i in (1..=n).rev() {
        let idx = k / f;
        k %= f;
        out.push(items.remove(idx));
        if i > 1 {
            f /= i - 1;
        }
    }
    out
}

async fn mutual(mut sim: Sim, seed: u64, gated: bool) -> Result<Value, String> {
    // a connection limit of 1 must not get in the way: the pair never has more than one peer
    let limit = [None, None, Some(1)][sim.rng.gen_range(0..3)];
    let o = Opts {
        nodes: 2,
        ops: 0,
        faults: false,
        restarts: false,
        known: false,
        limit,
        idle_ms: 10_000,
        keepalive_ms: Some(3_000),
        hetero: false,
    };
    let keys = sim::sorted_keys(2, &mut sim.rng);
    // keep-alive is each side's own business: on both, or on one side only (either one must be
    // enough to keep the surviving connection up); the cap on connections being established
    // concerns background dials only
    let ka_on = sim.rng.gen_range(0..3); // 0: both, 1: the smaller identity only, 2: the greater only
    let cap = [None, Some(1usize)][sim.rng.gen_range(0..2)];
    for (i, k) in keys.into_iter().enumerate() {
        let mut cfg = node_cfg(k, &o);
        if (ka_on == 1 && i == 1) || (ka_on == 2 && i == 0) {
            crate::sim::quic(&mut cfg.config).keep_alive_interval_ms = None;
        }
        cfg.config.max_concurrent_outstanding_connecting_connections = cap;
        // (round trips of more than a second must fit into a handshake)
        cfg.config.connect_timeout_ms = Some(20_000);
        sim.add_node(cfg).map_err(|e| e.to_string())?;
    }
    let mut lossy = false;
    sim.subscribe(0).unwrap();
    sim.subscribe(1).unwrap();
    let perm = permutation((seed % 24) as usize, 4);
    let first = ((seed / 24) % 2) as usize; // who issues its dial first
    let rule_d = gate::hold("dial.done", |_| true);
    let rule_i = gate::hold("in.done", |_| true);
    if !gated {
        gate::release(rule_d);
        gate::release(rule_i);
        let mut p = Policy::default();
        p.latency_ms = (1, [1, 3, 10, 40][sim.rng.gen_range(0..4)]);
        if sim.rng.gen_range(0..6) == 0 {
            // a long way apart: every datagram takes 0.6 - 0.7 s, a handshake several seconds
            p.latency_ms = (600, 700);
        }
        p.loss = [0.0, 0.0, 0.05, 0.15][sim.rng.gen_range(0..4)];
        if p.latency_ms.0 >= 600 {
            p.loss = 0.0;
        }
        lossy = p.loss > 0.0;
        p.dup = [0.0, 0.1][sim.rng.gen_range(0..2)];
        p.reorder = [0.0, 0.2][sim.rng.gen_range(0..2)];
        sim.run.fabric.set_policy(p);
        sim.run.obs(-1, "obs.fault", json!({"what": "policy"}));
    }
    sim.run.obs(-1, "obs.note", json!({"what": "c05", "perm": perm, "first": first, "gated": gated}));
    let mut tasks = Vec::new();
    for k in 0..2 {
        let a = if k == 0 { first } else { 1 - first };
        let b = 1 - a;
        let net = sim.net(a).clone();
        let run = sim.run.clone();
        let addr = sim.addr(b);
        let expect = sim.peer_id(b);
        if !gated && k == 1 {
            // (the second dial may also come seconds after the first connection is up)
            let d = [0u64, 0, 1, 2, 3, 2_600, 7_000][sim.rng.gen_range(0..7)];
            sim.sleep_ms(d).await;
        }
        tasks.push(tokio::spawn(async move {
            let r = tokio::time::timeout(
                std::time::Duration::from_secs(120),
                net.connect_with_peer_id(addr, expect),
            )
            .await;
            let (ok, peer, err) = match r {
                Ok(Ok(p)) => (true, Some(run.node_of(&p)), None),
                Ok(Err(e)) => (false, None, Some(format!("{e}"))),
                Err(_) => (false, None, Some("HANG".to_string())),
            };
            run.obs(
                a as i64,
                sim::connect_event(err.as_deref()),
                json!({"ok": ok, "peer": peer, "err": err, "expected": run.node_of(&expect)}),
            );
            ok
        }));
    }
    // the application may lose interest in a connect() call while the dial is under way (the
    // future is dropped): the dial itself is the network's business and goes on regardless
    let abandon: Option<usize> = if sim.rng.gen_range(0..3) == 0 { Some(sim.rng.gen_range(0..2)) } else { None };
    if let Some(k) = abandon {
        let d = [1u64, 1, 2, 3][sim.rng.gen_range(0..4)];
        sim.sleep_ms(d).await;
        tasks[k].abort();
        sim.run.obs(-1, "obs.note", json!({"what": "connect() call abandoned", "k": k, "after_ms": d}));
    }
    if gated {
        // all four connecting tasks finish and are parked before their manager sees them
        let got_d = gate::wait_held(rule_d, 2, 5_000).await;
        let got_i = gate::wait_held(rule_i, 2, 5_000).await;
        if !(got_d && got_i) {
            gate::release_all();
            // no loss, nobody in the way: all four connecting tasks of a mutual dial must finish
            return Err(format!("VIOLATION: the connecting tasks of a loss-free mutual dial did not all finish within 5 s (both dialing tasks finished: {got_d}, both accepting tasks finished: {got_i})"));
        }
        // item k: 0 = node0 out, 1 = node0 in, 2 = node1 out, 3 = node1 in
        for item in perm {
            let node = (item / 2) as i64;
            let rule = if item % 2 == 0 { rule_d } else { rule_i };
            let released = gate::release_matching(rule, |f| f["node"] == node);
            if !released {
                gate::release_all();
                return Err(format!("nothing held for item {item}"));
            }
            // let the manager consume it and any close notification travel
            let gap = [0u64, 1, 5][sim.rng.gen_range(0..3)];
            settle(&mut sim, gap).await;
        }
        gate::release(rule_d);
        gate::release(rule_i);
    }
    let mut oks = 0;
    for (k, t) in tasks.into_iter().enumerate() {
        match tokio::time::timeout(std::time::Duration::from_secs(300), t).await {
            Ok(Ok(true)) => oks += 1,
            // nobody was left to hear the result; without loss the dial finished all the same
            Ok(Err(e)) if e.is_cancelled() && abandon == Some(k) && !lossy => oks += 1,
            _ => {}
        }
    }
    // without loss both handshakes finish (with a connection limit the admission rule may refuse
    // the later arrival, which fails that dial)
    if !lossy && (oks < 1 || (limit.is_none() && oks < 2)) {
        return Err(format!("VIOLATION: {} of the 2 dials of a loss-free mutual dial failed", 2 - oks));
    }
    // quiet network: fault-free from here on
    sim.run.fabric.set_policy(Policy::default());
    settle(&mut sim, 13_000).await;
    sim.obs_all_peers();
    sim.run.obs(-1, "obs.quiesce", json!({}));
    if oks == 2 {
        // the property's premise: both handshakes finished
        sim.run.obs(-1, "obs.converged", json!({"a": 0, "b": 1}));
        // from here on each also keeps the other as a known peer it wants to stay connected to: the
        // connectivity checks of the next half minute find the pair connected and leave it alone
        if sim.rng.gen_bool(0.5) {
            use anemo::types::{PeerAffinity, PeerInfo};
            for (a, b) in [(0usize, 1usize), (1, 0)] {
                let info = PeerInfo { peer_id: sim.peer_id(b), affinity: PeerAffinity::High, address: vec![sim.addr(b).into()] };
                sim.known_insert(a, info);
            }
        }
    }
    // (when loss made both dials time out nothing was established: outside the property's premise)
    for (a, b) in [(0usize, 1usize), (1, 0)] {
        if oks == 0 {
            break;
        }
        let nonce = sim.nonce();
        let net = sim.net(a).clone();
        let r = sim::rpc(
            &sim.run,
            &net,
            a as i64,
            sim.peer_id(b),
            Request::new(Bytes::from_static(b"after")).with_route("/c05"),
            nonce,
        )
        .await;
        if r.is_err() {
            return Err(format!("VIOLATION: RPC {a}->{b} failed after convergence: {r:?}"));
        }
    }
    settle(&mut sim, 25_000).await;
    sim.obs_all_peers();
    sim.run.obs(-1, "obs.settled", json!({}));
    for i in 0..2 {
        shutdown(&mut sim, i).await;
    }
    sim.drain_events();
    Ok(json!({"dial_oks": oks}))
}

pub fn main(a: &Args) -> i32 {
    let gated = a.u64("gated", 1) == 1;
    run_many(a, "c05", move |seed, sim| mutual(sim, seed, gated))
}
