//! Random connection histories among several real networks on the fabric (C04, C09, and the
//! common substrate for C03/C10): dials, disconnects, subscriptions, listings, partitions, loss,
//! shutdown/restart; ends with a fault-free period longer than the idle timeout, a quiescence
//! observation and a clean shutdown. Every run's trace is validated by AnemoConnTrace.

use super::{run_many, Args};
use crate::fabric::Policy;
use crate::sim::{self, base_config, quic, NodeCfg, Sim};
use anemo::types::{PeerAffinity, PeerInfo};
use anemo::Request;
use bytes::Bytes;
use rand::Rng;
use serde_json::{json, Value};

pub struct Opts {
    pub nodes: usize,
    pub ops: usize,
    pub faults: bool,
    pub restarts: bool,
    pub known: bool,
    pub limit: Option<usize>,
    pub idle_ms: u64,
    pub keepalive_ms: Option<u64>,
    /// every node draws its own idle timeout and keep-alive (QUIC's effective timeout is the
    /// minimum of the two ends'; each node's own configured value is the bound it is held to)
    pub hetero: bool,
}

pub async fn settle(sim: &mut Sim, ms: u64) {
    sim.sleep_ms(ms).await;
    sim.drain_events();
}

/// Everything a run ends with: heal, wait longer than the idle timeout, observe, shut down.
pub async fn finish(sim: &mut Sim, idle_ms: u64) {
    sim.run.fabric.heal_all();
    sim.run.fabric.set_policy(Policy::default());
    sim.run.obs(-1, "obs.fault", json!({"what": "healed"}));
    // Background dials may still be in flight; let connect timeouts and one more idle period pass.
    settle(sim, idle_ms + 3_000).await;
    settle(sim, idle_ms + 3_000).await;
    // (not on a connectivity-check boundary: a background dial that a check has just started registers on
    // the dialer a few milliseconds before it does on the listener)
    settle(sim, 1_237).await;
    sim.obs_all_peers();
    sim.run.obs(-1, "obs.quiesce", json!({}));
    // every listed peer is reachable
    for i in 0..sim.nodes.len() {
        if sim.nodes[i].net.is_none() {
            continue;
        }
        let peers = sim.net(i).peers();
        for p in peers {
            let nonce = sim.nonce();
            let net = sim.net(i).clone();
            // ListedReachable: at quiescence every listed peer can be reached
            let _ = sim::rpc_must(
                &sim.run,
                &net,
                i as i64,
                p,
                Request::new(Bytes::from_static(b"ping")).with_route("/q"),
                nonce,
            )
            .await;
        }
    }
    sim.drain_events();
    for i in 0..sim.nodes.len() {
        shutdown(sim, i).await;
    }
    sim.drain_events();
    sim.obs_all_peers();
}

/// A connection that is lost without a word: a connected pair is cut off completely for longer
/// than anybody's idle timeout; each side must have reported the other lost by the end.
pub async fn silent_loss_probe(sim: &mut Sim, max_idle: u64) {
    sim.run.fabric.heal_all();
    sim.run.fabric.set_policy(Policy::default());
    sim.run.obs(-1, "obs.fault", json!({"what": "healed"}));
    settle(sim, 300).await;
    let n = sim.nodes.len();
    let mut pair = None;
    for a in 0..n {
        for b in 0..n {
            if a != b && sim.nodes[a].net.is_some() && sim.nodes[b].net.is_some()
                && sim.net(a).peers().contains(&sim.peer_id(b)) && sim.net(b).peers().contains(&sim.peer_id(a)) {
                pair = Some((a, b));
            }
        }
    }
    let Some((a, b)) = pair else { return };
    sim.run.fabric.partition(sim.addr(a), sim.addr(b));
    sim.run.obs(-1, "obs.fault", json!({"a": a, "b": b, "what": "silent"}));
    let since = sim.run.now_ms();
    settle(sim, max_idle + 1_500 + 2_500).await;
    sim.drain_events();
    let a_lists_b = sim.net(a).peers().contains(&sim.peer_id(b));
    let b_lists_a = sim.net(b).peers().contains(&sim.peer_id(a));
    sim.run.obs(a as i64, "obs.silent_end", json!({"other": b, "since": since, "listed": a_lists_b}));
    sim.run.obs(b as i64, "obs.silent_end", json!({"other": a, "since": since, "listed": b_lists_a}));
    sim.run.fabric.heal_all();
}

/// A node whose service is saturated for longer than the idle timeout (one request at a time, a
/// third peer's request holds the slot): a peer whose request waits for capacity hangs up; the
/// node must report it lost like any other connection that ended.
pub async fn saturation_probe(sim: &mut Sim, max_idle: u64) {
    sim.run.fabric.heal_all();
    sim.run.fabric.set_policy(Policy::default());
    sim.run.obs(-1, "obs.fault", json!({"what": "healed"}));
    settle(sim, 300).await;
    let (a, x, b) = (0usize, 1usize, 2usize);
    if (0..3).any(|i| sim.nodes[i].net.is_none()) {
        return;
    }
    let _ = sim.connect(x, sim.addr(a), Some(sim.peer_id(a))).await;
    let _ = sim.connect(b, sim.addr(a), Some(sim.peer_id(a))).await;
    settle(sim, 50).await;
    let mut calls = Vec::new();
    for (from, delay) in [(x, 2 * max_idle + 20_000), (b, 10)] {
        let nonce = sim.nonce();
        let net = sim.net(from).clone();
        let run = sim.run.clone();
        let to = sim.peer_id(a);
        calls.push(tokio::spawn(async move {
            let _ = sim::rpc(&run, &net, from as i64, to,
                Request::new(Bytes::from_static(b"slow")).with_route("/slow").with_header("delay-ms", delay.to_string()), nonce).await;
        }));
        settle(sim, 30).await;
    }
    sim.run.obs(-1, "obs.note", json!({"what": "saturation probe: the waiting peer hangs up", "server": a, "peer": b}));
    sim.disconnect(b, sim.peer_id(a));
    settle(sim, max_idle + 5_000).await;
    sim.obs_all_peers();
    for c in calls {
        let _ = tokio::time::timeout(std::time::Duration::from_secs(300), c).await;
    }
    settle(sim, 100).await;
}

pub async fn shutdown(sim: &mut Sim, i: usize) {
    if let Some(net) = sim.nodes[i].net.clone() {
        let r = tokio::time::timeout(std::time::Duration::from_secs(120), net.shutdown()).await;
        let ok = matches!(r, Ok(Ok(())));
        sim.run.obs(
            i as i64,
            "obs.note",
            json!({"what": "shutdown", "ok": ok, "hang": r.is_err(),
                   "closed": net.is_closed(), "live_services": sim.nodes[i].live_services.load(std::sync::atomic::Ordering::SeqCst)}),
        );
        sim.drain_events();
        sim.obs_peers(i);
        sim.nodes[i].net = None;
    }
}

pub fn node_cfg(key: [u8; 32], o: &Opts) -> NodeCfg {
    let mut config = base_config();
    config.max_concurrent_connections = o.limit;
    quic(&mut config).max_idle_timeout_ms = Some(o.idle_ms);
    quic(&mut config).keep_alive_interval_ms = o.keepalive_ms;
    NodeCfg {
        key,
        name: "net".into(),
        alt: None,
        config,
        bind: None,
    }
}

pub async fn history(mut sim: Sim, o: Opts) -> Result<Value, String> {
    let keys = sim::sorted_keys(o.nodes, &mut sim.rng);
    let mut max_idle = o.idle_ms;
    let all_unset = o.hetero && sim.rng.gen_bool(0.2);
    // one history in three serves through a service that is not always ready (one request at a time
    // for the whole node, the rest wait for capacity): a connection's end is noticed and reported
    // whatever its requests are waiting for
    let saturable = sim.rng.gen_range(0..3) == 0;
    sim::SERVER_LIMITS.with(|c| c.set(if saturable { Some((1, 4)) } else { None }));
    for k in keys {
        let mut cfg = node_cfg(k, &o);
        if o.hetero {
            // in one run out of five nobody configures an idle timeout (30 s applies)
            let idle = if all_unset { None } else { Some([4_000u64, 10_000, 25_000][sim.rng.gen_range(0..3)]) };
            // keep-alives, where used, are mostly shorter than every node's idle timeout; one configured
            // above it is a valid setting too (it never fires: quiet connections expire at the idle
            // timeout that was configured, not later)
            let ka = match sim.rng.gen_range(0..8) { 0..=3 => Some(1_500u64), 4 => Some(12_000), _ => None };
            quic(&mut cfg.config).max_idle_timeout_ms = idle;
            quic(&mut cfg.config).keep_alive_interval_ms = ka;
            // some nodes also accept an alternate network name (a different server configuration)
            if sim.rng.gen_bool(0.4) {
                cfg.alt = Some("net-alt".into());
            }
            max_idle = max_idle.max(idle.unwrap_or(30_000));
        }
        let i = sim.add_node(cfg).map_err(|e| e.to_string())?;
        sim.run.obs(i as i64, "obs.note", json!({"idle_ms": o.idle_ms}));
    }
    let n = o.nodes;
    let mut connects = 0;
    let mut pending: Vec<tokio::task::JoinHandle<()>> = Vec::new();
    for _ in 0..o.ops {
        let a = sim.rng.gen_range(0..n);
        let b = (a + sim.rng.gen_range(1..n)) % n;
        let choice = sim.rng.gen_range(0..100);
        let alive = |sim: &Sim, i: usize| sim.nodes[i].net.is_some();
        match choice {
            0..=34 if alive(&sim, a) => {
                // dial, sometimes concurrently with others (spawned), sometimes awaited
                let expect = if sim.rng.gen_bool(0.5) {
                    Some(sim.peer_id(b))
                } else {
                    None
                };
                connects += 1;
                if sim.rng.gen_bool(0.5) {
                    let _ = sim.connect(a, sim.addr(b), expect).await;
                } else {
                    // concurrent dial: the result is logged by the task
                    let net = sim.net(a).clone();
                    let run = sim.run.clone();
                    let addr = sim.addr(b);
                    pending.push(tokio::spawn(async move {
                        let fut = async {
                            match expect {
                                Some(p) => net.connect_with_peer_id(addr, p).await,
                                None => net.connect(addr).await,
                            }
                        };
                        let r = tokio::time::timeout(std::time::Duration::from_secs(120), fut).await;
                        let (ok, peer, err) = match r {
                            Ok(Ok(p)) => (true, Some(run.node_of(&p)), None),
                            Ok(Err(e)) => (false, None, Some(format!("{e}"))),
                            Err(_) => (false, None, Some("HANG".to_string())),
                        };
                        let ev = sim::connect_event(err.as_deref());
                        run.obs(
                            a as i64,
                            ev,
                            json!({"ok": ok, "peer": peer, "err": err,
                                   "expected": expect.as_ref().map(|p| run.node_of(p))}),
                        );
                    }));
                    // now and then the application loses interest while the dial is under way
                    // (the connect() future is dropped); the dial is the network's business
                    if sim.rng.gen_bool(0.25) {
                        let d = [1u64, 1, 2, 3, 5][sim.rng.gen_range(0..5)];
                        sim.sleep_ms(d).await;
                        if let Some(h) = pending.last() {
                            h.abort();
                        }
                        sim.run.obs(a as i64, "obs.note", json!({"what": "connect() call abandoned", "after_ms": d}));
                    }
                }
            }
            35..=44 if alive(&sim, a) => {
                // (a handle the application got while the peer was connected)
                let mut handle = sim.net(a).peer(sim.peer_id(b));
                sim.disconnect(a, sim.peer_id(b));
                if sim.rng.gen_bool(0.5) {
                    // DisconnectNow: an RPC right after the disconnect must be refused
                    let nonce = sim.nonce();
                    let net = sim.net(a).clone();
                    let _ = sim::rpc(&sim.run, &net, a as i64, sim.peer_id(b),
                        Request::new(Bytes::from_static(b"x")).with_route("/after-disconnect"), nonce).await;
                } else if let Some(h) = &mut handle {
                    // ... and so must one through the old handle: the connection it pins is closed
                    let nonce = sim.nonce();
                    let _ = sim::rpc_via_handle(&sim.run, h, a as i64,
                        Request::new(Bytes::from_static(b"x")).with_route("/after-disconnect-handle"), nonce).await;
                }
                drop(handle);
            }
            45..=47 if alive(&sim, a) => {
                let nonce = sim.nonce();
                let net = sim.net(a).clone();
                let _ = sim::rpc(&sim.run, &net, a as i64, sim.peer_id(b),
                    Request::new(Bytes::from_static(b"y")).with_route("/any"), nonce).await;
            }
            48..=53 if alive(&sim, a) && (choice <= 49 || saturable) => {
                // a slow request stays in flight while the history goes on: connections end
                // (disconnect, replacement, partition, shutdown) under running handlers
                let nonce = sim.nonce();
                let net = sim.net(a).clone();
                let run = sim.run.clone();
                let to = sim.peer_id(b);
                // (a saturable service may stay saturated for longer than anybody's idle timeout)
                let delay = [50u64, 1_500, 6_000, 25_000, 40_000][sim.rng.gen_range(0..if saturable { 5 } else { 3 })];
                pending.push(tokio::spawn(async move {
                    let _ = sim::rpc(&run, &net, a as i64, to,
                        Request::new(Bytes::from_static(b"slow")).with_route("/slow")
                            .with_header("delay-ms", delay.to_string()), nonce).await;
                }));
            }
            50..=57 if alive(&sim, a) => {
                let _ = sim.subscribe(a);
            }
            58..=67 => {
                sim.drain_events();
                sim.obs_all_peers();
            }
            68..=79 => {
                let ms = [0u64, 1, 2, 3, 5, 20, 200, 3_000, 12_000][sim.rng.gen_range(0..if o.faults { 9 } else { 8 })];
                settle(&mut sim, ms).await;
            }
            80..=87 if o.faults => {
                let (x, y) = (sim.addr(a), sim.addr(b));
                match sim.rng.gen_range(0..4) {
                    0 => sim.run.fabric.partition(x, y),
                    1 => sim.run.fabric.block(x, y),
                    2 => sim.run.fabric.heal(x, y),
                    _ => {
                        let mut p = Policy::default();
                        p.loss = [0.0, 0.05, 0.3][sim.rng.gen_range(0..3)];
                        p.dup = [0.0, 0.1][sim.rng.gen_range(0..2)];
                        p.latency_ms = (1, [1, 5, 40][sim.rng.gen_range(0..3)]);
                        sim.run.fabric.set_policy(p);
                    }
                }
                sim.run.obs(-1, "obs.fault", json!({"a": a, "b": b}));
            }
            88..=91 if o.known && alive(&sim, a) => {
                let aff = [PeerAffinity::High, PeerAffinity::Allowed, PeerAffinity::Never]
                    [sim.rng.gen_range(0..3)];
                let info = PeerInfo {
                    peer_id: sim.peer_id(b),
                    affinity: aff,
                    address: vec![sim.addr(b).into()],
                };
                sim.known_insert(a, info);
            }
            92..=93 if o.known && alive(&sim, a) => {
                sim.known_remove(a, sim.peer_id(b));
            }
            94..=96 if o.restarts => {
                if alive(&sim, a) {
                    shutdown(&mut sim, a).await;
                } else {
                    sim.restart_node(a).map_err(|e| e.to_string())?;
                }
            }
            _ => {
                settle(&mut sim, 1).await;
            }
        }
        if sim.rng.gen_bool(0.3) {
            sim.drain_events();
        }
    }
    // restart whoever is down so that the end state is meaningful
    for i in 0..n {
        if sim.nodes[i].net.is_none() {
            sim.restart_node(i).map_err(|e| e.to_string())?;
        }
    }
    for h in pending {
        let _ = tokio::time::timeout(std::time::Duration::from_secs(300), h).await;
    }
    if o.faults {
        silent_loss_probe(&mut sim, max_idle).await;
    }
    if saturable && n >= 3 {
        saturation_probe(&mut sim, max_idle).await;
    }
    sim::SERVER_LIMITS.with(|c| c.set(None));
    finish(&mut sim, max_idle).await;
    Ok(json!({"connects": connects}))
}

pub fn main(a: &Args) -> i32 {
    let nodes = a.u64("nodes", 3) as usize;
    let ops = a.u64("ops", 40) as usize;
    let faults = a.u64("faults", 1) == 1;
    let restarts = a.u64("restarts", 0) == 1;
    let known = a.u64("known", 0) == 1;
    let keepalive = a.u64("keepalive", 3_000);
    let limit = a.0.get("limit").and_then(|v| v.parse().ok());
    let hetero = a.u64("hetero", 0) == 1;
    run_many(a, "conn", move |seed, sim| {
        let _ = seed;
        history(
            sim,
            Opts {
                nodes,
                ops,
                faults,
                restarts,
                known,
                limit,
                idle_ms: 10_000,
                keepalive_ms: if keepalive > 0 { Some(keepalive) } else { None },
                hetero,
            },
        )
    })
}


/// An application handler panics while serving one request of peer B (an application bug, not an
/// attack). What the network does about it is its own business - the pinned tree lets the whole
/// node go down with it - but it never ends up listing a peer whose connection is gone: once B has
/// left, A (if it is still running) reports B lost within the idle timeout, and if A went down
/// with the panic it lists nobody and its subscribers see the end of the stream.
pub fn handler_panic(_a: &Args) -> i32 {
    let mut mismatches: Vec<Value> = Vec::new();
    let mut evaluations = 0u64;
    for variant in 0..4u64 {
        evaluations += 1;
        let out = crate::sim::run_sim(900 + variant, move |mut sim| async move {
            let o = Opts { nodes: 3, ops: 0, faults: false, restarts: false, known: false, limit: None, idle_ms: 4_000, keepalive_ms: Some(1_000), hetero: false };
            let keys = sim::sorted_keys(3, &mut sim.rng);
            for k in keys {
                sim.add_node(node_cfg(k, &o)).map_err(|e| e.to_string())?;
            }
            let (a, b, c) = (0usize, 1usize, 2usize);
            // who dialed whom does not matter
            if variant % 2 == 0 {
                sim.connect(b, sim.addr(a), Some(sim.peer_id(a))).await.map_err(|e| format!("setup: {e}"))?;
            } else {
                sim.connect(a, sim.addr(b), Some(sim.peer_id(b))).await.map_err(|e| format!("setup: {e}"))?;
            }
            sim.connect(c, sim.addr(a), Some(sim.peer_id(a))).await.map_err(|e| format!("setup: {e}"))?;
            let (mut events, _) = sim.net(a).subscribe().map_err(|e| e.to_string())?;
            settle(&mut sim, 50).await;
            // B's request makes A's handler panic
            let net_b = sim.net(b).clone();
            let pa = sim.peer_id(a);
            let _ = tokio::time::timeout(std::time::Duration::from_secs(5),
                net_b.rpc(pa, Request::new(Bytes::from_static(b"boom")).with_route("/panic").with_header("panic", "1"))).await;
            settle(&mut sim, 100).await;
            // then B leaves: by hanging up (variants 0, 1) or by shutting down (2, 3)
            if variant < 2 {
                sim.disconnect(b, pa);
            } else {
                shutdown(&mut sim, b).await;
            }
            settle(&mut sim, 4_000 + 1_000 + 2_000).await;
            let a_closed = sim.net(a).is_closed();
            let pb = sim.peer_id(b);
            let lists_b = sim.net(a).peers().contains(&pb);
            let mut saw_lost = false;
            let mut stream_ended = false;
            loop {
                match events.try_recv() {
                    Ok(anemo::types::PeerEvent::LostPeer(p, _)) if p == pb => saw_lost = true,
                    Ok(_) => {}
                    Err(tokio::sync::broadcast::error::TryRecvError::Closed) => { stream_ended = true; break; }
                    Err(_) => break,
                }
            }
            let mut bad = Vec::new();
            if lists_b {
                bad.push(format!("A still lists B {} s after B left (A closed: {a_closed})", 7));
            }
            if !a_closed && !saw_lost {
                bad.push("A is still running but never reported B lost".to_string());
            }
            if a_closed && !sim.net(a).peers().is_empty() {
                bad.push("A went down with the panic but still lists peers".to_string());
            }
            if a_closed && !stream_ended {
                // (the event stream of a network that is gone ends)
                bad.push("A went down with the panic but its event stream is still open".to_string());
            }
            // what is left is shut down quietly
            for i in [a, c] {
                if let Some(net) = sim.nodes[i].net.clone() {
                    let _ = tokio::time::timeout(std::time::Duration::from_secs(30), net.shutdown()).await;
                    sim.nodes[i].net = None;
                }
            }
            sim.nodes[b].net = None;
            Ok(json!({"bad": bad, "a_closed": a_closed}))
        });
        match out.result {
            Ok(v) => {
                for b in v["bad"].as_array().cloned().unwrap_or_default() {
                    mismatches.push(json!({"what": format!("handler panic, variant {variant}: {}", b.as_str().unwrap_or(""))}));
                }
            }
            Err(e) => mismatches.push(json!({"what": format!("handler-panic scenario failed (variant {variant}): {e}")})),
        }
        for p in out.panics {
            if !p.contains(sim::DELIBERATE_HANDLER_PANIC) && !p.contains("JoinError::Panic") {
                mismatches.push(json!({"what": format!("handler panic, variant {variant}: another panic followed: {}", &p[..p.len().min(200)])}));
            }
        }
    }
    mismatches.truncate(6);
    super::print_summary(&json!({"evaluations": evaluations, "rows": 4, "mismatches": mismatches}));
    0
}
