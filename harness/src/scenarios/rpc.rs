//! RPC workloads over real networks on the fabric (C02, C12, C15, C11 and the RPC part of C01):
//! many concurrent calls in both directions on one connection (plus a third node), bodies from
//! empty to megabytes, random routes and header maps, handler delays that permute completion
//! order, datagram loss / duplication / reordering, abandonment at every stage (dropping the call
//! at a schedule gate or after a delay), frame-size limits on either side, timeouts.
//! Every call carries a nonce; what the caller sent, what the handler saw, what it answered and
//! what the caller got are all logged and tied together by AnemoRpcTrace.

use super::{run_many, Args};
use crate::fabric::Policy;
use crate::gate;
use crate::scenarios::conn::{settle, shutdown};
use crate::sim::{self, base_config, quic, NodeCfg, Sim};
use anemo::{Network, PeerId, Request};
use bytes::Bytes;
use rand::{rngs::StdRng, Rng, SeedableRng};
use serde_json::{json, Value};
use std::sync::Arc;
use std::time::Duration;

#[derive(Clone)]
pub struct Opts {
    pub mode: String, // "mix" | "abandon" | "sizes" | "timeouts"
    pub calls: usize,
    pub faults: bool,
}

fn rand_string(rng: &mut StdRng, max: usize) -> String {
    let n = rng.gen_range(0..=max);
    (0..n)
        .map(|_| {
            let c = rng.gen_range(0..40);
            match c {
                0..=25 => (b'a' + c as u8) as char,
                26..=35 => (b'0' + (c - 26) as u8) as char,
                36 => '/',
                37 => '-',
                38 => 'é',
                _ => '_',
            }
        })
        .collect()
}

/// bincode size of the request header frame: route string + header map
pub fn req_header_size(route: &str, headers: &std::collections::HashMap<String, String>) -> usize {
    8 + route.len() + 8 + headers.iter().map(|(k, v)| 16 + k.len() + v.len()).sum::<usize>()
}

pub fn resp_header_size(headers: &std::collections::HashMap<String, String>) -> usize {
    2 + 8 + headers.iter().map(|(k, v)| 16 + k.len() + v.len()).sum::<usize>()
}

thread_local! {
    /// `Peer` handles the application keeps for the life of a connection (sizes mode): (from, to) -> handle
    pub static KEPT_PEERS: std::cell::RefCell<std::collections::HashMap<(i64, PeerId), anemo::Peer>> = Default::default();
}

pub struct Call {
    pub nonce: u64,
    pub from: usize,
    pub to: usize,
    pub request: Request<Bytes>,
    /// abandon after this many ms (None: wait for the result)
    pub abandon_after: Option<u64>,
    /// abandon at this hook point instead ("rpc.open" | "rpc.sent" | "rpc.finish")
    pub abandon_at: Option<&'static str>,
    pub must_succeed: bool,
}

/// Issue one call as its own task; logs call, result or abandonment.
pub fn spawn_call(sim: &Sim, c: Call) -> tokio::task::JoinHandle<()> {
    let run = sim.run.clone();
    let net: Network = sim.net(c.from).clone();
    let to: PeerId = sim.peer_id(c.to);
    let from = c.from as i64;
    tokio::spawn(async move {
        let mut request = c.request;
        request
            .headers_mut()
            .insert("nonce".into(), c.nonce.to_string());
        run.obs(
            from,
            "obs.rpc_call",
            json!({
                "nonce": c.nonce,
                "to": run.node_of(&to),
                "route": request.route(),
                "len": request.body().len(),
                "digest": sim::digest(request.body()),
                "hdigest": sim::headers_digest(request.headers()),
                "nheaders": request.headers().len(),
                "hsize": req_header_size(request.route(), request.headers()),
                "resp_len": sim::header_u64(&request, "resp-len"),
                "delay": sim::header_u64(&request, "delay-ms"),
                "timeout_hdr": request.headers().get("timeout"),
            }),
        );
        let rule = c.abandon_at.map(|point| {
            let nonce_route = request.route().to_owned();
            gate::hold_n(point, Some(1), move |f| f["route"] == nonce_route.as_str())
        });
        // half of the calls go through a `Peer` handle (what generated clients wrap) instead of
        // `Network::rpc`; one in four through a handle the application has kept since the connection
        // came up (a clone of it per call): what happened to earlier calls on it plays no part
        let via_peer = c.nonce % 2 == 0;
        let kept = if c.nonce % 4 == 0 { KEPT_PEERS.with(|k| k.borrow().get(&(from, to)).cloned()) } else { None };
        let fut: futures::future::BoxFuture<'static, anyhow::Result<anemo::Response<Bytes>>> = if let Some(mut p) = kept {
            Box::pin(async move { p.rpc(request).await })
        } else if via_peer {
            let net = net.clone();
            Box::pin(async move {
                match net.peer(to) {
                    Some(mut p) => p.rpc(request).await,
                    None => Err(anyhow::anyhow!("not connected to peer {to}")),
                }
            })
        } else {
            let net = net.clone();
            Box::pin(async move { net.rpc(to, request).await })
        };
        // some calls are polled once where they were created and then driven by another task (an
        // application that collects its calls in a set, or hands them to a worker): the deadline and
        // everything else about the call go with it
        let mut fut = fut;
        if c.nonce % 5 == 3 && rule.is_none() && c.abandon_after.is_none() {
            match futures::poll!(fut.as_mut()) {
                std::task::Poll::Ready(r) => {
                    fut = Box::pin(async move { r });
                }
                std::task::Poll::Pending => {
                    let moved = tokio::spawn(fut);
                    fut = Box::pin(async move { moved.await.unwrap_or_else(|e| Err(anyhow::anyhow!("call task failed: {e}"))) });
                }
            }
        }
        tokio::pin!(fut);
        let outcome = if let Some(rule) = rule {
            // poll the call until it parks at the gate, then drop it there
            let parked = async {
                while gate::held_count(rule) == 0 {
                    tokio::time::sleep(Duration::from_millis(1)).await;
                }
            };
            tokio::select! {
                r = &mut fut => Some(r),
                _ = parked => None,
                _ = tokio::time::sleep(Duration::from_secs(30)) => None,
            }
        } else if let Some(ms) = c.abandon_after {
            tokio::select! {
                r = &mut fut => Some(r),
                _ = tokio::time::sleep(Duration::from_millis(ms)) => None,
            }
        } else {
            match tokio::time::timeout(Duration::from_secs(900), &mut fut).await {
                Ok(r) => Some(r),
                Err(_) => {
                    run.obs(from, "obs.rpc_result", json!({"nonce": c.nonce, "ok": false, "err": "HANG"}));
                    return;
                }
            }
        };
        match outcome {
            Some(r) => {
                let r = r.map_err(|e| format!("{e}"));
                sim::log_rpc_result(&run, from, c.nonce, &r, c.must_succeed);
            }
            None => {
                // abandon: drop the future (the gate, if any, is released by dropping its task)
                run.obs(from, "obs.rpc_abandon", json!({"nonce": c.nonce}));
            }
        }
        if let Some(rule) = rule {
            gate::release(rule);
        }
    })
}

fn body_size(rng: &mut StdRng, big: bool) -> usize {
    match rng.gen_range(0..20) {
        0..=3 => 0,
        4..=9 => rng.gen_range(1..200),
        10..=14 => rng.gen_range(200..20_000),
        15..=17 => rng.gen_range(20_000..400_000),
        _ if big => rng.gen_range(400_000..4_000_000),
        _ => rng.gen_range(1..5_000),
    }
}

fn random_request(rng: &mut StdRng, nonce: u64, big: bool) -> Request<Bytes> {
    let route = format!("/r{nonce}/{}", rand_string(rng, 12));
    let mut req = Request::new(sim::body_for(nonce, body_size(rng, big), 1)).with_route(route);
    for _ in 0..rng.gen_range(0..4) {
        let k = format!("echo-{}", rand_string(rng, 6));
        req.headers_mut().insert(k, rand_string(rng, 30));
    }
    if rng.gen_bool(0.3) {
        // header names are arbitrary strings: mixed case, and names equal up to case
        req.headers_mut().insert("echo-Mixed-Case".into(), rand_string(rng, 8));
        if rng.gen_bool(0.5) {
            req.headers_mut().insert("echo-mixed-case".into(), rand_string(rng, 8));
            req.headers_mut().insert("X-Trace-ID".into(), rand_string(rng, 8));
        }
    }
    if rng.gen_bool(0.6) {
        req.headers_mut()
            .insert("resp-len".into(), body_size(rng, big).to_string());
    }
    if rng.gen_bool(0.08) {
        // a request may carry a lot of metadata: every header arrives, the ones with a meaning included
        for i in 0..rng.gen_range(70..400) {
            req.headers_mut().insert(format!("x-meta-{i}-{}", rand_string(rng, 4)), rand_string(rng, 6));
        }
    }
    if rng.gen_bool(0.12) {
        // header names and values are arbitrary strings too: empty, long, not ASCII
        let odd_v = match rng.gen_range(0..5) {
            0 => String::new(),
            1 => "v".repeat(rng.gen_range(1_000..70_000)),
            2 => "\u{e9}\u{20ac}\u{1d11e}".repeat(rng.gen_range(1..200)),
            3 => "\0\r\n\t\"\\".repeat(rng.gen_range(1..20)),
            _ => " leading and trailing ".to_owned(),
        };
        let odd_k = match rng.gen_range(0..4) {
            0 => "echo-".to_owned(),
            1 => format!("echo-{}", "\u{e9}".repeat(rng.gen_range(1..40))),
            2 => format!("echo-{}", "k".repeat(rng.gen_range(200..2_000))),
            _ => "echo-with space:colon".to_owned(),
        };
        req.headers_mut().insert(odd_k, odd_v);
    }
    req
}

async fn workload(mut sim: Sim, o: Opts) -> Result<Value, String> {
    let n = 3;
    let keys = sim::sorted_keys(n, &mut sim.rng);
    let limits: Vec<Option<usize>> = if o.mode == "sizes" {
        // 0 and 1 are limits too: nothing (or next to nothing) fits
        let l = [0usize, 1, 64, 4096, 1 << 20][sim.rng.gen_range(0..5)];
        match sim.rng.gen_range(0..4) {
            0 => vec![Some(l), None, None],
            1 => vec![None, Some(l), None],
            2 => vec![Some(l), Some(l), Some(l)],
            _ => vec![Some(l), Some(l * 2), None],
        }
    } else {
        vec![None, None, None]
    };
    let stream_limit = if o.mode == "abandon" || (o.mode == "storm" && sim.rng.gen_bool(0.5)) { Some(8u64) } else { None };
    let mut cfgs: Vec<anemo::Config> = Vec::new();
    // what each node's own outbound middleware adds to every call it makes
    let mut layer_delays: Vec<u64> = Vec::new();
    for (i, k) in keys.iter().enumerate() {
        // some networks are built with a user outbound layer: the defaults must still apply
        sim::USER_OUTBOUND_LAYER.with(|c| c.set(sim.rng.gen_bool(0.5)));
        let layer_delay = [0u64, 0, 150, 600][sim.rng.gen_range(0..4)];
        sim::USER_OUTBOUND_DELAY_MS.with(|c| c.set(layer_delay));
        layer_delays.push(if sim::USER_OUTBOUND_LAYER.with(|c| c.get()) { layer_delay } else { 0 });
        if o.mode == "abandon" && i < 2 {
            // back-pressure at the top of the serving stack and a per-peer limiter below it
            sim::SERVER_LIMITS.with(|c| c.set(Some((3, 2))));
        } else {
            sim::SERVER_LIMITS.with(|c| c.set(None));
        }
        let mut config = base_config();
        config.max_frame_size = limits[i];
        if let (Some(l), true) = (limits[i], i % 2 == 1) {
            // as operators set it: read from a document, under the key the documentation names
            let doc: anemo::Config = serde_json::from_value(json!({"max-frame-size": l}))
                .map_err(|e| format!("VIOLATION: a configuration document with max-frame-size does not parse: {e}"))?;
            config.max_frame_size = doc.max_frame_size;
            if doc.max_frame_size != Some(l) {
                return Err(format!("VIOLATION: max-frame-size = {l} read from a configuration document configures {:?}", doc.max_frame_size));
            }
        }
        if o.mode == "hugelimit" {
            // a maximum far beyond anything sent (and beyond what the 4-byte length prefix can say)
            config.max_frame_size = Some([usize::MAX, 1usize << 32, 1usize << 40][i % 3]);
        }
        quic(&mut config).max_idle_timeout_ms = Some(30_000);
        quic(&mut config).keep_alive_interval_ms = Some(5_000);
        quic(&mut config).max_concurrent_bidi_streams = stream_limit;
        if o.mode == "mix" || o.mode == "replace" {
            // flow control and stream credit at work: small windows and few streams slow calls
            // down, they never change what is delivered
            quic(&mut config).stream_receive_window = [None, Some(8_192u64), Some(65_536)][sim.rng.gen_range(0..3)];
            quic(&mut config).receive_window = [None, Some(65_536u64)][sim.rng.gen_range(0..2)];
            quic(&mut config).send_window = [None, Some(65_536u64)][sim.rng.gen_range(0..2)];
            quic(&mut config).max_concurrent_bidi_streams = [None, Some(3u64), Some(100)][sim.rng.gen_range(0..3)];
        }
        if (o.mode == "mix" || o.mode == "replace") && !o.faults {
            // generous defaults that never fire (fault-free runs; under heavy loss a 4 MB transfer can
            // take longer than any default): the layers that apply them must leave the request alone
            config.inbound_request_timeout_ms = [None, Some(90_000)][sim.rng.gen_range(0..2)];
            config.outbound_request_timeout_ms = [None, Some(60_000), Some(120_000)][sim.rng.gen_range(0..3)];
        }
        if o.mode == "timeouts" {
            // (a default of zero is a deadline that has already passed)
            config.inbound_request_timeout_ms = [None, Some(300), Some(800), Some(0)][sim.rng.gen_range(0..4)];
            config.outbound_request_timeout_ms = [None, Some(400), Some(900), Some(0)][sim.rng.gen_range(0..4)];
        }
        cfgs.push(config.clone());
        let idx = sim
            .add_node(NodeCfg {
                key: *k,
                name: "net".into(),
                alt: None,
                config: config.clone(),
                bind: None,
            })
            .map_err(|e| e.to_string())?;
        sim.run.obs(
            idx as i64,
            "obs.rpc_cfg",
            json!({
                "max_frame": config.max_frame_size,
                "in_default_ms": config.inbound_request_timeout_ms,
                "out_default_ms": config.outbound_request_timeout_ms,
                "stream_limit": stream_limit,
                // every pair is connected exactly once below, dialed by the smaller node index (the
                // replace workload re-dials in both directions later on)
                "mesh": o.mode != "replace",
            }),
        );
    }
    sim::USER_OUTBOUND_LAYER.with(|c| c.set(false));
    sim::SERVER_LIMITS.with(|c| c.set(None));
    // full mesh
    for a in 0..n {
        for b in (a + 1)..n {
            sim.connect(a, sim.addr(b), Some(sim.peer_id(b)))
                .await
                .map_err(|e| format!("setup connect failed: {e}"))?;
        }
    }
    settle(&mut sim, 50).await;
    KEPT_PEERS.with(|k| k.borrow_mut().clear());
    if o.mode == "sizes" || o.mode == "mix" {
        for a in 0..n {
            for b in 0..n {
                if a != b {
                    if let Some(p) = sim.net(a).peer(sim.peer_id(b)) {
                        KEPT_PEERS.with(|k| k.borrow_mut().insert((a as i64, sim.peer_id(b)), p));
                    }
                }
            }
        }
    }
    if o.faults {
        let mut p = Policy::default();
        p.latency_ms = (1, [1, 4, 15][sim.rng.gen_range(0..3)]);
        p.loss = [0.0, 0.02, 0.1, 0.2][sim.rng.gen_range(0..4)];
        p.dup = [0.0, 0.05][sim.rng.gen_range(0..2)];
        p.reorder = [0.0, 0.1, 0.3][sim.rng.gen_range(0..3)];
        sim.run.fabric.set_policy(p.clone());
        sim.run.obs(-1, "obs.fault", json!({"loss": p.loss, "dup": p.dup, "reorder": p.reorder}));
    }
    let mut rng = StdRng::seed_from_u64(sim.rng.gen());
    let mut handles = Vec::new();
    let mut abandoned = 0;
    let mut long_calls = [0usize; 2];
    for k in 0..o.calls {
        let nonce = sim.nonce();
        let (from, to) = if rng.gen_bool(0.8) {
            if rng.gen_bool(0.5) { (0, 1) } else { (1, 0) }
        } else {
            let a = rng.gen_range(0..n);
            (a, (a + 1 + rng.gen_range(0..n - 1)) % n)
        };
        let mut req = random_request(&mut rng, nonce, o.mode == "mix" && !o.faults);
        let mut call = Call {
            nonce,
            from,
            to,
            request: Request::new(Bytes::new()),
            abandon_after: None,
            abandon_at: None,
            must_succeed: false,
        };
        match o.mode.as_str() {
            "mix" => {
                // routes are arbitrary strings: the handler must see exactly the one that was sent
                if rng.gen_bool(0.2) {
                    let odd = match rng.gen_range(0..7) {
                        0 => String::new(),
                        1 => "/".to_owned(),
                        2 => format!("r{nonce}"),
                        3 => format!("//r{nonce}//"),
                        4 => format!(" /r{nonce}/a b?x=1&y=2#frag "),
                        5 => format!("/R{nonce}/UPPER/lower"),
                        _ => format!("/r{nonce}/{}", "long/".repeat(60)),
                    };
                    *req.route_mut() = odd;
                }
                if rng.gen_bool(0.7) {
                    req.headers_mut()
                        .insert("delay-ms".into(), rng.gen_range(0..400).to_string());
                }
                // handlers answer with every status, with bodies and headers of their own
                if rng.gen_bool(0.25) {
                    let st = [400u16, 404, 429, 500, 505, 520][rng.gen_range(0..6)];
                    req.headers_mut().insert("status".into(), st.to_string());
                }
                call.must_succeed = true;
            }
            "replace" => {
                req.headers_mut().insert("delay-ms".into(), rng.gen_range(0..300).to_string());
            }
            "abandon" => {
                req.headers_mut().insert("delay-ms".into(), rng.gen_range(200..3_000).to_string());
                match rng.gen_range(0..10) {
                    0 => call.abandon_at = Some("rpc.opening"),
                    1 => call.abandon_at = Some("rpc.open"),
                    2 => call.abandon_at = Some("rpc.sent"),
                    3 => call.abandon_at = Some("rpc.finish"),
                    4..=5 => call.abandon_after = Some(rng.gen_range(0..150)),
                    6 => {
                        let f = rng.gen_range(0..2);
                        if long_calls[f] >= 3 {
                            call.must_succeed = true;
                        } else {
                        // a handler that has been at it for a long time when its caller gives up
                        // (served by the node without a concurrency limit: it must not hold up the others;
                        // at most three per caller, or they would hold every one of the eight streams the
                        // callee allows and an ordinary call to it would rightly run into its own deadline
                        // waiting for one - thorough-tier false alarm, seeds 158 and 177)
                        req.headers_mut().insert("delay-ms".into(), "90000".into());
                        call.abandon_after = Some([31_000u64, 45_000, 62_000][rng.gen_range(0..3)]);
                        call.to = 2;
                        call.from = f;
                        long_calls[f] += 1;
                        }
                    }
                    7 => {
                        // abandoned while a multi-megabyte response is on its way back
                        let d = rng.gen_range(5..60u64);
                        req.headers_mut().insert("delay-ms".into(), d.to_string());
                        req.headers_mut().insert("resp-len".into(), rng.gen_range(3_000_000..7_000_000u64).to_string());
                        call.abandon_after = Some(d + rng.gen_range(2..12));
                    }
                    _ => call.must_succeed = true,
                }
                // a deadline of its own does not keep an abandoned call's handler alive
                match rng.gen_range(0..5) {
                    // (on a network that loses a tenth of its datagrams a few hundred kilobytes each way
                    // behind eight shared streams can take 20 s: a call that has to succeed there gets the
                    // longer deadline - thorough-tier false alarm, seed 236)
                    0 if o.faults && call.must_succeed => req.set_timeout(Duration::from_secs(120)),
                    0 => req.set_timeout(Duration::from_secs(20)),
                    1 => req.set_timeout(Duration::from_secs(120)),
                    _ => {}
                }
                if call.abandon_at.is_some() || call.abandon_after.is_some() {
                    abandoned += 1;
                }
            }
            "storm" => {
                // a long history of calls abandoned while their handlers run, all on one connection
                // and in quick succession, with ordinary calls in between: nothing adds up
                call.from = 0;
                call.to = 1;
                if stream_limit.is_some() {
                    // (storm behind a small stream limit: the first calls hold every stream for a few
                    // seconds, hundreds more are abandoned while they wait for one, then ordinary calls)
                    if k < 8 {
                        req.headers_mut().insert("delay-ms".into(), "6000".into());
                    } else if k < o.calls - 12 {
                        call.abandon_after = Some(rng.gen_range(2..6));
                        abandoned += 1;
                    } else {
                        call.must_succeed = true;
                    }
                } else if k % 20 == 19 {
                    call.must_succeed = true;
                } else {
                    req.headers_mut().insert("delay-ms".into(), "5000".into());
                    call.abandon_after = Some(rng.gen_range(4..12));
                    abandoned += 1;
                }
            }
            "sizes" => {
                // sizes around the limits of caller and callee, for each of the four frames
                let lims: Vec<usize> = [limits[from], limits[to]].iter().flatten().copied().collect();
                if !lims.is_empty() {
                    let l = lims[rng.gen_range(0..lims.len())];
                    let delta: i64 = [-2, -1, 0, 1, 2, 40][rng.gen_range(0..6)];
                    let target = (l as i64 + delta).max(0) as usize;
                    match rng.gen_range(0..4) {
                        0 => {
                            // request body
                            let r = Request::new(sim::body_for(nonce, target, 1)).with_route(format!("/s{nonce}"));
                            req = r;
                        }
                        1 => {
                            // response body
                            req = Request::new(Bytes::from_static(b"x")).with_route(format!("/s{nonce}"));
                            req.headers_mut().insert("resp-len".into(), target.to_string());
                        }
                        2 => {
                            // request header frame: pad one header so the frame hits the target
                            let mut r = Request::new(Bytes::from_static(b"x")).with_route(format!("/s{nonce}"));
                            r.headers_mut().insert("nonce".into(), nonce.to_string());
                            let base = req_header_size(r.route(), r.headers()) + 16 + 3;
                            if target > base {
                                r.headers_mut().insert("pad".into(), "p".repeat(target - base));
                            }
                            req = r;
                        }
                        _ => {
                            // response header frame: an echoed header sized to hit the target
                            let mut r = Request::new(Bytes::from_static(b"x")).with_route(format!("/s{nonce}"));
                            let nonce_len = nonce.to_string().len();
                            let base = 2 + 8 + (16 + 5 + nonce_len) + 16 + 6;
                            if target > base && target - base < 60_000 {
                                r.headers_mut().insert("echo-p".into(), "q".repeat(target - base));
                            }
                            req = r;
                        }
                    }
                }
            }
            "nolimit" | "hugelimit" => {
                // no max_frame_size configured anywhere: sizes around 8 MiB (tokio-util's default cap)
                let target = (8usize << 20) + [0usize, 1, 0, 1, 4096][k % 5] - if k % 5 == 2 { 1 } else { 0 };
                if k % 2 == 0 {
                    req = Request::new(sim::body_for(nonce, target, 1)).with_route(format!("/big{nonce}"));
                } else {
                    req = Request::new(Bytes::from_static(b"x")).with_route(format!("/big{nonce}"));
                    req.headers_mut().insert("resp-len".into(), target.to_string());
                }
            }
            "timeouts" => {
                req.headers_mut().insert("delay-ms".into(), [0u64, 100, 350, 600, 1_200][rng.gen_range(0..5)].to_string());
                match rng.gen_range(0..8) {
                    0 => {}
                    1 => req.set_timeout(Duration::from_millis(200)),
                    2 => req.set_timeout(Duration::from_millis(700)),
                    3 => req.set_timeout(Duration::from_secs(5)),
                    4 => { req.headers_mut().insert("timeout".into(), "garbage".into()); }
                    5 => { req.headers_mut().insert("timeout".into(), "0".into()); }
                    6 => { req.headers_mut().insert("timeout".into(), "99999999999999999999999".into()); }
                    _ => { req.headers_mut().insert("timeout".into(), u64::MAX.to_string()); }
                }
            }
            _ => {}
        }
        call.request = req;
        handles.push(spawn_call(&sim, call));
        if o.mode == "replace" && k % 9 == 4 {
            // re-dial while calls are in flight: the connection is replaced under them
            sim.run.obs(-1, "obs.fault", json!({"redial": true}));
            let (a, b) = if rng.gen_bool(0.5) { (0, 1) } else { (1, 0) };
            let d = rng.gen_range(0..40);
            settle(&mut sim, d).await;
            let _ = sim.connect(a, sim.addr(b), Some(sim.peer_id(b))).await;
        }
        if o.mode == "storm" {
            settle(&mut sim, 2).await;
        } else if k % 7 == 0 {
            let d = rng.gen_range(0..30);
            settle(&mut sim, d).await;
        }
    }
    for h in handles {
        let _ = tokio::time::timeout(Duration::from_secs(1200), h).await;
    }
    if o.mode == "abandon" && !o.faults {
        // the caller gives up and hangs up in one go: the only word the serving side gets of the
        // abandonment is the end of the connection - the handler is dropped all the same
        for round in 0..2u64 {
            let nonce = sim.nonce();
            let mut req = Request::new(Bytes::from_static(b"bye")).with_route(format!("/hangup{nonce}"));
            req.headers_mut().insert("delay-ms".into(), "30000".into());
            req.headers_mut().insert("nonce".into(), nonce.to_string());
            let to = sim.peer_id(2);
            sim.run.obs(0, "obs.rpc_call", json!({
                "nonce": nonce, "to": 2, "route": req.route(), "len": req.body().len(), "digest": sim::digest(req.body()),
                "hdigest": sim::headers_digest(req.headers()), "nheaders": req.headers().len(),
                "hsize": req_header_size(req.route(), req.headers()), "delay": 30000u64,
            }));
            let net = sim.net(0).clone();
            let call = tokio::spawn(async move { net.rpc(to, req).await });
            settle(&mut sim, 40 + round * 15).await;
            sim.run.obs(-1, "obs.fault", json!({"redial": true}));
            call.abort();
            let _ = sim.net(0).disconnect(to);
            sim.run.obs(0, "obs.rpc_abandon", json!({"nonce": nonce}));
            settle(&mut sim, 400).await;
            sim.connect(0, sim.addr(2), Some(to)).await.map_err(|e| format!("reconnect after hanging up failed: {e}"))?;
            settle(&mut sim, 50).await;
        }
    }
    // afterwards the connection must still serve: fault-free, one fresh RPC each way
    sim.run.fabric.set_policy(Policy::default());
    sim.run.obs(-1, "obs.fault", json!({"what": "healed"}));
    settle(&mut sim, 4_000).await;
    let mut hs = Vec::new();
    for (a, b) in [(0usize, 1usize), (1, 0), (2, 0)] {
        let nonce = sim.nonce();
        hs.push(spawn_call(
            &sim,
            Call {
                nonce,
                from: a,
                to: b,
                request: Request::new(Bytes::from_static(b"after")).with_route("/after"),
                abandon_after: None,
                abandon_at: None,
                // (with a limit below the size of any header frame nothing can succeed)
                must_succeed: !limits.iter().flatten().any(|l| *l < 128)
                    // (nor with a default deadline of zero on the way)
                    && cfgs[a].outbound_request_timeout_ms != Some(0)
                    // (nor when the caller's own outbound middleware takes longer than its default allows)
                    && cfgs[a].outbound_request_timeout_ms.map_or(true, |d| d > layer_delays[a] + 200)
                    && cfgs[b].inbound_request_timeout_ms != Some(0),
            },
        ));
    }
    for h in hs {
        let _ = tokio::time::timeout(Duration::from_secs(600), h).await;
    }
    settle(&mut sim, 100).await;
    if o.mode == "timeouts" && !o.faults {
        // a stalled runtime: with only a serving-side deadline in play, a handler that needs a
        // quarter of it is under way when the clock jumps past the deadline in one step; it needed
        // less than the deadline, so it is answered normally, however late the task gets to run
        for (a, b) in [(0usize, 1usize), (1, 2), (2, 0)] {
            let (out_def, in_def) = (cfgs[a].outbound_request_timeout_ms, cfgs[b].inbound_request_timeout_ms);
            let (None, Some(d)) = (out_def, in_def) else { continue };
            if d == 0 {
                continue;
            }
            let nonce = sim.nonce();
            let mut req = Request::new(Bytes::from_static(b"stall")).with_route(format!("/stall{nonce}"));
            req.headers_mut().insert("delay-ms".into(), (d / 4).to_string());
            let h = spawn_call(&sim, Call { nonce, from: a, to: b, request: req, abandon_after: None, abandon_at: None, must_succeed: true });
            settle(&mut sim, 20).await;
            sim.run.obs(-1, "obs.stall", json!({"ms": d + 700}));
            tokio::time::advance(Duration::from_millis(d + 700)).await;
            let _ = tokio::time::timeout(Duration::from_secs(600), h).await;
            settle(&mut sim, 100).await;
        }
    }
    sim.obs_all_peers();
    sim.run.obs(-1, "obs.rpc_quiet", json!({}));
    KEPT_PEERS.with(|k| k.borrow_mut().clear());
    for i in 0..n {
        shutdown(&mut sim, i).await;
    }
    let _ = Arc::new(());
    Ok(json!({"calls": o.calls, "abandoned": abandoned}))
}

pub fn main(a: &Args) -> i32 {
    let o = Opts {
        mode: a.str("mode", "mix"),
        calls: a.u64("calls", 60) as usize,
        faults: a.u64("faults", 0) == 1,
    };
    run_many(a, "rpc", move |_seed, sim| workload(sim, o.clone()))
}
