//! C04 (b): the real `ActivePeers` driven from several OS threads at once with real QUIC
//! connections (real sockets, multi-thread runtime): add / remove / remove_with_stable_id /
//! subscribe / peers race freely. Hook events carry the sequence number taken under the lock, which
//! is the linearisation; what each API call returned is logged with the sequence number its own
//! critical section got. ApTrace.tla validates the linearised history and every subscriber's
//! snapshot and received stream.

use super::{print_summary, Args};
use crate::adversary as adv;
use crate::trace::{Run, LAST_APSEQ};
use anemo::types::{DisconnectReason, PeerEvent};
use anemo::verif::direct::DirectActivePeers;
use anemo::{ConnectionOrigin, PeerId};
use rand::{rngs::StdRng, Rng, SeedableRng};
use serde_json::{json, Value};
use std::sync::{Arc, Mutex};

fn last_apseq() -> i64 {
    LAST_APSEQ.with(|c| c.get())
}

pub fn main(a: &Args) -> i32 {
    let seed0 = a.u64("seed", 1);
    let runs = a.u64("runs", 4);
    let threads = a.u64("threads", 6) as usize;
    let ops = a.u64("ops", 300) as usize;
    let out = a.str("out", "/verif/work/apstress");
    let rt = tokio::runtime::Builder::new_multi_thread()
        .worker_threads(4)
        .enable_all()
        .build()
        .unwrap();
    let mut all_lines: Vec<Value> = Vec::new();
    let mut summary = Vec::new();
    for r in 0..runs {
        let seed = seed0 + r;
        let run = Run::begin_global(seed);
        let mut rng = StdRng::seed_from_u64(seed);
        // identities: own + 3 peers, indexes in PeerId order
        let keys = crate::sim::sorted_keys(4, &mut rng);
        let own_idx = rng.gen_range(0..4usize);
        for (i, k) in keys.iter().enumerate() {
            run.register_node(crate::sim::peer_id_of(k), i as i64);
        }
        let own: PeerId = crate::sim::peer_id_of(&keys[own_idx]);
        // real connections: a server endpoint and, per peer, 3 client connections
        let conns: Vec<(usize, quinn::Connection)> = rt.block_on(async {
            let server_cfg = adv::server_config(
                vec![adv::honest_cert(&keys[own_idx], "net")],
                adv::ed_key_der(&keys[own_idx]),
            );
            let server = quinn::Endpoint::server(server_cfg, "127.0.0.1:0".parse().unwrap()).unwrap();
            let addr = server.local_addr().unwrap();
            let mut out = Vec::new();
            for (i, k) in keys.iter().enumerate() {
                if i == own_idx {
                    continue;
                }
                let mut client = quinn::Endpoint::client("127.0.0.1:0".parse().unwrap()).unwrap();
                client.set_default_client_config(adv::client_config(
                    Some((vec![adv::honest_cert(k, "net")], adv::ed_key_der(k))),
                    None,
                ));
                for _ in 0..3 {
                    let connecting = client.connect(addr, "net").unwrap();
                    let (c, s) = tokio::join!(connecting, async { server.accept().await.unwrap().await });
                    let _keep_client = c.unwrap();
                    out.push((i, s.unwrap(), _keep_client, client.clone()));
                }
            }
            // keep client sides alive by leaking them for the duration of the process run
            let mut res = Vec::new();
            for (i, s, c, e) in out {
                std::mem::forget(c);
                std::mem::forget(e);
                res.push((i, s));
            }
            std::mem::forget(server);
            res
        });
        let ap = DirectActivePeers::new(4096);
        let subs: Arc<Mutex<Vec<(u64, tokio::sync::broadcast::Receiver<PeerEvent>)>>> = Arc::new(Mutex::new(Vec::new()));
        let next_sub = Arc::new(std::sync::atomic::AtomicU64::new(1));
        let conns = Arc::new(conns);
        let peer_ids: Vec<PeerId> = keys.iter().map(crate::sim::peer_id_of).collect();
        let mut handles = Vec::new();
        for t in 0..threads {
            let ap = ap.clone();
            let run = run.clone();
            let conns = conns.clone();
            let subs = subs.clone();
            let next_sub = next_sub.clone();
            let peer_ids = peer_ids.clone();
            handles.push(std::thread::spawn(move || {
                let mut rng = StdRng::seed_from_u64(seed * 1000 + t as u64);
                for _ in 0..ops {
                    match rng.gen_range(0..100) {
                        0..=39 => {
                            let (_, c) = &conns[rng.gen_range(0..conns.len())];
                            let origin = if rng.gen_bool(0.5) { ConnectionOrigin::Inbound } else { ConnectionOrigin::Outbound };
                            let _ = ap.add(&own, c.clone(), origin);
                        }
                        40..=54 => {
                            let (pi, _) = &conns[rng.gen_range(0..conns.len())];
                            ap.remove(&peer_ids[*pi], DisconnectReason::Requested);
                        }
                        55..=74 => {
                            let (pi, c) = &conns[rng.gen_range(0..conns.len())];
                            ap.remove_with_stable_id(peer_ids[*pi], c.stable_id(), DisconnectReason::ConnectionClosed);
                        }
                        75..=78 => {
                            let (rx, snapshot) = ap.subscribe();
                            let seq = last_apseq();
                            let id = next_sub.fetch_add(1, std::sync::atomic::Ordering::SeqCst);
                            let snap: Vec<Value> = snapshot.iter().map(|p| run.node_of(p)).collect();
                            run.obs(0, "obs.subscribe", json!({"sub": id, "apseq": seq, "snapshot": snap, "thread": t}));
                            subs.lock().unwrap().push((id, rx));
                        }
                        _ => {
                            let peers = ap.peers();
                            let mut p: Vec<Value> = peers.iter().map(|p| run.node_of(p)).collect();
                            let dup = p.len() != peers.iter().collect::<std::collections::HashSet<_>>().len();
                            p.sort_by_key(|v| v.to_string());
                            run.obs(0, "obs.note", json!({"what": "peers", "peers": p, "dup": dup, "thread": t}));
                        }
                    }
                }
            }));
        }
        for h in handles {
            let _ = h.join();
        }
        // drain every subscriber
        let mut tail: Vec<Value> = Vec::new();
        for (id, mut rx) in subs.lock().unwrap().drain(..) {
            loop {
                match rx.try_recv() {
                    Ok(PeerEvent::NewPeer(p)) => tail.push(json!({"ev": "obs.event", "sub": id, "kind": "new", "peer": run.node_of(&p)})),
                    Ok(PeerEvent::LostPeer(p, reason)) => tail.push(json!({"ev": "obs.event", "sub": id, "kind": "lost", "peer": run.node_of(&p), "reason": format!("{reason:?}")})),
                    Err(tokio::sync::broadcast::error::TryRecvError::Lagged(n)) => {
                        tail.push(json!({"ev": "obs.sub_lagged", "sub": id, "n": n}));
                    }
                    Err(_) => break,
                }
            }
            tail.push(json!({"ev": "obs.sub_end", "sub": id}));
        }
        let mut fin: Vec<Value> = ap.peers().iter().map(|p| run.node_of(p)).collect();
        fin.sort_by_key(|v| v.to_string());
        tail.push(json!({"ev": "obs.final_peers", "peers": fin}));
        run.end_global();
        // linearise: hook events by apseq, then the API observations
        let lines = run.take_lines();
        let mut hooks: Vec<Value> = lines.iter().filter(|l| l.get("apseq").is_some() && l["ev"].as_str().unwrap().starts_with("ap.")).cloned().collect();
        hooks.sort_by_key(|l| l["apseq"].as_u64());
        let obs: Vec<Value> = lines.iter().filter(|l| l["ev"] == "obs.subscribe").cloned().collect();
        let dup_seen = lines.iter().any(|l| l["ev"] == "obs.note" && l["dup"] == true);
        let n_hooks = hooks.len();
        all_lines.push(json!({"ev": "reset", "run": seed, "own": own_idx, "t": 0, "node": 0}));
        all_lines.extend(hooks);
        all_lines.extend(obs);
        all_lines.extend(tail);
        summary.push(json!({"seed": seed, "hook_events": n_hooks, "dup_listing": dup_seen}));
        // close the connections of this run
        for (_, c) in conns.iter() {
            c.close(0u32.into(), b"done");
        }
    }
    let path = format!("{out}.ndjson");
    crate::trace::write_ndjson(std::path::Path::new(&path), &all_lines).unwrap();
    print_summary(&json!({"scenario": "apstress", "trace": path, "runs": summary}));
    0
}
