//! C01 / C14: the decision tables TLC emitted from AnemoIdentity, concretised.
//!  (a) verifier level: each symbolic certificate is minted (rcgen) and given to the real
//!      verifiers through the direct wrappers;
//!  (b) handshake level: an adversary / foreign endpoint dials a real Network on the fabric with
//!      the row's SNI, certificate chain and proof key; established <=> the table says accept, and
//!      then the identity the listener lists is the certificate's key;
//!  (c) every ordered pair of honest (primary, alternate) name configurations dials;
//!  (d) every single-byte mutation of a valid certificate: accepted only if it still names the
//!      same identity.

use super::{print_summary, Args};
use crate::adversary::{self as adv, CertSpec, Validity};
use crate::sim::{self, base_config, NodeCfg, Sim};
use anemo::PeerId;
use rustls::pki_types::CertificateDer;
use serde_json::{json, Value};
use std::sync::{Arc, Mutex};
use std::time::{SystemTime, UNIX_EPOCH};

/// The network names behind the specification's n1, n2, n3: distinct names that are as close
/// to each other as names get (one separator character apart, and one contained in the others).
fn cn(n: &str) -> String {
    match n {
        "n1" => "test_net".to_owned(),
        "n2" => "test-net".to_owned(),
        "n3" => "net".to_owned(),       // a substring of the other two
        other => other.to_owned(),
    }
}

fn seed_of(k: &str) -> [u8; 32] {
    match k {
        "X" => [11u8; 32],
        "Y" => [22u8; 32],
        _ => adversary_seed(),
    }
}

/// The adversary grinds its key: among many key pairs of its own it uses one whose identity agrees
/// with X's under cheap digests of the 32 bytes (XOR of all bytes, sum of all bytes), which is what a
/// sloppy comparison of identities might look at. It still does not hold X's key.
fn adversary_seed() -> [u8; 32] {
    static SEED: std::sync::OnceLock<[u8; 32]> = std::sync::OnceLock::new();
    *SEED.get_or_init(|| {
        let fold = |id: &PeerId| (id.0.iter().fold(0u8, |a, b| a ^ b), id.0.iter().fold(0u8, |a, b| a.wrapping_add(*b)));
        let want = fold(&sim::peer_id_of(&[11u8; 32]));
        let mut seed = [33u8; 32];
        let mut best = seed;
        for n in 0u32..400_000 {
            seed[..4].copy_from_slice(&n.to_le_bytes());
            let got = fold(&sim::peer_id_of(&seed));
            if got.0 == want.0 {
                best = seed;
                if got.1 == want.1 {
                    break;
                }
            }
        }
        best
    })
}

/// the DER bytes for a symbolic certificate record
fn mint_row(c: &Value) -> Vec<u8> {
    let subj = seed_of(c["subj"].as_str().unwrap());
    let signer = seed_of(c["signer"].as_str().unwrap());
    let san = c["san"].as_str().unwrap();
    let spec = CertSpec {
        subject_seed: subj,
        signer_seed: if c["signer"] == c["subj"] { None } else { Some(signer) },
        // the odd shapes carry the name the verifier will be asked about, in the wrong place
        names: vec![if matches!(san, "absent" | "iponly" | "garbled") { cn("n1") } else { cn(san) }],
        san_kind: match san { "absent" => "absent", "iponly" => "iponly", "garbled" => "garbled", _ => "dns" },
        decoy: match c["decoy"].as_str().unwrap_or("none") { "none" => None, k => Some(seed_of(k)) },
        validity: match c["validity"].as_str().unwrap() {
            "ok" => Validity::Ok,
            "expired" => Validity::Expired,
            _ => Validity::NotYet,
        },
        p256: c["alg"] != "ed25519",
        // the subject of every minted certificate spells a name every listener of these tables accepts:
        // what a certificate is valid for is what its subjectAltName says
        subject_cn: Some(cn("n1")),
    };
    let mut der = adv::mint(&spec).der.as_ref().to_vec();
    if !c["wf"].as_bool().unwrap() {
        // not well-formed: cut the tail off
        der.truncate(der.len() - 5);
    }
    der
}

fn now_secs() -> u64 {
    SystemTime::now().duration_since(UNIX_EPOCH).unwrap().as_secs()
}

pub fn replay(a: &Args) -> i32 {
    let tables: Value = serde_json::from_str(&std::fs::read_to_string(a.str("table", "")).expect("tables")).unwrap();
    let mismatches: Arc<Mutex<Vec<Value>>> = Default::default();
    let mut evaluations = 0u64;
    let bad = |what: String, row: &Value| {
        let mut m = mismatches.lock().unwrap();
        if m.len() < 8 {
            m.push(json!({"what": what, "row": row}));
        }
    };
    let now = now_secs();
    // (a) verifiers
    for row in tables["id_client"].as_array().unwrap() {
        evaluations += 1;
        let der = mint_row(&row["cert"]);
        let names: Vec<String> = row["names"].as_array().unwrap().iter().map(|n| cn(n.as_str().unwrap())).collect();
        let got = anemo::verif::direct::verify_client_cert(names, &der, &[], now);
        if got.is_ok() != row["expect"].as_bool().unwrap() {
            bad(format!("verify_client_cert returned {got:?}"), row);
        }
        if got.is_ok() {
            let id = anemo::verif::direct::peer_id_from_certificate(&der);
            if id != Ok(sim::peer_id_of(&seed_of(row["cert"]["subj"].as_str().unwrap()))) {
                bad(format!("attributed identity {id:?} is not the certificate's key"), row);
            }
        }
    }
    for row in tables["id_server"].as_array().unwrap() {
        evaluations += 1;
        let der = mint_row(&row["cert"]);
        let pin = match row["pin"].as_str().unwrap() {
            "none" => None,
            k => Some(sim::peer_id_of(&seed_of(k))),
        };
        let got = anemo::verif::direct::verify_server_cert(
            vec![cn(row["name"].as_str().unwrap())],
            pin,
            &der,
            &[],
            &cn(row["dialled"].as_str().unwrap()),
            now,
        );
        if got.is_ok() != row["expect"].as_bool().unwrap() {
            bad(format!("verify_server_cert returned {got:?}"), row);
        }
        if got.is_ok() {
            let id = anemo::verif::direct::peer_id_from_certificate(&der);
            if id != Ok(sim::peer_id_of(&seed_of(row["cert"]["subj"].as_str().unwrap()))) {
                bad(format!("attributed identity {id:?} is not the certificate's key"), row);
            }
        }
    }
    // only Ed25519 is offered; client authentication is mandatory
    {
        evaluations += 1;
        let (schemes, offer, mandatory) = anemo::verif::direct::verifier_policy();
        if schemes != vec!["ED25519".to_string()] || !offer || !mandatory {
            bad(format!("verifier policy: schemes {schemes:?} offer {offer} mandatory {mandatory}"), &json!({}));
        }
    }
    // (d) single-byte mutations of a valid certificate
    {
        let cert = adv::honest_cert(&seed_of("X"), &cn("n1")).as_ref().to_vec();
        let id = sim::peer_id_of(&seed_of("X"));
        let alts: Vec<u8> = if a.u64("full_mutations", 0) == 1 { (1..=255u8).collect() } else { vec![1, 2, 0x10, 0x55, 0x80, 0xaa, 0xff] };
        for i in 0..cert.len() {
            for d in &alts {
                evaluations += 1;
                let mut m = cert.clone();
                m[i] ^= d;
                for server in [false, true] {
                    let ok = if server {
                        anemo::verif::direct::verify_server_cert(vec![cn("n1")], None, &m, &[], &cn("n1"), now).is_ok()
                    } else {
                        anemo::verif::direct::verify_client_cert(vec![cn("n1")], &m, &[], now).is_ok()
                    };
                    if ok && anemo::verif::direct::peer_id_from_certificate(&m) != Ok(id) {
                        bad(format!("mutation of byte {i} (^{d:#x}) accepted and attributed to another identity"), &json!({"server": server}));
                    }
                }
            }
        }
    }
    // (b) + (c) handshakes on the fabric
    let adv_rows: Vec<Value> = tables["id_advdial"].as_array().unwrap().clone();
    let pair_rows: Vec<Value> = tables["id_pairs"].as_array().unwrap().clone();
    let shape_rows: Vec<Value> = tables["id_advshape"].as_array().unwrap().clone();
    let shape_stride = a.u64("shape_stride", 1) as usize;
    let stride = a.u64("stride", 1) as usize;
    let mm = mismatches.clone();
    let n_hs = Arc::new(Mutex::new(0u64));
    let n_hs2 = n_hs.clone();
    let out = sim::run_sim(a.u64("seed", 1), move |mut sim: Sim| async move {
        let bad = |what: String, row: &Value| {
            let mut m = mm.lock().unwrap();
            if m.len() < 8 {
                m.push(json!({"what": what, "row": row}));
            }
        };
        // listeners: one with names {n1}, one with {n1, n2}
        let mut cfg = base_config();
        cfg.connect_timeout_ms = Some(500);
        let l1 = sim.add_node(NodeCfg { key: [41; 32], name: cn("n1"), alt: None, config: cfg.clone(), bind: None }).map_err(|e| e.to_string())?;
        let l2 = sim.add_node(NodeCfg { key: [42; 32], name: cn("n1"), alt: Some(cn("n2")), config: cfg.clone(), bind: None }).map_err(|e| e.to_string())?;
        let ids: Vec<(String, PeerId)> = ["X", "Y", "E"].iter().map(|k| (k.to_string(), sim::peer_id_of(&seed_of(k)))).collect();
        for (i, (_, p)) in ids.iter().enumerate() {
            sim.run.register_node(*p, 100 + i as i64);
        }
        for (k, row) in adv_rows.iter().enumerate() {
            if k % stride != 0 {
                continue;
            }
            *n_hs2.lock().unwrap() += 1;
            let lnames = row["lnames"].as_array().unwrap().len();
            let l = if lnames == 1 { l1 } else { l2 };
            let der = mint_row(&row["cert"]);
            let proof = adv::ed_key_der(&seed_of(row["proof"].as_str().unwrap()));
            let (ep, _) = adv::endpoint(&sim.run.fabric, None).map_err(|e| e.to_string())?;
            let mut chain = vec![CertificateDer::from(der)];
            match row["extra"].as_str().unwrap_or("none") {
                "none" => {}
                k => chain.push(adv::honest_cert(&seed_of(k), &cn("n1"))), // a replayed honest certificate
            }
            let cc = adv::client_config(Some((chain, proof)), None);
            // a hello without a server name: rustls sends none when the name dialed is an IP address
            let sni = match row["sni"].as_str().unwrap() { "none" => "127.0.0.1".to_string(), n => cn(n) };
            let connecting = ep.connect_with(cc, sim.addr(l), &sni).map_err(|e| e.to_string())?;
            let established = match tokio::time::timeout(std::time::Duration::from_secs(5), async {
                let conn = connecting.await?;
                adv::dialer_wait_ack(&conn).await?;
                Ok::<_, anyhow::Error>(conn)
            })
            .await
            {
                Ok(Ok(conn)) => Some(conn),
                _ => None,
            };
            sim.sleep_ms(30).await;
            let want = row["expect"].as_bool().unwrap();
            if established.is_some() != want {
                bad(format!("adversary dial: established={} but the specification says accept={want}", established.is_some()), row);
            }
            let subj = sim::peer_id_of(&seed_of(row["cert"]["subj"].as_str().unwrap()));
            let listed = sim.net(l).peers();
            if established.is_some() {
                if listed != vec![subj] {
                    bad(format!("listener lists {:?}, not exactly the certificate's key", listed.iter().map(|p| sim.run.node_of(p)).collect::<Vec<_>>()), row);
                }
            } else if !listed.is_empty() {
                bad("a refused dial left the listener listing a peer".into(), row);
            }
            if let Some(conn) = established {
                conn.close(0u32.into(), b"");
            }
            ep.close(0u32.into(), b"");
            sim.sleep_ms(60).await;
            sim.disconnect(l, subj);
            sim.sleep_ms(20).await;
        }
        // certificate shapes and proofs a party without the key can always produce
        let dialer = sim.add_node(NodeCfg { key: [43; 32], name: cn("n1"), alt: None, config: cfg.clone(), bind: None }).map_err(|e| e.to_string())?;
        for (k, row) in shape_rows.iter().enumerate() {
            if k % shape_stride != 0 {
                continue;
            }
            *n_hs2.lock().unwrap() += 1;
            let der = mint_row(&row["cert"]);
            let chain = vec![CertificateDer::from(der)];
            let subj = sim::peer_id_of(&seed_of(row["cert"]["subj"].as_str().unwrap()));
            let want = row["expect"].as_bool().unwrap();
            let scheme = adv::scheme_named(row["scheme"].as_str().unwrap());
            let real_proof = row["proof"] != "junk";
            if row["dir"] == "dial" {
                let (ep, _) = adv::endpoint(&sim.run.fabric, None).map_err(|e| e.to_string())?;
                let cc = if real_proof {
                    adv::client_config(Some((chain, adv::ed_key_der(&seed_of(row["proof"].as_str().unwrap())))), None)
                } else {
                    adv::client_config_junk_proof(chain, scheme)
                };
                let connecting = ep.connect_with(cc, sim.addr(l1), &cn("n1")).map_err(|e| e.to_string())?;
                // the connection is kept open until the listing has been looked at
                let held = tokio::time::timeout(std::time::Duration::from_secs(5), async {
                    let conn = connecting.await?;
                    adv::dialer_wait_ack(&conn).await?;
                    Ok::<_, anyhow::Error>(conn)
                })
                .await;
                let established = matches!(held, Ok(Ok(_)));
                sim.sleep_ms(30).await;
                let listed = sim.net(l1).peers();
                if established != want {
                    bad(format!("adversary dial (shape): established={established} but the specification says accept={want}"), row);
                } else if established && listed != vec![subj] {
                    bad(format!("listener lists {:?}, not exactly the key in the certificate's SPKI", listed.iter().map(|p| sim.run.node_of(p)).collect::<Vec<_>>()), row);
                } else if !established && !listed.is_empty() {
                    bad("a refused dial left the listener listing a peer".into(), row);
                }
                drop(held);
                ep.close(0u32.into(), b"");
                sim.sleep_ms(60).await;
                for p in sim.net(l1).peers() {
                    sim.disconnect(l1, p);
                }
                sim.sleep_ms(20).await;
            } else {
                let sc = if real_proof {
                    adv::server_config(chain, adv::ed_key_der(&seed_of(row["proof"].as_str().unwrap())))
                } else {
                    adv::server_config_junk_proof(chain, scheme)
                };
                let (ep, addr) = adv::endpoint(&sim.run.fabric, Some(sc)).map_err(|e| e.to_string())?;
                let ep2 = ep.clone();
                let acceptor = tokio::spawn(async move {
                    let mut held = Vec::new();   // accepted connections stay open until the row is done
                    while let Some(inc) = ep2.accept().await {
                        if let Ok(conn) = inc.await {
                            let _ = adv::listener_ack(&conn).await;
                            held.push(conn);
                        }
                    }
                });
                let pin = match row["pin"].as_str().unwrap() { "none" => None, k => Some(sim::peer_id_of(&seed_of(k))) };
                let r = match pin {
                    Some(p) => sim.net(dialer).connect_with_peer_id(addr, p).await,
                    None => sim.net(dialer).connect(addr).await,
                };
                sim.sleep_ms(20).await;
                let listed = sim.net(dialer).peers();
                match &r {
                    Ok(p) if !want => bad(format!("honest dial of an adversary listener returned Ok({}) but the specification says refuse", sim.run.node_of(p)), row),
                    Err(e) if want => bad(format!("honest dial of an adversary listener failed ({}) but the specification says accept", e.to_string().chars().take(80).collect::<String>()), row),
                    Ok(p) if *p != subj || listed != vec![subj] => bad(format!("dial returned {} / lists {:?}, not the key in the certificate's SPKI", sim.run.node_of(p), listed.iter().map(|p| sim.run.node_of(p)).collect::<Vec<_>>()), row),
                    Err(_) if !listed.is_empty() => bad("a failed dial left the dialer listing a peer".into(), row),
                    _ => {}
                }
                acceptor.abort();
                ep.close(0u32.into(), b"");
                for p in sim.net(dialer).peers() {
                    sim.disconnect(dialer, p);
                }
                sim.sleep_ms(60).await;
            }
        }
        // a dialer that also accepts an alternate name dials as its primary name: a listener that answers
        // with a certificate for the alternate name only (it does not pick its certificate by the name
        // asked for) is not the network that was dialed - with or without a pin on its key
        {
            let dialer2 = sim.add_node(NodeCfg { key: [44; 32], name: cn("n1"), alt: Some(cn("n2")), config: cfg.clone(), bind: None }).map_err(|e| e.to_string())?;
            for (san, want) in [("n2", false), ("n3", false), ("n1", true)] {
                for pinned in [false, true] {
                    *n_hs2.lock().unwrap() += 1;
                    let e_seed = seed_of("E");
                    let der = adv::mint(&CertSpec { subject_cn: Some(cn("n1")), ..CertSpec::plain(e_seed, None, vec![cn(san)]) }).der;
                    let sc = adv::server_config(vec![der], adv::ed_key_der(&e_seed));
                    let (ep, addr) = adv::endpoint(&sim.run.fabric, Some(sc)).map_err(|e| e.to_string())?;
                    let ep2 = ep.clone();
                    let acceptor = tokio::spawn(async move {
                        let mut held = Vec::new();
                        while let Some(inc) = ep2.accept().await {
                            if let Ok(conn) = inc.await {
                                let _ = adv::listener_ack(&conn).await;
                                held.push(conn);
                            }
                        }
                    });
                    let e_id = sim::peer_id_of(&e_seed);
                    let r = if pinned { sim.net(dialer2).connect_with_peer_id(addr, e_id).await } else { sim.net(dialer2).connect(addr).await };
                    sim.sleep_ms(20).await;
                    let row = json!({"dialer": {"primary": "n1", "alt": "n2"}, "listener_cert_san": san, "pinned": pinned, "expect": want});
                    if r.is_ok() != want {
                        bad(format!("a dialer (primary n1, alternate n2) dialing a listener whose certificate is for {san}: connect returned ok={}, the specification says {want}", r.is_ok()), &row);
                    }
                    acceptor.abort();
                    ep.close(0u32.into(), b"");
                    for p in sim.net(dialer2).peers() {
                        sim.disconnect(dialer2, p);
                    }
                    sim.sleep_ms(60).await;
                }
            }
        }
        // many visitors: 160 different identities connect to the listener one after the other and leave;
        // then early ones come back - each is listed under its own key, every time, however many others
        // the process has seen in between
        {
            let visitor = |i: u32| -> [u8; 32] {
                let mut k = [0x33u8; 32];
                k[..4].copy_from_slice(&i.to_le_bytes());
                k[31] = 0x77;
                k
            };
            let order: Vec<u32> = (0..160).chain([0, 1, 2, 80, 159, 0]).collect();
            for (n, i) in order.into_iter().enumerate() {
                *n_hs2.lock().unwrap() += 1;
                let seed = visitor(i);
                let id = sim::peer_id_of(&seed);
                sim.run.register_node(id, 1000 + i as i64);
                let der = adv::mint(&CertSpec::plain(seed, None, vec![cn("n1")])).der;
                let (ep, _) = adv::endpoint(&sim.run.fabric, None).map_err(|e| e.to_string())?;
                let cc = adv::client_config(Some((vec![der], adv::ed_key_der(&seed))), None);
                let connecting = ep.connect_with(cc, sim.addr(l1), &cn("n1")).map_err(|e| e.to_string())?;
                let held = tokio::time::timeout(std::time::Duration::from_secs(5), async {
                    let conn = connecting.await?;
                    adv::dialer_wait_ack(&conn).await?;
                    Ok::<_, anyhow::Error>(conn)
                })
                .await;
                sim.sleep_ms(10).await;
                let listed = sim.net(l1).peers();
                let row = json!({"visitor": i, "visit": n});
                if !matches!(held, Ok(Ok(_))) {
                    bad(format!("visitor {i} (visit {n}) with a plain honest certificate was not admitted"), &row);
                } else if listed != vec![id] {
                    bad(format!("visitor {i} (visit {n}): the listener lists {:?}, not exactly the visitor's key", listed.iter().map(|p| sim.run.node_of(p)).collect::<Vec<_>>()), &row);
                }
                drop(held);
                ep.close(0u32.into(), b"");
                sim.sleep_ms(30).await;
                for p in sim.net(l1).peers() {
                    sim.disconnect(l1, p);
                }
                sim.sleep_ms(10).await;
            }
        }
        // no client certificate at all
        {
            let (ep, _) = adv::endpoint(&sim.run.fabric, None).map_err(|e| e.to_string())?;
            let connecting = ep.connect_with(adv::client_config(None, None), sim.addr(l1), &cn("n1")).map_err(|e| e.to_string())?;
            let r = tokio::time::timeout(std::time::Duration::from_secs(5), async {
                let conn = connecting.await?;
                adv::dialer_wait_ack(&conn).await?;
                Ok::<_, anyhow::Error>(())
            })
            .await;
            if matches!(r, Ok(Ok(()))) || !sim.net(l1).peers().is_empty() {
                bad("a dialer without a client certificate was admitted".into(), &json!({}));
            }
            ep.close(0u32.into(), b"");
        }
        // honest pairs
        for (k, row) in pair_rows.iter().enumerate() {
            if k % stride != 0 {
                continue;
            }
            *n_hs2.lock().unwrap() += 1;
            let mk = |c: &Value, key: u8| NodeCfg {
                key: [key; 32],
                name: cn(c["primary"].as_str().unwrap()),
                alt: match c["alt"].as_str().unwrap() { "none" => None, x => Some(cn(x)) },
                config: { let mut c = base_config(); c.connect_timeout_ms = Some(400); c },
                bind: None,
            };
            let d = sim.add_node(mk(&row["d"], 51)).map_err(|e| e.to_string())?;
            let l = sim.add_node(mk(&row["l"], 52)).map_err(|e| e.to_string())?;
            let r = sim.connect(d, sim.addr(l), Some(sim.peer_id(l))).await;
            sim.sleep_ms(20).await;
            let want = row["expect"].as_bool().unwrap();
            let listed = sim.net(l).peers().contains(&sim.peer_id(d)) && sim.net(d).peers().contains(&sim.peer_id(l));
            if r.is_ok() != want || listed != want {
                bad(format!("honest dial: connect ok={} listed={listed}, the specification says {want}", r.is_ok()), row);
            }
            for i in [d, l] {
                if let Some(net) = sim.nodes[i].net.take() {
                    let _ = net.shutdown().await;
                }
            }
        }
        Ok(json!({}))
    });
    if !out.panics.is_empty() {
        mismatches.lock().unwrap().push(json!({"what": format!("panic: {}", out.panics[0])}));
    }
    if let Err(e) = &out.result {
        mismatches.lock().unwrap().push(json!({"what": format!("scenario error: {e}")}));
    }
    evaluations += *n_hs.lock().unwrap();
    let m = mismatches.lock().unwrap().clone();
    print_summary(&json!({"evaluations": evaluations, "handshakes": *n_hs.lock().unwrap(), "mismatches": m}));
    0
}
