use super::Args;
use crate::sim::{self, base_config, NodeCfg};
use anemo::Request;
use bytes::Bytes;
use serde_json::json;

pub fn main(a: &Args) -> i32 {
    let seed = a.u64("seed", 1);
    let out = sim::run_sim(seed, |mut sim| async move {
        let keys = sim::sorted_keys(2, &mut sim.rng);
        for k in keys {
            sim.add_node(NodeCfg {
                key: k,
                name: "net".into(),
                alt: None,
                config: base_config(),
                bind: None,
            })
            .map_err(|e| e.to_string())?;
        }
        sim.subscribe(0).unwrap();
        sim.subscribe(1).unwrap();
        let p1 = sim.peer_id(1);
        if std::env::var_os("SMOKE_WRONG_PIN").is_some() {
            let r = sim.connect(0, sim.addr(1), Some(sim.peer_id(0))).await;
            eprintln!("wrong pin: {r:?}");
            sim.sleep_ms(5000).await;
        }
        let r = sim.connect(0, sim.addr(1), Some(p1)).await;
        sim.sleep_ms(50).await;
        sim.drain_events();
        sim.obs_all_peers();
        let nonce = sim.nonce();
        let resp = sim::rpc(
            &sim.run,
            sim.net(0),
            0,
            p1,
            Request::new(Bytes::from_static(b"hello")).with_route("/echo"),
            nonce,
        )
        .await;
        sim.disconnect(0, p1);
        sim.sleep_ms(50).await;
        sim.drain_events();
        sim.obs_all_peers();
        let _ = sim.net(0).shutdown().await;
        let _ = sim.net(1).shutdown().await;
        sim.drain_events();
        Ok(json!({"connect": r.is_ok(), "rpc": resp.is_ok()}))
    });
    let path = a.str("out", "/verif/work/smoke.ndjson");
    crate::trace::write_ndjson(std::path::Path::new(&path), &out.lines).unwrap();
    eprintln!("result={:?} panics={:?} virtual_ms={}", out.result, out.panics, out.virtual_ms);
    0
}
