//! C16: every build sequence TLC enumerated from AnemoRouter (route / route_layer / merge, with
//! conflicting inserts) is executed on the real `Router`; every probe path must reach exactly the
//! service and layer stack the specification says, or NotFound; a conflicting insert must panic
//! exactly when the specification says so. Plus a sweep of odd route strings (no panic, NotFound
//! unless the specification's match rule selects a route).

use super::{print_summary, Args};
use anemo::{types::response::StatusCode, Request, Response, Router};
use bytes::Bytes;
use rand::{rngs::StdRng, Rng, SeedableRng};
use serde_json::{json, Value};
use std::convert::Infallible;
use std::task::{Context, Poll};
use tower::{Layer, Service, ServiceExt};

/// The registered services hold tower's contract against the router: `call` only after `poll_ready`
/// on the same value (readiness is not inherited by a clone). A service reached without having been
/// polled ready answers as service 998, which no specification outcome names.
struct TaggedSvc {
    id: u64,
    ready: bool,
}

#[allow(non_snake_case)]
fn Tagged(id: u64) -> TaggedSvc {
    TaggedSvc { id, ready: false }
}

impl Clone for TaggedSvc {
    fn clone(&self) -> Self {
        TaggedSvc { id: self.id, ready: false }
    }
}

impl Service<Request<Bytes>> for TaggedSvc {
    type Response = Response<Bytes>;
    type Error = Infallible;
    type Future = std::future::Ready<Result<Response<Bytes>, Infallible>>;
    fn poll_ready(&mut self, _: &mut Context<'_>) -> Poll<Result<(), Infallible>> {
        self.ready = true;
        Poll::Ready(Ok(()))
    }
    fn call(&mut self, req: Request<Bytes>) -> Self::Future {
        let trace = req.headers().get("trace").cloned().unwrap_or_default();
        let id = if std::mem::take(&mut self.ready) { self.id } else { 998 };
        std::future::ready(Ok(Response::new(Bytes::new())
            .with_header("svc", id.to_string())
            .with_header("layers", trace)))
    }
}

/// Wildcard-tail routes are registered the way the property names them: as an RPC service under
/// `/<service-name>/...` through `add_rpc_service`.
macro_rules! rpc_service {
    ($t:ident, $name:literal) => {
        #[derive(Clone)]
        struct $t(TaggedSvc);
        impl anemo::rpc::RpcService for $t {
            const SERVICE_NAME: &'static str = $name;
        }
        impl Service<Request<Bytes>> for $t {
            type Response = Response<Bytes>;
            type Error = Infallible;
            type Future = std::future::Ready<Result<Response<Bytes>, Infallible>>;
            fn poll_ready(&mut self, cx: &mut Context<'_>) -> Poll<Result<(), Infallible>> {
                self.0.poll_ready(cx)
            }
            fn call(&mut self, req: Request<Bytes>) -> Self::Future {
                self.0.call(req)
            }
        }
    };
}
rpc_service!(RpcSvc, "svc");
rpc_service!(RpcT, "t");

#[derive(Clone)]
struct Mark<S> {
    inner: S,
    id: u64,
}

impl<S> Service<Request<Bytes>> for Mark<S>
where
    S: Service<Request<Bytes>, Response = Response<Bytes>, Error = Infallible>,
    S::Future: Send + 'static,
{
    type Response = Response<Bytes>;
    type Error = Infallible;
    type Future = futures::future::BoxFuture<'static, Result<Response<Bytes>, Infallible>>;
    fn poll_ready(&mut self, cx: &mut Context<'_>) -> Poll<Result<(), Infallible>> {
        self.inner.poll_ready(cx)
    }
    fn call(&mut self, mut req: Request<Bytes>) -> Self::Future {
        let t = req.headers().get("trace").cloned().unwrap_or_default();
        req.headers_mut().insert("trace".into(), format!("{t}{},", self.id));
        let id = self.id;
        let fut = self.inner.call(req);
        // the layer also marks the response: a layer applied to something that is not one of
        // its routes (the NotFound fallback) becomes visible
        Box::pin(async move {
            let mut resp = fut.await?;
            let v = resp.headers().get("via").cloned().unwrap_or_default();
            resp.headers_mut().insert("via".into(), format!("{v}{id},"));
            Ok(resp)
        })
    }
}

#[derive(Clone)]
struct MarkLayer(u64);

impl<S> Layer<S> for MarkLayer {
    type Service = Mark<S>;
    fn layer(&self, inner: S) -> Mark<S> {
        Mark { inner, id: self.0 }
    }
}

fn sub(k: u64) -> Router {
    if k == 1 {
        Router::new().route("/b/c", Tagged(101)).route_layer(MarkLayer(7))
    } else {
        Router::new()
            .route("/a", Tagged(103))
            .route_layer(MarkLayer(8))
            .route_layer(MarkLayer(9))
            .add_rpc_service(RpcT(Tagged(102)))
    }
}

/// `prebuilt`: the routers that get merged in exist before the receiving router gets its first route
/// (a merge result does not depend on which of the two routers was put together first).
fn build(ops: &[Value], prebuilt: bool) -> Router {
    let subs = if prebuilt { Some([sub(1), sub(2)]) } else { None };
    let mut r = Router::new();
    for (i, op) in ops.iter().enumerate() {
        r = match op["op"].as_str().unwrap() {
            "route" if op["wild"] == true && op["prefix"] == "/svc/" => r.add_rpc_service(RpcSvc(Tagged(i as u64 + 1))),
            "route" if op["wild"] == true && op["prefix"] == "/t/" => r.add_rpc_service(RpcT(Tagged(i as u64 + 1))),
            "route" => r.route(op["pat"].as_str().unwrap(), Tagged(i as u64 + 1)),
            "layer" => r.route_layer(MarkLayer(op["id"].as_u64().unwrap())),
            "merge" => {
                let k = op["sub"].as_u64().unwrap();
                r.merge(match &subs {
                    Some(s) => s[k as usize - 1].clone(),
                    None => sub(k),
                })
            }
            "mergefork" => {
                let fork = r.clone().route_layer(MarkLayer(op["id"].as_u64().unwrap()));
                r.merge(fork)
            }
            _ => r,
        };
    }
    r
}

fn call(router: &Router, path: &str) -> (u64, String) {
    let resp = futures::executor::block_on(
        router.clone().oneshot(Request::new(Bytes::new()).with_route(path)),
    )
    .unwrap();
    if resp.status() == StatusCode::NotFound {
        // a NotFound that passed through a layer is reported as such
        (0, resp.headers().get("via").map(|v| format!("fallback-via:{v}")).unwrap_or_default())
    } else {
        (
            resp.headers().get("svc").and_then(|s| s.parse().ok()).unwrap_or(999),
            resp.headers().get("layers").cloned().unwrap_or_default(),
        )
    }
}

pub fn replay(a: &Args) -> i32 {
    let behaviours: Vec<Value> =
        serde_json::from_str(&std::fs::read_to_string(a.str("file", "")).expect("behaviours")).unwrap();
    let default_hook = std::panic::take_hook();
    std::panic::set_hook(Box::new(|_| {}));
    let mut mismatches = Vec::new();
    let mut evaluations = 0u64;
    for (bi, prebuilt, b) in behaviours.iter().enumerate().flat_map(|(bi, b)| [(bi, false, b), (bi, true, b)]) {
        let ops = b["ops"].as_array().unwrap().clone();
        let want_panic = b["panicked"].as_bool().unwrap();
        let built = std::panic::catch_unwind(std::panic::AssertUnwindSafe(|| build(&ops, prebuilt)));
        evaluations += 1;
        match (built, want_panic) {
            (Err(_), true) => {}
            (Err(_), false) => mismatches.push(json!({"behaviour": bi, "merged_routers_built_first": prebuilt, "what": "building the router panicked, the specification has no conflict", "ops": ops})),
            (Ok(_), true) => mismatches.push(json!({"behaviour": bi, "merged_routers_built_first": prebuilt, "what": "conflicting insert did not panic", "ops": ops})),
            (Ok(router), false) => {
                for (path, exp) in b["expect"].as_object().unwrap() {
                    evaluations += 1;
                    let got = std::panic::catch_unwind(std::panic::AssertUnwindSafe(|| call(&router, path)));
                    let want_svc = exp["svc"].as_u64().unwrap();
                    let want_layers: String = exp["layers"].as_array().unwrap().iter().map(|x| format!("{x},")).collect();
                    match got {
                        Ok((svc, layers)) if svc == want_svc && layers == want_layers => {}
                        Ok((svc, layers)) => {
                            if mismatches.len() < 8 {
                                mismatches.push(json!({"behaviour": bi, "merged_routers_built_first": prebuilt, "what": format!("path {path:?}: reached service {svc} through layers [{layers}], specification says service {want_svc} through [{want_layers}]"), "ops": ops}));
                            }
                        }
                        Err(_) => mismatches.push(json!({"behaviour": bi, "merged_routers_built_first": prebuilt, "what": format!("routing panicked on {path:?}"), "ops": ops})),
                    }
                }
            }
        }
        if mismatches.len() > 8 {
            break;
        }
    }
    // odd strings against one table
    let router = Router::new()
        .route("/a", Tagged(1))
        .route("/svc/*rest", Tagged(2))
        .route("/b/c", Tagged(3))
        .route("/", Tagged(4));
    let mut rng = StdRng::seed_from_u64(a.u64("seed", 1));
    let n = a.u64("fuzz", 20_000);
    let alphabet = ["/", "a", "svc", "", "x", "*", ":", "b", "c", "//", "é", "\0", "%2f", "..", "*rest", " "];
    for _ in 0..n {
        evaluations += 1;
        let k = rng.gen_range(0..7);
        let path: String = (0..k).map(|_| alphabet[rng.gen_range(0..alphabet.len())]).collect();
        let want = if path == "/a" { 1 } else if path.starts_with("/svc/") { 2 } else if path == "/b/c" { 3 } else if path == "/" { 4 } else { 0 };
        match std::panic::catch_unwind(std::panic::AssertUnwindSafe(|| call(&router, &path))) {
            Ok((svc, _)) if svc == want => {}
            Ok((svc, _)) => {
                if mismatches.len() < 12 {
                    mismatches.push(json!({"what": format!("odd path {path:?} reached service {svc}, match rule says {want}")}));
                }
            }
            Err(_) => mismatches.push(json!({"what": format!("routing panicked on {path:?}")})),
        }
    }
    // long odd strings: multi-byte characters at every offset around typical buffer sizes
    let layered = Router::new().route("/a", Tagged(1)).route_layer(MarkLayer(1));
    for k in 0..200usize {
        for fill in ["é", "\u{20ac}", "\u{1F600}", "a/"] {
            evaluations += 1;
            let path = format!("/{}{}", "x".repeat(k), fill.repeat(120));
            for r in [&router, &layered] {
                match std::panic::catch_unwind(std::panic::AssertUnwindSafe(|| call(r, &path))) {
                    Ok((0, via)) if via.is_empty() => {}
                    Ok((svc, via)) => {
                        if mismatches.len() < 12 {
                            mismatches.push(json!({"what": format!("unmatched path of {} bytes reached service {svc} / {via}", path.len())}));
                        }
                    }
                    Err(_) => {
                        if mismatches.len() < 12 {
                            mismatches.push(json!({"what": format!("routing panicked on an unmatched path of {} bytes ({k} ascii then multi-byte)", path.len())}));
                        }
                    }
                }
            }
        }
    }
    // long MATCHING routes: length plays no part in the match rule
    let long_exact = format!("/long/{}", "segment/".repeat(50));
    let with_long = Router::new().route(&long_exact, Tagged(7)).add_rpc_service(RpcSvc(Tagged(2))).route("/", Tagged(4));
    for k in [0usize, 1, 100, 200, 245, 250, 251, 252, 253, 260, 300, 1000, 5000, 70_000] {
        for fill in ["y", "é", "a/", "\u{1F600}"] {
            evaluations += 1;
            let path = format!("/svc/{}{}", "x".repeat(k), fill.repeat(3));
            match std::panic::catch_unwind(std::panic::AssertUnwindSafe(|| call(&with_long, &path))) {
                Ok((2, _)) => {}
                Ok((svc, _)) => {
                    if mismatches.len() < 12 {
                        mismatches.push(json!({"what": format!("a path of {} bytes under the RPC service's prefix reached service {svc}, match rule says 2", path.len())}));
                    }
                }
                Err(_) => mismatches.push(json!({"what": format!("routing panicked on a matching path of {} bytes", path.len())})),
            }
        }
    }
    evaluations += 1;
    match std::panic::catch_unwind(std::panic::AssertUnwindSafe(|| call(&with_long, &long_exact))) {
        Ok((7, _)) => {}
        other => mismatches.push(json!({"what": format!("an exact route of {} bytes was not dispatched to its service: {:?}", long_exact.len(), other.ok())})),
    }
    // routers grown from a common base are routers of their own: what one of them has looked up or
    // registered plays no part in what another one does
    {
        let base = Router::new().route("/a", Tagged(1)).route("/t/*rest", Tagged(5));
        let r1 = base.clone().route("/x", Tagged(2)).route("/only1", Tagged(6));
        let r2 = base.clone().route("/x", Tagged(3));
        let r3 = base.clone();
        let mut probe = |r: &Router, which: &str, path: &str, want: u64, mismatches: &mut Vec<Value>| {
            evaluations += 1;
            match std::panic::catch_unwind(std::panic::AssertUnwindSafe(|| call(r, path))) {
                Ok((svc, _)) if svc == want => {}
                Ok((svc, _)) => mismatches.push(json!({"what": format!("routers cloned from one base: {which} dispatched {path:?} to service {svc}, its own table says {want}")})),
                Err(_) => mismatches.push(json!({"what": format!("routers cloned from one base: {which} panicked on {path:?}")})),
            }
        };
        for _ in 0..2 {
            probe(&r1, "the first clone", "/x", 2, &mut mismatches);
            probe(&r2, "the second clone", "/x", 3, &mut mismatches);
            probe(&r3, "the untouched clone", "/x", 0, &mut mismatches);
            probe(&r1, "the first clone", "/only1", 6, &mut mismatches);
            probe(&r2, "the second clone", "/only1", 0, &mut mismatches);
            probe(&base, "the base", "/x", 0, &mut mismatches);
            for r in [&r1, &r2, &r3, &base] {
                probe(r, "a clone", "/a", 1, &mut mismatches);
                probe(r, "a clone", "/t/zz", 5, &mut mismatches);
            }
        }
    }
    // a large table: every one of tens of thousands of exact routes reaches its own service
    {
        let n_routes = a.u64("routes", 70_000);
        let mut big = Router::new();
        for i in 0..n_routes {
            big = big.route(&format!("/item/{i}"), Tagged(i + 10));
        }
        let mut wrong = 0u64;
        let mut first: Option<(u64, u64)> = None;
        // (one clone serves all the requests: cloning a table of this size per request is what takes time)
        let mut one = big.clone();
        for i in 0..n_routes {
            evaluations += 1;
            let got = std::panic::catch_unwind(std::panic::AssertUnwindSafe(|| {
                let resp = futures::executor::block_on(tower::Service::call(&mut one, Request::new(Bytes::new()).with_route(format!("/item/{i}")))).unwrap();
                resp.headers().get("svc").and_then(|s| s.parse::<u64>().ok()).unwrap_or(0)
            }));
            match got {
                Ok(svc) if svc == i + 10 => {}
                Ok(svc) => {
                    wrong += 1;
                    first.get_or_insert((i, svc));
                }
                Err(_) => {
                    wrong += 1;
                    first.get_or_insert((i, u64::MAX));
                    one = big.clone();
                }
            }
        }
        if wrong > 0 {
            mismatches.push(json!({"what": format!("a table of {n_routes} exact routes: {wrong} paths reached another route's service (first: /item/{} -> service {})", first.unwrap().0, first.unwrap().1)}));
        }
    }
    // generated servers mounted through add_rpc_service: a request under /<service-name>/ reaches
    // that service (which answers something other than NotFound for a method it has), any other
    // route gets the router's NotFound
    {
        let r = crate::scenarios::codegen::generated_router();
        let body = Bytes::from(bincode::serialize(&crate::gen::Msg { a: 1, s: "hi".into() }).unwrap());
        for (path, own) in [("/Greeter/SayHello", true), ("/Greeter/Say", true), ("/p.q.Greeter/SayHello", true),
                            ("/.Greeter/SayHello", false), ("/Greeter", false), ("/q.Greeter/SayHello", false), ("/p.Empty", false),
                            ("Greeter/SayHello", false), ("//Greeter/SayHello", false),
                            // under a service's prefix only its methods' exact routes are routes
                            ("/Greeter//SayHello", false), ("/Greeter/v2/SayHello", false), ("/Greeter/../SayHello", false),
                            ("/Greeter/SayHello/", false), ("/Greeter/SayHello/SayHello", false), ("/Greeter/Say/SayHello", false),
                            ("/Greeter/sayhello", false), ("/Greeter/", false), ("/p.q.Greeter/x/SayHello", false),
                            ("/p.q.Greeter/Say", false), ("/Greeter/SayHello\0", false), ("/Greeter/ SayHello", false)] {
            evaluations += 1;
            let resp = futures::executor::block_on(r.clone().oneshot(Request::new(body.clone()).with_route(path)));
            let reached = matches!(&resp, Ok(x) if x.status() != StatusCode::NotFound);
            if reached != own {
                mismatches.push(json!({"what": format!("generated services: route {path:?} answered {:?}, expected {}", resp.map(|x| x.status()), if own { "its service" } else { "NotFound" })}));
            }
        }
    }
    // the same rule end to end: requests from a remote peer over two real networks reach the
    // router with the route the caller sent (the empty route included)
    {
        let rt = tokio::runtime::Builder::new_multi_thread().worker_threads(2).enable_all().build().unwrap();
        let probes: Vec<(String, u64)> = vec![
            ("".into(), 0), ("/".into(), 4), ("//".into(), 0), ("/a".into(), 1), ("/a/".into(), 0), ("a".into(), 0),
            ("/b/c".into(), 3), ("/b".into(), 0), ("/svc/".into(), 2), ("/svc".into(), 0), ("/svc/x/y".into(), 2),
            (format!("/svc/{}", "z".repeat(300)), 2), (" /a".into(), 0), ("/A".into(), 0),
        ];
        let server_router = router.clone();
        let res: Result<Vec<(String, u64, Option<u64>)>, String> = rt.block_on(async move {
            let server = anemo::Network::bind("127.0.0.1:0").server_name("net").private_key([71; 32]).start(server_router).map_err(|e| e.to_string())?;
            let client = anemo::Network::bind("127.0.0.1:0").server_name("net").private_key([72; 32]).start(Router::new()).map_err(|e| e.to_string())?;
            let peer = client.connect(server.local_addr()).await.map_err(|e| e.to_string())?;
            let mut out = Vec::new();
            for (path, want) in probes {
                let r = tokio::time::timeout(std::time::Duration::from_secs(10), client.rpc(peer, Request::new(Bytes::new()).with_route(path.clone()))).await;
                let got = match r {
                    Ok(Ok(resp)) if resp.status() == StatusCode::NotFound => Some(0),
                    Ok(Ok(resp)) => resp.headers().get("svc").and_then(|s| s.parse().ok()).or(Some(999)),
                    _ => None,
                };
                out.push((path, want, got));
            }
            let _ = client.shutdown().await;
            let _ = server.shutdown().await;
            Ok(out)
        });
        match res {
            Ok(rows) => {
                for (path, want, got) in rows {
                    evaluations += 1;
                    if got != Some(want) && mismatches.len() < 14 {
                        mismatches.push(json!({"what": format!("over the network: route {:?} ({} bytes) reached {got:?}, match rule says {want}", if path.len() > 40 { &path[..40] } else { &path }, path.len())}));
                    }
                }
            }
            Err(e) => mismatches.push(json!({"what": format!("network probe could not be set up: {e}")})),
        }
    }
    // unmatched routes of every shape get a NotFound *response* also when a frame limit is
    // configured and the route comes close to it
    {
        let rt = tokio::runtime::Builder::new_multi_thread().worker_threads(2).enable_all().build().unwrap();
        let server_router = router.clone();
        let probes: Vec<String> = vec![
            "/nope".into(), format!("/nope/{}", "x".repeat(900)), format!("/{}", "\u{1}".repeat(300)), format!("/{}", "\"".repeat(400)),
            format!("/svcx/{}", "é".repeat(450)), "x".repeat(980),
        ];
        let res: Result<Vec<(usize, String)>, String> = rt.block_on(async move {
            let mut cfg = anemo::Config::default();
            cfg.max_frame_size = Some(1024);
            let server = anemo::Network::bind("127.0.0.1:0").server_name("net").private_key([73; 32]).config(cfg.clone()).start(server_router).map_err(|e| e.to_string())?;
            let client = anemo::Network::bind("127.0.0.1:0").server_name("net").private_key([74; 32]).config(cfg).start(Router::new()).map_err(|e| e.to_string())?;
            let peer = client.connect(server.local_addr()).await.map_err(|e| e.to_string())?;
            let mut out = Vec::new();
            for path in probes {
                let r = tokio::time::timeout(std::time::Duration::from_secs(10), client.rpc(peer, Request::new(Bytes::new()).with_route(path.clone()))).await;
                out.push((path.len(), match r {
                    Ok(Ok(resp)) => format!("{:?}", resp.status()),
                    Ok(Err(e)) => format!("error: {e}"),
                    Err(_) => "hang".into(),
                }));
            }
            let _ = client.shutdown().await;
            let _ = server.shutdown().await;
            Ok(out)
        });
        match res {
            Ok(rows) => {
                for (len, got) in rows {
                    evaluations += 1;
                    if got != "NotFound" && mismatches.len() < 16 {
                        mismatches.push(json!({"what": format!("frame limit 1024: an unmatched route of {len} bytes was answered {got}, not with a NotFound response")}));
                    }
                }
            }
            Err(e) => mismatches.push(json!({"what": format!("network probe (frame limit) could not be set up: {e}")})),
        }
    }
    std::panic::set_hook(default_hook);
    print_summary(&json!({"replayed": behaviours.len(), "evaluations": evaluations, "mismatches": mismatches}));
    0
}
