//! Valid but unusual configurations, one per run and on one side only: a listener that accepts no
//! unidirectional streams, one bidirectional stream at a time, tiny flow-control windows, a
//! one-slot manager mailbox, a cap of one on connections being established, keep-alive on one
//! side only, ... Whatever the setting, the two nodes connect, list each other, answer RPCs in
//! both directions (several at once), stay connected through an idle period when either side sends
//! keep-alives, and shut down cleanly. Validated by AnemoConnTrace and AnemoRpcTrace.

use super::{run_many, Args};
use crate::scenarios::conn::{finish, settle};
use crate::scenarios::rpc::{spawn_call, Call};
use crate::sim::{self, base_config, quic, NodeCfg, Sim};
use anemo::Request;
use rand::Rng;
use serde_json::{json, Value};

async fn run(mut sim: Sim, seed: u64) -> Result<Value, String> {
    let keys = sim::sorted_keys(2, &mut sim.rng);
    let variant = (seed % 13) as usize;
    // node 0 is dialed (listener), node 1 dials; the odd setting goes to `odd_side`
    let odd_side = ((seed / 13) % 2) as usize;
    let mut names = Vec::new();
    for (i, k) in keys.iter().enumerate() {
        let mut c = base_config();
        quic(&mut c).max_idle_timeout_ms = Some(8_000);
        quic(&mut c).keep_alive_interval_ms = Some(2_000);
        let mut name = "plain";
        if variant == 12 {
            // keep-alive intervals above the idle timeout (they never get to fire; QUIC applies the
            // smaller of the two ends' idle timeouts): the idle timeout that was configured is the one
            // that applies
            quic(&mut c).max_idle_timeout_ms = Some(3_000);
            quic(&mut c).keep_alive_interval_ms = Some(if i == odd_side { 4_000 } else { 3_000 });
        }
        if i == odd_side {
            name = match variant {
                // a node that is only ever dialed needs no incoming uni stream (it sends the ack)
                0 if i == 0 => { quic(&mut c).max_concurrent_uni_streams = Some(0); "no-uni-streams-on-the-listener" }
                0 => { quic(&mut c).max_concurrent_uni_streams = Some(1); "one-uni-stream" }
                1 => { quic(&mut c).max_concurrent_bidi_streams = Some(1); "one-bidi-stream" }
                2 => { quic(&mut c).stream_receive_window = Some(1_024); "tiny-stream-window" }
                3 => { quic(&mut c).receive_window = Some(2_048); quic(&mut c).send_window = Some(1_024); "tiny-connection-windows" }
                4 => { c.connection_manager_channel_capacity = Some(1); "one-slot-mailbox" }
                5 => { c.max_concurrent_outstanding_connecting_connections = Some(1); "cap-1-connecting" }
                6 => { quic(&mut c).keep_alive_interval_ms = None; "keep-alive-on-the-other-side-only" }
                7 => { c.peer_event_broadcast_channel_capacity = Some(64); c.connectivity_check_interval_ms = Some(200); "fast-connectivity-check" }
                8 => { quic(&mut c).crypto_buffer_size = Some(4_096); "small-crypto-buffer" }
                9 => { quic(&mut c).socket_send_buffer_size = Some(65_536); quic(&mut c).socket_receive_buffer_size = Some(65_536); "socket-buffers" }
                10 => { c.max_concurrent_connections = Some(1); "limit-1" }
                12 => "keep-alive-above-the-idle-timeout",
                _ => { c.max_frame_size = Some(1 << 20); quic(&mut c).max_concurrent_uni_streams = Some(3); "frame-limit-and-3-uni" }
            };
        }
        names.push(name);
        sim.add_node(NodeCfg { key: *k, name: "net".into(), alt: None, config: c, bind: None }).map_err(|e| e.to_string())?;
    }
    sim.run.obs(-1, "obs.note", json!({"what": "oddcfg", "variant": names[odd_side], "side": odd_side}));
    for i in 0..2 {
        sim.subscribe(i).unwrap();
    }
    // node 1 dials node 0, with and without naming the identity it expects
    let expect = if sim.rng.gen_bool(0.5) { Some(sim.peer_id(0)) } else { None };
    sim.connect(1, sim.addr(0), expect).await.map_err(|e| format!("VIOLATION: with {} on node {odd_side} the dial failed: {e}", names[odd_side]))?;
    settle(&mut sim, 50).await;
    for round in 0..2 {
        let mut hs = Vec::new();
        for k in 0..6u64 {
            let (from, to) = if k % 2 == 0 { (0usize, 1usize) } else { (1, 0) };
            let nonce = sim.nonce();
            let mut req = Request::new(sim::body_for(nonce, [0usize, 300, 20_000, 150_000][(k % 4) as usize], 1)).with_route(format!("/odd{nonce}"));
            req.headers_mut().insert("delay-ms".into(), (k * 20).to_string());
            hs.push(spawn_call(&sim, Call { nonce, from, to, request: req, abandon_after: None, abandon_at: None, must_succeed: true }));
        }
        for h in hs {
            let _ = tokio::time::timeout(std::time::Duration::from_secs(900), h).await;
        }
        if round == 0 && variant == 12 {
            // the pair is cut off without a word: each side has reported the other lost when its own
            // (configured) idle timeout has passed; then the link is back and they connect again
            sim.run.fabric.partition(sim.addr(0), sim.addr(1));
            sim.run.obs(-1, "obs.fault", json!({"a": 0, "b": 1, "what": "silent"}));
            let since = sim.run.now_ms();
            // (observed 5.3 s after the cut: past the configured idle timeout by the 2 s the deadline rule
            // allows after the first datagram sent into the void, and before a timeout that was quietly
            // doubled - 6 s - would have run out)
            settle(&mut sim, 3_000 + 2_300).await;
            for (a, b) in [(0usize, 1usize), (1, 0)] {
                let listed = sim.net(a).peers().contains(&sim.peer_id(b));
                sim.run.obs(a as i64, "obs.silent_end", json!({"other": b, "since": since, "listed": listed}));
            }
            sim.run.fabric.heal_all();
            sim.run.obs(-1, "obs.fault", json!({"what": "healed"}));
            settle(&mut sim, 4_000).await;
            sim.connect(1, sim.addr(0), expect).await.map_err(|e| format!("VIOLATION: reconnecting after the cut failed: {e}"))?;
            settle(&mut sim, 50).await;
        } else if round == 0 {
            // an idle period longer than the idle timeout: a keep-alive on either side keeps it up
            settle(&mut sim, 12_000).await;
            sim.obs_all_peers();
        }
    }
    finish(&mut sim, 8_000).await;
    Ok(json!({"variant": names[odd_side], "side": odd_side}))
}

pub fn main(a: &Args) -> i32 {
    run_many(a, "oddcfg", move |seed, sim| run(sim, seed))
}
