//! Direct-drive replay (spec -> impl) of TLC behaviours into anemo-tower's layers with an explicit
//! executor: every step of a behaviour is performed on the real object and the observable state
//! is compared with the specification's state after that step.

use super::{print_summary, Args};
use anemo::{rpc::Status, types::response::StatusCode, PeerId, Request, Response};
use anemo_tower::inflight_limit::{InflightLimitLayer, WaitMode};
use bytes::Bytes;
use futures::future::BoxFuture;
use serde_json::{json, Value};
use std::{
    collections::HashMap,
    future::Future,
    pin::Pin,
    sync::{Arc, Mutex},
    task::{Context, Poll},
};
use tokio::sync::oneshot;
use tower::{Layer, Service};

type Fut = Pin<Box<dyn Future<Output = Result<Response<Bytes>, Status>> + Send>>;

/// The wrapped service: counts, per peer, the requests currently inside it; each request
/// finishes when the harness fires its oneshot.
#[derive(Clone, Default)]
pub struct Gauge {
    inner: Arc<Mutex<GaugeState>>,
}

#[derive(Default)]
struct GaugeState {
    inside: HashMap<u64, i64>,          // peer -> count
    entered: Vec<u64>,                  // request ids in order of entry
    finishers: HashMap<u64, oneshot::Sender<bool>>,
    max_seen: HashMap<u64, i64>,
}

struct InsideGuard {
    g: Arc<Mutex<GaugeState>>,
    peer: u64,
}

impl Drop for InsideGuard {
    fn drop(&mut self) {
        *self.g.lock().unwrap().inside.entry(self.peer).or_default() -= 1;
    }
}

impl Service<Request<Bytes>> for Gauge {
    type Response = Response<Bytes>;
    type Error = Status;
    type Future = BoxFuture<'static, Result<Response<Bytes>, Status>>;

    fn poll_ready(&mut self, _: &mut Context<'_>) -> Poll<Result<(), Status>> {
        Poll::Ready(Ok(()))
    }

    fn call(&mut self, req: Request<Bytes>) -> Self::Future {
        let rid: u64 = req.headers().get("rid").and_then(|v| v.parse().ok()).unwrap_or(0);
        let peer: u64 = req.headers().get("peer").and_then(|v| v.parse().ok()).unwrap_or(0);
        let (tx, rx) = oneshot::channel();
        {
            let mut g = self.inner.lock().unwrap();
            let c = g.inside.entry(peer).or_default();
            *c += 1;
            let now = *c;
            let m = g.max_seen.entry(peer).or_default();
            *m = (*m).max(now);
            g.entered.push(rid);
            g.finishers.insert(rid, tx);
        }
        let guard = InsideGuard {
            g: self.inner.clone(),
            peer,
        };
        Box::pin(async move {
            let _guard = guard;
            match rx.await {
                Ok(true) => Ok(Response::new(Bytes::from(format!("done {rid}")))),
                _ => Err(Status::new_with_message(StatusCode::BadRequest, format!("failed {rid}"))),
            }
        })
    }
}

/// Which byte of the identity distinguishes the peers of the behaviour being replayed: identities
/// are equal everywhere else, and the position moves from behaviour to behaviour, so a limiter
/// that looks at part of the identity only (a prefix, a suffix, a hash of some bytes) mixes peers up.
static ID_POS: std::sync::atomic::AtomicUsize = std::sync::atomic::AtomicUsize::new(0);

fn peer_id(p: u64) -> PeerId {
    let mut b = [0x5au8; 32];
    b[ID_POS.load(std::sync::atomic::Ordering::Relaxed) % 32] = p as u8;
    PeerId(b)
}

fn request(rid: u64, peer: u64) -> Request<Bytes> {
    let mut r = Request::new(Bytes::from(format!("req {rid}")))
        .with_header("rid", rid.to_string())
        .with_header("peer", peer.to_string());
    if peer != 0 {
        r = r.with_extension(peer_id(peer));
    }
    r
}

fn poll_once(f: &mut Fut) -> Poll<Result<Response<Bytes>, Status>> {
    let waker = futures::task::noop_waker();
    let mut cx = Context::from_waker(&waker);
    f.as_mut().poll(&mut cx)
}

/// What the harness can observe of one request.
fn classify(r: &Result<Response<Bytes>, Status>) -> &'static str {
    match r {
        Ok(_) => "ok",
        Err(s) => match s.status() {
            StatusCode::BadRequest => "err",
            StatusCode::TooManyRequests => "refused",
            StatusCode::InternalServerError => "internal",
            _ => "other",
        },
    }
}

/// spec states -> what is observable
fn observable(spec: &str) -> &str {
    match spec {
        "waiting" | "granted" => "pending",
        "running" => "running",
        other => other,
    }
}

pub fn replay_inflight(a: &Args) -> i32 {
    let behaviours: Vec<Value> =
        serde_json::from_str(&std::fs::read_to_string(a.str("file", "")).expect("behaviours")).unwrap();
    let max = a.u64("max", 1) as usize;
    let mode = if a.str("mode", "Block") == "Block" { WaitMode::Block } else { WaitMode::ReturnError };
    let peer_of: Vec<u64> = a.str("peer_of", "1,1,1,2,0").split(',').map(|x| x.parse().unwrap()).collect();
    let mut mismatches = Vec::new();
    let mut steps = 0u64;
    let prt = tokio::runtime::Builder::new_current_thread().enable_all().start_paused(true).build().unwrap();
    for (bi, beh) in behaviours.iter().enumerate() {
        ID_POS.store(bi * 7 + 31, std::sync::atomic::Ordering::Relaxed);
        let gauge = Gauge::default();
        let layer = InflightLimitLayer::new(max, mode);
        // every fifth behaviour runs behind a second, lenient limiter of the same kind further out in the
        // stack (a generous per-peer ceiling for the whole node around a strict one for this service):
        // each limiter counts for itself, so the strict one decides exactly as it does alone
        let outer = InflightLimitLayer::new(64, mode);
        let stacked = bi % 5 == 1;
        // requests go through clones of the layered service, as connections do
        let mut services: Vec<tower::util::BoxCloneService<Request<Bytes>, Response<Bytes>, Status>> = (0..3)
            .map(|_| {
                if stacked {
                    tower::util::BoxCloneService::new(outer.layer(layer.layer(gauge.clone())))
                } else {
                    tower::util::BoxCloneService::new(layer.layer(gauge.clone()))
                }
            })
            .collect();
        let mut futs: HashMap<u64, Fut> = HashMap::new();
        let mut results: HashMap<u64, &'static str> = HashMap::new();
        let mut fail = None;
        // every third behaviour: the requests carry a deadline of their own (50 ms) and 80 ms pass on the
        // runtime's clock after every step, whereupon the requests that wait for a slot are polled again:
        // a request's deadline is the timeout middleware's business - here it still waits for its slot
        let timed = bi % 3 == 2;
        let _entered = timed.then(|| prt.enter());
        // a layer that has been in service for a while: thousands of other peers have come and gone
        // (one finished request each) before the peers of this behaviour show up; what the layer
        // remembers of them must not change anything for anybody else
        if bi % 25 == 3 {
            let n = a.u64("preload", 4_200);
            for i in 0..n {
                let rid = 1_000_000 + i;
                let mut id = [0xa5u8; 32];
                id[..8].copy_from_slice(&(i.wrapping_mul(0x9e37_79b9_7f4a_7c15)).to_le_bytes());
                id[24..].copy_from_slice(&i.to_be_bytes());
                let req = Request::new(Bytes::new())
                    .with_header("rid", rid.to_string())
                    .with_header("peer", (10_000 + i).to_string())
                    .with_extension(PeerId(id));
                let mut f: Fut = Box::pin(services[(i % 3) as usize].call(req));
                let _ = poll_once(&mut f);
                let tx = gauge.inner.lock().unwrap().finishers.remove(&rid);
                if let Some(tx) = tx {
                    let _ = tx.send(true);
                    let _ = poll_once(&mut f);
                }
                drop(f);
            }
        }
        for (si, step) in beh.as_array().unwrap().iter().enumerate() {
            steps += 1;
            let act = step["act"].as_str().unwrap();
            let r = step["r"].as_u64().unwrap();
            let peer = peer_of[(r - 1) as usize];
            match act {
                "arrive" => {
                    let svc = &mut services[(r as usize) % 3];
                    let mut req = request(r, peer);
                    if timed {
                        req.set_timeout(std::time::Duration::from_millis(50));
                    }
                    let mut f: Fut = Box::pin(svc.call(req));
                    match poll_once(&mut f) {
                        Poll::Ready(res) => {
                            results.insert(r, classify(&res));
                        }
                        Poll::Pending => {
                            futs.insert(r, f);
                        }
                    }
                }
                "poll" => {
                    if let Some(f) = futs.get_mut(&r) {
                        if let Poll::Ready(res) = poll_once(f) {
                            results.insert(r, classify(&res));
                            futs.remove(&r);
                        }
                    }
                }
                "leave" => {
                    let ok = step["arg"] == "ok";
                    let tx = gauge.inner.lock().unwrap().finishers.remove(&r);
                    match tx {
                        Some(tx) => {
                            let _ = tx.send(ok);
                        }
                        None => {
                            fail = Some(format!("step {si}: request {r} should be running but never entered the service"));
                            break;
                        }
                    }
                    if let Some(f) = futs.get_mut(&r) {
                        if let Poll::Ready(res) = poll_once(f) {
                            results.insert(r, classify(&res));
                            futs.remove(&r);
                        }
                    }
                }
                "cancel" => {
                    futs.remove(&r);
                    gauge.inner.lock().unwrap().finishers.remove(&r);
                    results.insert(r, "cancelled");
                }
                _ => {}
            }
            // compare with the specification's state after this step
            let post = &step["post"];
            if timed {
                prt.block_on(tokio::time::advance(std::time::Duration::from_millis(80)));
                for (ri, s) in post["st"].as_array().unwrap().iter().enumerate() {
                    let rid = ri as u64 + 1;
                    if s == "waiting" {
                        if let Some(f) = futs.get_mut(&rid) {
                            if let Poll::Ready(res) = poll_once(f) {
                                results.insert(rid, classify(&res));
                                futs.remove(&rid);
                            }
                        }
                    }
                }
            }
            let g = gauge.inner.lock().unwrap();
            let mut peers: Vec<u64> = peer_of.iter().copied().filter(|p| *p != 0).collect();
            peers.sort();
            peers.dedup();
            for (pi, p) in peers.iter().enumerate() {
                let want = post["running"][pi].as_i64().unwrap();
                let got = g.inside.get(p).copied().unwrap_or(0);
                if want != got {
                    fail = Some(format!("step {si} ({act} r{r}): peer {p} has {got} requests inside the service, specification says {want}"));
                }
            }
            for (ri, s) in post["st"].as_array().unwrap().iter().enumerate() {
                let rid = ri as u64 + 1;
                let want = observable(s.as_str().unwrap());
                let got: &str = if let Some(x) = results.get(&rid) {
                    x
                } else if futs.contains_key(&rid) {
                    if g.finishers.contains_key(&rid) { "running" } else { "pending" }
                } else {
                    "new"
                };
                if want != got {
                    fail = Some(format!("step {si} ({act} r{r}): request {rid} is {got}, specification says {want}"));
                }
            }
            drop(g);
            if fail.is_some() {
                break;
            }
        }
        if let Some(f) = fail {
            if mismatches.len() < 5 {
                mismatches.push(json!({"behaviour": bi, "what": f, "steps": beh}));
            }
        }
    }
    print_summary(&json!({"replayed": behaviours.len(), "steps": steps, "mismatches": mismatches, "evaluations": behaviours.len()}));
    0
}

//
// C20: RequireAuthorization
//

use anemo_tower::auth::{AllowedPeers, RequireAuthorizationLayer};

type AuthFut = Pin<Box<dyn Future<Output = Result<Response<Bytes>, std::convert::Infallible>> + Send>>;

#[derive(Clone, Default)]
struct Recorder {
    invoked: Arc<Mutex<Vec<u64>>>,
    finishers: Arc<Mutex<HashMap<u64, oneshot::Sender<()>>>>,
    hold: bool,
}

impl Service<Request<Bytes>> for Recorder {
    type Response = Response<Bytes>;
    type Error = std::convert::Infallible;
    type Future = BoxFuture<'static, Result<Response<Bytes>, std::convert::Infallible>>;
    fn poll_ready(&mut self, _: &mut Context<'_>) -> Poll<Result<(), Self::Error>> {
        Poll::Ready(Ok(()))
    }
    fn call(&mut self, req: Request<Bytes>) -> Self::Future {
        let rid: u64 = req.headers().get("rid").and_then(|v| v.parse().ok()).unwrap_or(0);
        self.invoked.lock().unwrap().push(rid);
        let body = req.into_body();
        if self.hold {
            let (tx, rx) = oneshot::channel();
            self.finishers.lock().unwrap().insert(rid, tx);
            Box::pin(async move {
                let _ = rx.await;
                Ok(Response::new(body).with_header("from", "inner"))
            })
        } else {
            Box::pin(async move { Ok(Response::new(body).with_header("from", "inner")) })
        }
    }
}

fn poll_auth(f: &mut AuthFut) -> Poll<Result<Response<Bytes>, std::convert::Infallible>> {
    let waker = futures::task::noop_waker();
    let mut cx = Context::from_waker(&waker);
    f.as_mut().poll(&mut cx)
}

const REFUSAL_STATUS: [StatusCode; 5] = [StatusCode::TooManyRequests, StatusCode::Success, StatusCode::NotFound,
                                         StatusCode::BadRequest, StatusCode::InternalServerError];

pub fn replay_auth(a: &Args) -> i32 {
    let tables: Value =
        serde_json::from_str(&std::fs::read_to_string(a.str("table", "")).expect("table")).unwrap();
    let rows: Vec<Value> = tables["allowlist"].as_array().unwrap().clone();
    let behaviours: Vec<Value> =
        serde_json::from_str(&std::fs::read_to_string(a.str("file", "")).expect("behaviours")).unwrap();
    let mut mismatches = Vec::new();
    let mut evaluations = 0u64;
    // what else a request may carry: every inbound request has the connection's origin and the
    // direction attached
    let with_extra = |mut req: Request<Bytes>, extra: &str| -> Request<Bytes> {
        if extra.contains("origin-in") {
            req = req.with_extension(anemo::ConnectionOrigin::Inbound);
        }
        if extra.contains("origin-out") {
            req = req.with_extension(anemo::ConnectionOrigin::Outbound);
        }
        if extra.contains("direction-in") {
            req = req.with_extension(anemo::Direction::Inbound);
        }
        if extra.contains("direction-out") {
            req = req.with_extension(anemo::Direction::Outbound);
        }
        req
    };
    // allow-lists of every size, in every order
    for (ri, row) in tables["auth_sizes"].as_array().unwrap().iter().enumerate() {
        ID_POS.store(ri * 5 + 2, std::sync::atomic::Ordering::Relaxed);
        evaluations += 1;
        let n = row["n"].as_u64().unwrap();
        let mut list: Vec<u64> = (1..=n).collect();
        match row["order"].as_str().unwrap() {
            "desc" => list.reverse(),
            "scrambled" => list.sort_by_key(|k| (k * 7919 + 13) % 31),
            _ => {}
        }
        let sender = row["sender"].as_u64().unwrap();
        let rec = Recorder::default();
        let rid = 9000 + ri as u64;
        let mut req = Request::new(Bytes::from(format!("payload-{rid}"))).with_header("rid", rid.to_string());
        if sender != 0 {
            req = req.with_extension(peer_id(sender));
        }
        let mut svc = RequireAuthorizationLayer::new(AllowedPeers::new(list.iter().map(|k| peer_id(*k)))).layer(rec.clone());
        let mut f: AuthFut = Box::pin(svc.call(req));
        let got = match poll_auth(&mut f) {
            Poll::Ready(Ok(res)) => {
                let invoked = rec.invoked.lock().unwrap().contains(&rid);
                match (res.status(), invoked) {
                    (StatusCode::Success, true) => "pass",
                    (StatusCode::NotFound, false) => "NotFound",
                    (StatusCode::InternalServerError, false) => "InternalServerError",
                    _ => "other",
                }
            }
            _ => "not ready",
        };
        if got != row["verdict"].as_str().unwrap() && mismatches.len() < 5 {
            mismatches.push(json!({"table": "auth_sizes", "row": row, "got": got}));
        }
    }
    // stacked layers and extra extensions
    for (ti, table) in ["auth_stack", "auth_extra"].iter().enumerate() {
        for (ri, row) in tables[*table].as_array().unwrap().iter().enumerate() {
            ID_POS.store(ri * 3 + ti, std::sync::atomic::Ordering::Relaxed);
            evaluations += 1;
            let ids = |v: &Value| -> Vec<PeerId> { v.as_array().unwrap().iter().map(|x| peer_id(x.as_u64().unwrap())).collect() };
            let sender = row["sender"].as_u64().unwrap();
            let want = row["verdict"].as_str().unwrap();
            let rec = Recorder::default();
            let rid = 500 + ri as u64;
            let mut req = Request::new(Bytes::from(format!("payload-{rid}"))).with_header("rid", rid.to_string());
            if sender != 0 {
                req = req.with_extension(peer_id(sender));
            }
            req = with_extra(req, row["extra"].as_str().unwrap());
            let mut f: AuthFut = if *table == "auth_stack" {
                let inner = RequireAuthorizationLayer::new(AllowedPeers::new(ids(&row["inner"]))).layer(rec.clone());
                let mut svc = RequireAuthorizationLayer::new(AllowedPeers::new(ids(&row["outer"]))).layer(inner);
                Box::pin(svc.call(req))
            } else {
                let mut svc = RequireAuthorizationLayer::new(AllowedPeers::new(ids(&row["allow"]))).layer(rec.clone());
                Box::pin(svc.call(req))
            };
            let res = match poll_auth(&mut f) {
                Poll::Ready(Ok(r)) => r,
                _ => {
                    mismatches.push(json!({"row": row, "what": "response not ready"}));
                    continue;
                }
            };
            let invoked = rec.invoked.lock().unwrap().contains(&rid);
            let got = match (res.status(), invoked) {
                (StatusCode::Success, true) if res.headers().get("from").map(|s| s.as_str()) == Some("inner") => "pass",
                (StatusCode::NotFound, false) if res.body().is_empty() => "NotFound",
                (StatusCode::InternalServerError, false) if res.body().is_empty() => "InternalServerError",
                _ => "other",
            };
            if got != want && mismatches.len() < 5 {
                mismatches.push(json!({"table": table, "row": row, "got": got, "status": res.status().to_u16(), "invoked": invoked}));
            }
        }
    }
    // allow-list table, each row through a fresh layer and again through a clone
    for row in &rows {
        let allow: Vec<PeerId> = row["allow"].as_array().unwrap().iter().map(|x| peer_id(x.as_u64().unwrap())).collect();
        let sender = row["sender"].as_u64().unwrap();
        let want = row["verdict"].as_str().unwrap();
        let rec = Recorder::default();
        let layer = RequireAuthorizationLayer::new(AllowedPeers::new(allow));
        let svc = layer.layer(rec.clone());
        for (k, mut s) in [svc.clone(), svc].into_iter().enumerate() {
            evaluations += 1;
            let rid = 100 + k as u64;
            let mut req = Request::new(Bytes::from(format!("payload-{rid}"))).with_header("rid", rid.to_string());
            if sender != 0 {
                req = req.with_extension(peer_id(sender));
            }
            let mut f: AuthFut = Box::pin(s.call(req));
            let res = match poll_auth(&mut f) {
                Poll::Ready(Ok(r)) => r,
                _ => {
                    mismatches.push(json!({"row": row, "what": "response not ready"}));
                    continue;
                }
            };
            let invoked = rec.invoked.lock().unwrap().contains(&rid);
            let got = match (res.status(), invoked) {
                (StatusCode::Success, true) if res.headers().get("from").map(|s| s.as_str()) == Some("inner")
                    && res.body() == &Bytes::from(format!("payload-{rid}")) => "pass",
                (StatusCode::NotFound, false) if res.body().is_empty() => "NotFound",
                (StatusCode::InternalServerError, false) if res.body().is_empty() => "InternalServerError",
                _ => "other",
            };
            if got != want && mismatches.len() < 5 {
                mismatches.push(json!({"row": row, "got": got, "status": res.status().to_u16(), "invoked": invoked}));
            }
        }
    }
    // scripted authorizer, concurrent requests through clones
    for (bi, beh) in behaviours.iter().enumerate() {
        ID_POS.store(bi * 7 + 31, std::sync::atomic::Ordering::Relaxed);
        evaluations += 1;
        let rec = Recorder { hold: true, ..Default::default() };
        let layer = RequireAuthorizationLayer::new(|req: &mut Request<Bytes>| {
            let rid = req.headers().get("rid").cloned().unwrap_or_default();
            if req.headers().get("verdict").map(|s| s.as_str()) == Some("ok") {
                Ok(())
            } else {
                // the refusal is the authorizer's to word: any status (success included), body, headers
                let n: u64 = rid.parse().unwrap_or(0);
                Err(Response::new(Bytes::from(format!("denied-{rid}")))
                    .with_status(REFUSAL_STATUS[(n % REFUSAL_STATUS.len() as u64) as usize])
                    .with_header("why", format!("policy-{rid}")))
            }
        });
        let base = layer.layer(rec.clone());
        let mut clones = [base.clone(), base];
        let mut futs: HashMap<u64, AuthFut> = HashMap::new();
        let mut state: HashMap<u64, &'static str> = HashMap::new();
        let mut fail = None;
        for (si, step) in beh.as_array().unwrap().iter().enumerate() {
            let r = step["r"].as_u64().unwrap();
            match step["act"].as_str().unwrap() {
                "call" => {
                    let v = step["arg"].as_str().unwrap();
                    // requests come from two peers (the verdict is per request, not per sender)
                    let req = Request::new(Bytes::from(format!("payload-{r}")))
                        .with_header("rid", r.to_string())
                        .with_header("verdict", v)
                        .with_extension(peer_id(1 + r % 2));
                    let mut f: AuthFut = Box::pin(clones[(r % 2) as usize].call(req));
                    match poll_auth(&mut f) {
                        Poll::Ready(Ok(res)) => {
                            let exact = res.status() == REFUSAL_STATUS[(r % REFUSAL_STATUS.len() as u64) as usize]
                                && res.body() == &Bytes::from(format!("denied-{r}"))
                                && res.headers().len() == 1
                                && res.headers().get("why") == Some(&format!("policy-{r}"));
                            state.insert(r, if exact { "refused" } else { "wrong-response" });
                        }
                        Poll::Ready(Err(e)) => match e {},
                        Poll::Pending => {
                            state.insert(r, "inside");
                            futs.insert(r, f);
                        }
                    }
                }
                "finish" => {
                    if let Some(tx) = rec.finishers.lock().unwrap().remove(&r) {
                        let _ = tx.send(());
                    }
                    if let Some(mut f) = futs.remove(&r) {
                        match poll_auth(&mut f) {
                            Poll::Ready(Ok(res)) if res.status() == StatusCode::Success
                                && res.body() == &Bytes::from(format!("payload-{r}")) => {
                                state.insert(r, "done");
                            }
                            _ => {
                                state.insert(r, "bad-finish");
                            }
                        }
                    }
                }
                _ => {}
            }
            let post = &step["post"];
            let mut inv: Vec<u64> = rec.invoked.lock().unwrap().clone();
            inv.sort();
            let mut want_inv: Vec<u64> = post["invoked"].as_array().unwrap().iter().map(|x| x.as_u64().unwrap()).collect();
            want_inv.sort();
            if inv != want_inv {
                fail = Some(format!("step {si}: wrapped service invoked for {inv:?}, specification says {want_inv:?}"));
            }
            for (ri, s) in post["st"].as_array().unwrap().iter().enumerate() {
                let rid = ri as u64 + 1;
                let got = state.get(&rid).copied().unwrap_or("new");
                if got != s.as_str().unwrap() {
                    fail = Some(format!("step {si}: request {rid} is {got}, specification says {s}"));
                }
            }
            if fail.is_some() {
                break;
            }
        }
        if let Some(f) = fail {
            if mismatches.len() < 5 {
                mismatches.push(json!({"behaviour": bi, "what": f, "steps": beh}));
            }
        }
    }
    // an authorizer may do more than look: one that authenticates the request attaches, replaces or
    // removes the sender identity when it accepts; accepted is accepted - the service is invoked, with
    // the request as the authorizer left it
    for (vi, variant) in ["attach", "replace", "remove"].iter().enumerate() {
        evaluations += 1;
        ID_POS.store(vi * 11 + 5, std::sync::atomic::Ordering::Relaxed);
        let rec = Recorder::default();
        let v = variant.to_string();
        let layer = RequireAuthorizationLayer::new(move |req: &mut Request<Bytes>| {
            match v.as_str() {
                "attach" | "replace" => {
                    req.extensions_mut().insert(peer_id(7));
                }
                _ => {
                    req.extensions_mut().remove::<PeerId>();
                }
            }
            Ok::<(), Response<Bytes>>(())
        });
        let mut svc = layer.layer(rec.clone());
        let rid = 7000 + vi as u64;
        let mut req = Request::new(Bytes::from(format!("payload-{rid}"))).with_header("rid", rid.to_string());
        if *variant != "attach" {
            req = req.with_extension(peer_id(3));
        }
        let mut f: AuthFut = Box::pin(svc.call(req));
        let ok = matches!(poll_auth(&mut f), Poll::Ready(Ok(res)) if res.status() == StatusCode::Success)
            && rec.invoked.lock().unwrap().contains(&rid);
        if !ok {
            mismatches.push(json!({"what": format!("an authorizer that accepts and {variant}s the sender identity: the wrapped service was not invoked / the caller did not get its answer")}));
        }
    }
    // many refusals in a row from one task of a runtime (a connection's requests handled in one task, a
    // batch job): every one of them is the authorizer's response, nothing panics
    {
        evaluations += 1;
        let rt = tokio::runtime::Builder::new_current_thread().enable_all().build().unwrap();
        let rec = Recorder::default();
        let layer = RequireAuthorizationLayer::new(|req: &mut Request<Bytes>| {
            let rid = req.headers().get("rid").cloned().unwrap_or_default();
            Err::<(), _>(Response::new(Bytes::from(format!("denied-{rid}"))).with_status(StatusCode::NotFound).with_header("why", format!("policy-{rid}")))
        });
        let svc = layer.layer(rec.clone());
        let res = std::panic::catch_unwind(std::panic::AssertUnwindSafe(|| {
            rt.block_on(async move {
                tokio::spawn(async move {
                    let mut bad = 0u32;
                    let mut clones = [svc.clone(), svc];
                    for r in 0..400u64 {
                        let req = Request::new(Bytes::new()).with_header("rid", r.to_string()).with_extension(peer_id(1 + r % 2));
                        match clones[(r % 2) as usize].call(req).await {
                            Ok(res) if res.status() == StatusCode::NotFound && res.body() == &Bytes::from(format!("denied-{r}"))
                                && res.headers().get("why") == Some(&format!("policy-{r}")) => {}
                            _ => bad += 1,
                        }
                    }
                    bad
                })
                .await
            })
        }));
        match res {
            Ok(Ok(0)) => {}
            Ok(Ok(bad)) => mismatches.push(json!({"what": format!("{bad} of 400 refusals issued back to back from one task were not the authorizer's response")})),
            _ => mismatches.push(json!({"what": "400 refusals issued back to back from one task of a tokio runtime: the layer panicked"})),
        }
        if !rec.invoked.lock().unwrap().is_empty() {
            mismatches.push(json!({"what": "refused requests reached the wrapped service"}));
        }
    }
    print_summary(&json!({"rows": rows.len(), "replayed": behaviours.len(), "evaluations": evaluations, "mismatches": mismatches}));
    0
}

//
// C19: RateLimit
//

use anemo_tower::rate_limit::{RateLimitLayer, WaitMode as RateWaitMode, WAIT_NANOS_HEADER};

#[derive(Clone, Default)]
struct Counting {
    reached: Arc<Mutex<Vec<(u64, u64, std::time::Instant)>>>, // (key, rid, when)
}

impl Service<Request<Bytes>> for Counting {
    type Response = Response<Bytes>;
    type Error = Status;
    type Future = BoxFuture<'static, Result<Response<Bytes>, Status>>;
    fn poll_ready(&mut self, _: &mut Context<'_>) -> Poll<Result<(), Status>> {
        Poll::Ready(Ok(()))
    }
    fn call(&mut self, req: Request<Bytes>) -> Self::Future {
        let rid: u64 = req.headers().get("rid").and_then(|v| v.parse().ok()).unwrap_or(0);
        let key: u64 = req.headers().get("peer").and_then(|v| v.parse().ok()).unwrap_or(0);
        self.reached.lock().unwrap().push((key, rid, std::time::Instant::now()));
        if req.headers().contains_key("hold") {
            // a request whose caller will hang up before there is an answer
            return Box::pin(futures::future::pending());
        }
        Box::pin(async move { Ok(Response::new(Bytes::new())) })
    }
}

/// A wrapped service that exerts back-pressure: not ready until the gate opens (the limiter must
/// not bank permits for requests it cannot hand over yet and release them all at once).
#[derive(Clone)]
struct GatedCounting {
    inner: Counting,
    open: Arc<std::sync::atomic::AtomicBool>,
    wakers: Arc<Mutex<Vec<std::task::Waker>>>,
}

impl Service<Request<Bytes>> for GatedCounting {
    type Response = Response<Bytes>;
    type Error = Status;
    type Future = BoxFuture<'static, Result<Response<Bytes>, Status>>;
    fn poll_ready(&mut self, cx: &mut Context<'_>) -> Poll<Result<(), Status>> {
        if self.open.load(std::sync::atomic::Ordering::SeqCst) {
            Poll::Ready(Ok(()))
        } else {
            self.wakers.lock().unwrap().push(cx.waker().clone());
            Poll::Pending
        }
    }
    fn call(&mut self, req: Request<Bytes>) -> Self::Future {
        self.inner.call(req)
    }
}

/// (i) exact replay: every arrival pattern at "time 0" emitted by TLC, against a limiter whose
/// period is an hour (so real time does not matter): verdicts must match exactly, a refusal must
/// carry a positive wait-nanos hint no longer than burst x period, a refused request must not
/// reach the service. (ii) timed runs with sound bounds, written as a trace for AnemoRateTrace.
pub fn replay_rate(a: &Args) -> i32 {
    let behaviours: Vec<Value> =
        serde_json::from_str(&std::fs::read_to_string(a.str("file", "")).expect("behaviours")).unwrap();
    let burst = a.u64("burst", 2) as u32;
    let rt = tokio::runtime::Builder::new_multi_thread().worker_threads(4).enable_all().build().unwrap();
    let mut mismatches = Vec::new();
    let mut evaluations = 0u64;
    let period = std::time::Duration::from_secs(3600);
    for (bi, beh) in behaviours.iter().enumerate() {
        ID_POS.store(bi * 7 + 31, std::sync::atomic::Ordering::Relaxed);
        evaluations += 1;
        let quota = governor::Quota::with_period(period)
            .unwrap()
            .allow_burst(std::num::NonZeroU32::new(burst).unwrap());
        let counting = Counting::default();
        let layer = RateLimitLayer::new(quota, RateWaitMode::ReturnError);
        let mut clones = [layer.layer(counting.clone()), layer.layer(counting.clone())];
        let mut fail = None;
        // a limiter that has been in service for a while: thousands of other peers have each spent part
        // of their own quota (their state is live for the next hour); nobody else's verdicts change
        if bi % 25 == 3 {
            for i in 0..a.u64("preload", 4_200) {
                let mut id = [0xa5u8; 32];
                id[..8].copy_from_slice(&(i.wrapping_mul(0x9e37_79b9_7f4a_7c15)).to_le_bytes());
                id[24..].copy_from_slice(&i.to_be_bytes());
                let req = Request::new(Bytes::new()).with_header("rid", (1_000_000 + i).to_string()).with_extension(PeerId(id));
                let _ = rt.block_on(clones[(i % 2) as usize].call(req));
            }
        }
        for (si, step) in beh.as_array().unwrap().iter().enumerate() {
            let key = step["k"].as_u64().unwrap();
            let want = step["admit"].as_bool().unwrap();
            let rid = si as u64 + 1;
            // what else a request carries (the connection's origin and the direction, as every inbound
            // request does) plays no part in the decision
            let mut req = request(rid, key);
            match (bi + si) % 4 {
                1 => req = req.with_extension(anemo::ConnectionOrigin::Inbound).with_extension(anemo::Direction::Inbound),
                2 => req = req.with_extension(anemo::ConnectionOrigin::Outbound).with_extension(anemo::Direction::Inbound),
                3 => req = req.with_extension(anemo::ConnectionOrigin::Outbound),
                _ => {}
            }
            // "dropped": the request is admitted and handed to the wrapped service, which is still at it
            // when the caller hangs up (the future is dropped) - the cell it took stays taken
            let dropped = step["fate"] == "dropped";
            if dropped {
                req.headers_mut().insert("hold".into(), "1".into());
            }
            let mut fut = Box::pin(clones[si % 2].call(req));
            let res = if dropped {
                let polled = rt.block_on(futures::future::poll_fn(|cx| Poll::Ready(fut.as_mut().poll(cx))));
                drop(fut);
                match polled {
                    Poll::Ready(r) => r,                                 // answered (a refusal, or the service was skipped)
                    Poll::Pending => Ok(Response::new(Bytes::new())),    // still inside the service when dropped
                }
            } else {
                rt.block_on(fut)
            };
            let reached = counting.reached.lock().unwrap().iter().any(|(_, r, _)| *r == rid);
            match res {
                Ok(_) => {
                    if !want || !reached {
                        fail = Some(format!("step {si}: key {key} admitted (reached={reached}), specification says admit={want}"));
                    }
                }
                Err(s) => {
                    let status = s.status();
                    let hint = wire_hint(s);
                    let ok_hint = matches!(hint, Some(h) if h > 0 && h <= period.as_nanos() * burst as u128);
                    if want || reached || status != StatusCode::TooManyRequests || !ok_hint {
                        fail = Some(format!(
                            "step {si}: key {key} refused with status {:?} hint {hint:?} reached={reached}, specification says admit={want}",
                            status
                        ));
                    }
                }
            }
            if fail.is_some() {
                break;
            }
        }
        if let Some(f) = fail {
            if mismatches.len() < 5 {
                mismatches.push(json!({"behaviour": bi, "what": f, "steps": beh}));
            }
        }
    }
    // Block mode waits for the limiter, not for anything else: with the quota's period at one hour a
    // request over quota is still parked after tokio's (paused, auto-advancing) clock has run two hours
    // ahead - the limiter's own clock, the one the quota is defined on, has not moved
    {
        evaluations += 1;
        let prt = tokio::runtime::Builder::new_current_thread().enable_all().start_paused(true).build().unwrap();
        let quota = governor::Quota::with_period(period).unwrap();
        let counting = Counting::default();
        let layer = RateLimitLayer::new(quota, RateWaitMode::Block);
        let reached_early = prt.block_on(async {
            let mut a = layer.layer(counting.clone());
            let _ = a.call(request(1, 1)).await;
            let mut b = layer.layer(counting.clone());
            let parked = tokio::spawn(async move { b.call(request(2, 1)).await.is_ok() });
            tokio::time::sleep(std::time::Duration::from_secs(7200)).await;
            let n = counting.reached.lock().unwrap().len();
            parked.abort();
            n
        });
        if reached_early != 1 {
            mismatches.push(json!({"what": format!("Block mode, quota 1 per hour: {reached_early} requests of one peer reached the service although the limiter's clock has not moved (only the first may)")}));
        }
    }
    // missing sender
    {
        let quota = governor::Quota::with_period(period).unwrap();
        let counting = Counting::default();
        let mut svc = RateLimitLayer::new(quota, RateWaitMode::ReturnError).layer(counting.clone());
        let res = rt.block_on(svc.call(request(1, 0)));
        let ok = matches!(&res, Err(s) if s.status() == StatusCode::InternalServerError) && counting.reached.lock().unwrap().is_empty();
        evaluations += 1;
        if !ok {
            mismatches.push(json!({"what": "request without sender identity was not answered InternalServerError / reached the service"}));
        }
    }
    // (ii) timed runs: both modes, several keys, concurrent tasks; one trace line per admission
    let out = a.str("out", "/verif/work/rate");
    let mut lines: Vec<Value> = Vec::new();
    let mut run_id = 0;
    let timed_runs = a.u64("timed", 4);
    for mode in [RateWaitMode::Block, RateWaitMode::ReturnError] {
        for k in 0..timed_runs {
            run_id += 1;
            let period_ms = [20u64, 35, 50, 80][(k % 4) as usize];
            let b = 1 + (k % 3) as u32;
            let quota = governor::Quota::with_period(std::time::Duration::from_millis(period_ms))
                .unwrap()
                .allow_burst(std::num::NonZeroU32::new(b).unwrap());
            let counting = Counting::default();
            let layer = RateLimitLayer::new(quota, mode);
            let epoch = std::time::Instant::now();
            let per_key = 12u64;
            let keys = 3u64;
            let block = matches!(mode, RateWaitMode::Block);
            lines.push(json!({"ev": "reset", "run": run_id, "period_us": period_ms * 1000, "burst": b,
                              "mode": if block { "Block" } else { "ReturnError" }, "per_key": per_key}));
            let results: Vec<(u64, u64, u128, bool, Option<u128>)> = rt.block_on(async {
                let mut hs = Vec::new();
                for key in 1..=keys {
                    for i in 0..per_key {
                        let mut svc = layer.layer(counting.clone());
                        hs.push(tokio::spawn(async move {
                            // staggered arrivals
                            tokio::time::sleep(std::time::Duration::from_millis((i * 7 + key * 3) % 60)).await;
                            let rid = key * 1000 + i;
                            let lo = epoch.elapsed().as_micros();
                            let res = svc.call(request(rid, key)).await;
                            let ok = res.is_ok();
                            let hint = res.err().and_then(wire_hint);
                            (key, rid, lo, ok, hint)
                        }));
                    }
                }
                let mut out = Vec::new();
                for h in hs {
                    out.push(h.await.unwrap());
                }
                out
            });
            let reached = counting.reached.lock().unwrap().clone();
            let mut adm: Vec<Value> = Vec::new();
            for (key, rid, lo, ok, hint) in &results {
                let hi = reached.iter().find(|(_, r, _)| r == rid).map(|(_, _, t)| t.duration_since(epoch).as_micros());
                if *ok != hi.is_some() {
                    mismatches.push(json!({"what": format!("request {rid}: result ok={ok} but reached service={}", hi.is_some())}));
                }
                if !*ok && !matches!(hint, Some(h) if *h > 0) {
                    mismatches.push(json!({"what": format!("request {rid} refused without a positive wait-nanos hint: {hint:?}")}));
                }
                if let Some(hi) = hi {
                    adm.push(json!({"ev": "admit", "key": key, "lo": *lo as u64, "hi": hi as u64}));
                }
            }
            adm.sort_by_key(|v| v["hi"].as_u64());
            let n_adm = adm.len() as u64;
            lines.extend(adm);
            lines.push(json!({"ev": "end", "admitted": n_adm, "requests": per_key * keys,
                              "elapsed_us": epoch.elapsed().as_micros() as u64}));
            evaluations += per_key * keys;
        }
    }
    // first contact: every request of a never-seen peer arrives at the same instant on a
    // multi-thread runtime (where per-peer state is created); with a 1000 s period exactly
    // min(burst, requests) of each peer's requests may get through
    for k in 0..a.u64("bursts", 20) {
        run_id += 1;
        let b = 1 + (k % 3) as u32;
        let period_us = 1_000_000_000u64;
        let quota = governor::Quota::with_period(std::time::Duration::from_micros(period_us)).unwrap()
            .allow_burst(std::num::NonZeroU32::new(b).unwrap());
        let counting = Counting::default();
        let layer = RateLimitLayer::new(quota, RateWaitMode::ReturnError);
        let epoch = std::time::Instant::now();
        ID_POS.store((k as usize) * 5 + 3, std::sync::atomic::Ordering::Relaxed);
        let tasks = 8u64;
        lines.push(json!({"ev": "reset", "run": run_id, "period_us": period_us, "burst": b, "mode": "ReturnError", "per_key": tasks / 2}));
        let barrier = Arc::new(tokio::sync::Barrier::new(tasks as usize));
        let results: Vec<(u64, u64, u128, bool)> = rt.block_on(async {
            let mut hs = Vec::new();
            for i in 0..tasks {
                let mut svc = layer.layer(counting.clone());
                let barrier = barrier.clone();
                hs.push(tokio::spawn(async move {
                    let key = 1 + i % 2;
                    let rid = key * 1000 + i;
                    barrier.wait().await;
                    let lo = epoch.elapsed().as_micros();
                    let res = svc.call(request(rid, key)).await;
                    (key, rid, lo, res.is_ok())
                }));
            }
            let mut out = Vec::new();
            for h in hs {
                out.push(h.await.unwrap());
            }
            out
        });
        let reached = counting.reached.lock().unwrap().clone();
        let mut adm: Vec<Value> = Vec::new();
        for key in 1..=2u64 {
            let n = results.iter().filter(|r| r.0 == key && r.3).count() as u64;
            let want = (b as u64).min(tasks / 2);
            if n != want {
                mismatches.push(json!({"what": format!("simultaneous first requests of a fresh peer: {n} of {} admitted, burst {b}", tasks / 2)}));
            }
        }
        for (key, rid, lo, ok) in &results {
            let hi = reached.iter().find(|(_, r, _)| r == rid).map(|(_, _, t)| t.duration_since(epoch).as_micros());
            if *ok != hi.is_some() {
                mismatches.push(json!({"what": format!("request {rid}: result ok={ok} but reached service={}", hi.is_some())}));
            }
            if let Some(hi) = hi {
                adm.push(json!({"ev": "admit", "key": key, "lo": *lo as u64, "hi": hi as u64}));
            }
        }
        adm.sort_by_key(|v| v["hi"].as_u64());
        let n_adm = adm.len() as u64;
        lines.extend(adm);
        lines.push(json!({"ev": "end", "admitted": n_adm, "requests": tasks, "elapsed_us": epoch.elapsed().as_micros() as u64}));
        evaluations += tasks;
    }
    // isolation in Block mode: peer 1 has requests parked over its quota (1000 s period: for ever);
    // peer 2's requests within its own quota must get through at once all the same
    for k in 0..a.u64("isolations", 6) {
        run_id += 1;
        let b = 1 + (k % 3) as u32;
        let quota = governor::Quota::with_period(std::time::Duration::from_secs(1000)).unwrap()
            .allow_burst(std::num::NonZeroU32::new(b).unwrap());
        let counting = Counting::default();
        let layer = RateLimitLayer::new(quota, RateWaitMode::Block);
        ID_POS.store((k as usize) * 11 + 1, std::sync::atomic::Ordering::Relaxed);
        let (parked_done, served) = rt.block_on(async {
            let mut parked = Vec::new();
            for i in 0..(b as u64 + 2) {
                let mut svc = layer.layer(counting.clone());
                parked.push(tokio::spawn(async move { svc.call(request(1000 + i, 1)).await.is_ok() }));
            }
            tokio::time::sleep(std::time::Duration::from_millis(50)).await;
            let mut served = 0u64;
            for i in 0..b as u64 {
                let mut svc = layer.layer(counting.clone());
                if let Ok(Ok(_)) = tokio::time::timeout(std::time::Duration::from_secs(2), svc.call(request(2000 + i, 2))).await {
                    served += 1;
                }
            }
            let done = parked.iter().filter(|h| h.is_finished()).count() as u64;
            for h in parked {
                h.abort();
            }
            (done, served)
        });
        evaluations += 2 * b as u64 + 2;
        if served != b as u64 {
            mismatches.push(json!({"what": format!("Block mode, burst {b}: peer 1 has 2 requests parked over quota; only {served} of peer 2's {b} requests (within its own quota) were admitted within 2 s")}));
        }
        if parked_done != b as u64 {
            mismatches.push(json!({"what": format!("Block mode, burst {b}: {parked_done} of peer 1's {} simultaneous requests got through, quota allows exactly {b}", b + 2)}));
        }
    }
    // back-pressure: the wrapped service is not ready for a while. Whatever the layer does with
    // that, the instants at which requests enter the wrapped service obey the quota
    for k in 0..4u64 {
        let block = k % 2 == 0;
        let period_ms = 100u64;
        let quota = governor::Quota::with_period(std::time::Duration::from_millis(period_ms)).unwrap();
        let gated = GatedCounting { inner: Counting::default(), open: Default::default(), wakers: Default::default() };
        let layer = RateLimitLayer::new(quota, if block { RateWaitMode::Block } else { RateWaitMode::ReturnError });
        ID_POS.store(k as usize * 3 + 17, std::sync::atomic::Ordering::Relaxed);
        let epoch = std::time::Instant::now();
        let g2 = gated.clone();
        rt.block_on(async {
            let mut hs = Vec::new();
            for i in 0..5u64 {
                let mut svc = layer.layer(g2.clone());
                hs.push(tokio::spawn(async move {
                    // ReturnError mode: the caller retries at quota pace
                    tokio::time::sleep(std::time::Duration::from_millis(if block { 0 } else { i * (period_ms + 5) })).await;
                    let _ = tokio::time::timeout(std::time::Duration::from_secs(3), svc.call(request(5000 + i, 1))).await;
                }));
            }
            tokio::time::sleep(std::time::Duration::from_millis(5 * period_ms + 150)).await;
            g2.open.store(true, std::sync::atomic::Ordering::SeqCst);
            for w in g2.wakers.lock().unwrap().drain(..) {
                w.wake();
            }
            for h in hs {
                let _ = h.await;
            }
        });
        evaluations += 1;
        let mut entered: Vec<u64> = gated.inner.reached.lock().unwrap().iter().map(|(_, _, t)| t.duration_since(epoch).as_micros() as u64).collect();
        entered.sort();
        // sound form of the window bound on exact instants: entries i..j (inclusive) span at least (j - i - 1) periods
        // (burst 1, plus the stale-state cell of the known finding)
        let mut worst = None;
        for i in 0..entered.len() {
            for j in i + 1..entered.len() {
                let need = (j - i).saturating_sub(1) as u64 * period_ms * 1000;
                if entered[j] - entered[i] + 3_000 < need {
                    worst = Some((i, j, entered[j] - entered[i]));
                }
            }
        }
        if let Some((i, j, span)) = worst {
            mismatches.push(json!({"what": format!("{} mode, wrapped service not ready for 650 ms: requests entered it at {:?} us; entries {i}..{j} lie {span} us apart, the quota (1 per {period_ms} ms) needs {} us",
                if block { "Block" } else { "ReturnError" }, entered, (j - i - 1) as u64 * period_ms * 1000)}));
        }
    }
    // isolation under a backlog: peer 1 has a long queue of blocked requests; a request of peer 2
    // that is one over peer 2's own burst waits for peer 2's own replenishment, not for peer 1's queue
    for k in 0..a.u64("isolations", 6) / 2 {
        let b = 1 + (k % 2) as u32;
        let period_ms = 100u64;
        let quota = governor::Quota::with_period(std::time::Duration::from_millis(period_ms)).unwrap()
            .allow_burst(std::num::NonZeroU32::new(b).unwrap());
        let counting = Counting::default();
        let layer = RateLimitLayer::new(quota, RateWaitMode::Block);
        ID_POS.store((k as usize) * 13 + 4, std::sync::atomic::Ordering::Relaxed);
        let took_ms = rt.block_on(async {
            let mut noisy = Vec::new();
            for i in 0..(b as u64 + 16) {
                let mut svc = layer.layer(counting.clone());
                noisy.push(tokio::spawn(async move { svc.call(request(3000 + i, 1)).await.is_ok() }));
            }
            tokio::time::sleep(std::time::Duration::from_millis(30)).await;
            let t0 = std::time::Instant::now();
            let mut quiet = Vec::new();
            for i in 0..(b as u64 + 1) {
                let mut svc = layer.layer(counting.clone());
                quiet.push(tokio::spawn(async move { svc.call(request(4000 + i, 2)).await.is_ok() }));
            }
            for h in quiet {
                let _ = tokio::time::timeout(std::time::Duration::from_secs(5), h).await;
            }
            let took = t0.elapsed().as_millis() as u64;
            for h in noisy {
                h.abort();
            }
            took
        });
        evaluations += 1;
        // own replenishment: one period (two with the limiter's stale-state quirk the other way round); 700 ms is
        // generous for a loaded machine, and far below peer 1's 1.6 s queue
        if took_ms > period_ms + 600 {
            mismatches.push(json!({"what": format!("Block mode, burst {b}, period {period_ms} ms: peer 1 has 16 requests queued; peer 2's {} requests (one over its burst) took {took_ms} ms, its own quota needs about {period_ms} ms", b + 1)}));
        }
    }
    let path = format!("{out}.ndjson");
    crate::trace::write_ndjson(std::path::Path::new(&path), &lines).unwrap();
    print_summary(&json!({"replayed": behaviours.len(), "evaluations": evaluations, "mismatches": mismatches,
                          "trace": path, "timed_runs": run_id}));
    0
}

/// The hint as the caller sees it: on the response the refusal status is turned into (the only
/// thing that travels), not on the in-process Status value.
fn wire_hint(s: Status) -> Option<u128> {
    use anemo::types::response::IntoResponse;
    let resp = s.into_response();
    if resp.status() != StatusCode::TooManyRequests {
        return None;
    }
    resp.headers().get(WAIT_NANOS_HEADER).and_then(|v| v.parse::<u128>().ok())
}

/// C19 probe: refusals whose wait-nanos hint is not positive. Uses short periods so that many
/// refusals are decided just before the next cell becomes available.
pub fn rate_hint_probe(a: &Args) -> i32 {
    let n = a.u64("n", 200_000);
    let period_us = a.u64("period_us", 200);
    let rt = tokio::runtime::Builder::new_multi_thread().worker_threads(6).enable_all().build().unwrap();
    let quota = governor::Quota::with_period(std::time::Duration::from_micros(period_us)).unwrap();
    let counting = Counting::default();
    let layer = RateLimitLayer::new(quota, RateWaitMode::ReturnError);
    let t_start = std::time::Instant::now();
    let (zero, refused, admitted): (u64, u64, u64) = rt.block_on(async {
        let mut hs = Vec::new();
        for t in 0..6u64 {
            let mut svc = layer.layer(counting.clone());
            hs.push(tokio::spawn(async move {
                let (mut z, mut r, mut ad) = (0u64, 0u64, 0u64);
                for i in 0..n / 6 {
                    match svc.call(request(t * 10_000_000 + i, 1 + (i % 2))).await {
                        Ok(_) => ad += 1,
                        Err(s) => {
                            r += 1;
                            let hint = wire_hint(s);
                            if !matches!(hint, Some(h) if h > 0) {
                                z += 1;
                            }
                        }
                    }
                    if i % 64 == 0 {
                        tokio::task::yield_now().await;
                    }
                }
                (z, r, ad)
            }));
        }
        let mut tot = (0, 0, 0);
        for h in hs {
            let (z, r, ad) = h.await.unwrap();
            tot = (tot.0 + z, tot.1 + r, tot.2 + ad);
        }
        tot
    });
    let elapsed_us = t_start.elapsed().as_micros() as u64;
    // two peers, each saturating its own quota for the whole run: per peer at most burst (1) + 1 (the
    // stale-state cell, see the known finding) + elapsed / period admissions
    let allowed = 2 * (2 + elapsed_us / period_us);
    print_summary(&json!({"refused": refused, "admitted": admitted, "hint_not_positive": zero, "period_us": period_us,
                          "elapsed_us": elapsed_us, "allowed": allowed}));
    0
}


/// C19 probe: a peer whose limiter state has gone stale (idle for several periods) sends a volley
/// at one instant: the quota's burst may get through, and nothing more until a period has passed.
pub fn rate_stale_probe(a: &Args) -> i32 {
    let rt = tokio::runtime::Builder::new_current_thread().enable_all().build().unwrap();
    let mut rows = Vec::new();
    for b in [1u32, 2, 3] {
        let period_ms = a.u64("period_ms", 60);
        let quota = governor::Quota::with_period(std::time::Duration::from_millis(period_ms)).unwrap()
            .allow_burst(std::num::NonZeroU32::new(b).unwrap());
        let counting = Counting::default();
        let layer = RateLimitLayer::new(quota, RateWaitMode::ReturnError);
        ID_POS.store(b as usize * 9, std::sync::atomic::Ordering::Relaxed);
        let (fresh, stale) = rt.block_on(async {
            let mut svc = layer.layer(counting.clone());
            let mut fresh = 0u32;
            for i in 0..(b + 3) {
                if svc.call(request(100 + i as u64, 1)).await.is_ok() { fresh += 1; }
            }
            // idle for many periods: the peer's state is stale
            tokio::time::sleep(std::time::Duration::from_millis(period_ms * 6)).await;
            let t0 = std::time::Instant::now();
            let mut stale = 0u32;
            for i in 0..(b + 3) {
                if svc.call(request(200 + i as u64, 1)).await.is_ok() { stale += 1; }
            }
            // (if the volley itself took longer than a period the count means nothing)
            if t0.elapsed() >= std::time::Duration::from_millis(period_ms / 2) { stale = u32::MAX; }
            (fresh, stale)
        });
        rows.push(json!({"burst": b, "fresh_admitted": fresh, "stale_admitted": stale}));
    }
    print_summary(&json!({"rows": rows}));
    0
}
