//! C13: background dialing over long virtual time. Node 0 (and sometimes others) gets a
//! known-peers table with every affinity, address lists mixing dead and live addresses, itself;
//! peers become unreachable (partition / shutdown) and reachable again (heal / restart); the
//! interval, back-off step, maximum back-off, connect timeout and the cap on outstanding dials
//! vary per seed. Every `mgr.tick` must be exactly the specification's Tick.

use super::{run_many, Args};
use crate::scenarios::conn::{finish, settle, shutdown};
use crate::sim::{self, base_config, quic, NodeCfg, Sim};
use anemo::types::{Address, PeerAffinity, PeerInfo};
use rand::Rng;
use serde_json::{json, Value};
use std::net::SocketAddr;

fn dead_addr(sim: &mut Sim) -> SocketAddr {
    // an address in the fabric's range where nobody listens
    let a = sim::next_port();
    sim.run.obs(-1, "obs.addr", json!({"addr": a.to_string(), "who": -1, "kind": "dead"}));
    a
}

async fn run(mut sim: Sim, _seed: u64) -> Result<Value, String> {
    let n = 3 + sim.rng.gen_range(0..2);
    let keys = sim::sorted_keys(n, &mut sim.rng);
    let interval = [1_000u64, 2_000, 5_000][sim.rng.gen_range(0..3)];
    // the extremes are values too: no back-off at all, a cap below the step, a cap of zero on
    // connections being established (nothing is ever dialed in the background)
    let step = [0u64, 500, 3_000, 10_000][sim.rng.gen_range(0..4)];
    let maxb = [0u64, 1_000, 7_000, 25_000, 60_000][sim.rng.gen_range(0..5)];
    let cto = [300u64, 2_000][sim.rng.gen_range(0..2)];
    let cap = [0usize, 1, 2, 100][sim.rng.gen_range(0..4)];
    for k in keys {
        let mut config = base_config();
        config.connectivity_check_interval_ms = Some(interval);
        config.connection_backoff_ms = Some(step);
        config.max_connection_backoff_ms = Some(maxb);
        config.connect_timeout_ms = Some(cto);
        config.max_concurrent_outstanding_connecting_connections = Some(cap);
        // the limit on established connections governs who is let in, never who is dialed
        config.max_concurrent_connections = [None, None, Some(0usize), Some(1)][sim.rng.gen_range(0..4)];
        quic(&mut config).max_idle_timeout_ms = Some(4_000);
        quic(&mut config).keep_alive_interval_ms = Some(1_000);
        sim.add_node(NodeCfg {
            key: k,
            name: "net".into(),
            alt: None,
            config,
            bind: None,
        })
        .map_err(|e| e.to_string())?;
    }
    for i in 0..n {
        sim.subscribe(i).unwrap();
    }
    // known-peer tables
    let dialers = 1 + sim.rng.gen_range(0..2);
    // (dialer, peer) pairs whose entry is High affinity with an address that does not answer somewhere
    let mut high_dead: Vec<(usize, usize)> = Vec::new();
    for a in 0..dialers {
        for b in 0..n {
            if sim.rng.gen_bool(0.15) {
                continue; // unknown peer
            }
            let aff = match sim.rng.gen_range(0..10) {
                0..=5 => PeerAffinity::High,
                6..=7 => PeerAffinity::Allowed,
                _ => PeerAffinity::Never,
            };
            let mut addrs: Vec<Address> = Vec::new();
            let len = sim.rng.gen_range(0..4);
            let live_at = if len > 0 { sim.rng.gen_range(0..len) } else { 0 };
            for i in 0..len {
                if i == live_at || sim.rng.gen_bool(0.3) {
                    addrs.push(sim.addr(b).into());
                } else {
                    addrs.push(dead_addr(&mut sim).into());
                }
            }
            if matches!(aff, PeerAffinity::High) && a != b && addrs.iter().any(|x| format!("{x}") != sim.addr(b).to_string()) {
                high_dead.push((a, b));
            }
            // b == a: the node's own entry must never be dialed
            sim.known_insert(
                a,
                PeerInfo {
                    peer_id: sim.peer_id(b),
                    affinity: aff,
                    address: addrs,
                },
            );
        }
    }
    // reachability schedule
    let steps = 6 + sim.rng.gen_range(0..10);
    for _ in 0..steps {
        let ms = [100u64, 700, 3_000, 9_000, 30_000, 120_000][sim.rng.gen_range(0..6)];
        settle(&mut sim, ms).await;
        let mut a = sim.rng.gen_range(0..dialers);
        let mut b = sim.rng.gen_range(0..n);
        let mut op = sim.rng.gen_range(0..17);
        if op >= 14 {
            op = 12;
        } else if op >= 11 {
            op = 11;
            if !high_dead.is_empty() {
                (a, b) = high_dead[sim.rng.gen_range(0..high_dead.len())];
            }
        }
        match op {
            0..=2 => {
                sim.run.fabric.partition(sim.addr(a), sim.addr(b));
                sim.run.obs(-1, "obs.fault", json!({"what": "partition", "a": a, "b": b}));
            }
            3..=5 => {
                sim.run.fabric.heal(sim.addr(a), sim.addr(b));
                sim.run.obs(-1, "obs.fault", json!({"what": "heal", "a": a, "b": b}));
            }
            6 if b >= dialers => {
                if sim.nodes[b].net.is_some() {
                    shutdown(&mut sim, b).await;
                } else {
                    sim.restart_node(b).map_err(|e| e.to_string())?;
                    sim.subscribe(b).unwrap();
                }
            }
            9 if sim.nodes[a].net.is_some() => {
                // explicit connects (to an address nobody answers on) occupy connecting slots
                // right when the next connectivity check is due: the cap counts them too
                let now = sim.run.now_ms();
                let next_tick = (now / interval + 1) * interval;
                if next_tick > now + 15 {
                    sim.sleep_ms(next_tick - now - 10).await;
                }
                let k = 1 + sim.rng.gen_range(0..2);
                for _ in 0..k {
                    let dead = dead_addr(&mut sim);
                    let net = sim.net(a).clone();
                    let run = sim.run.clone();
                    tokio::spawn(async move {
                        let r = tokio::time::timeout(std::time::Duration::from_secs(60), net.connect(dead)).await;
                        let err = match r {
                            Ok(Ok(_)) => None,
                            Ok(Err(e)) => Some(format!("{e}")),
                            Err(_) => Some("HANG".to_string()),
                        };
                        run.obs(
                            a as i64,
                            sim::connect_event(err.as_deref()),
                            json!({"ok": err.is_none(), "err": err}),
                        );
                    });
                }
                settle(&mut sim, 30).await;
            }
            7 if sim.nodes[a].net.is_some() => {
                // the application drops a connection: it must be re-dialed
                sim.disconnect(a, sim.peer_id(b));
            }
            8 if sim.nodes[a].net.is_some() => {
                if sim.rng.gen_bool(0.5) {
                    sim.known_remove(a, sim.peer_id(b));
                } else {
                    let addrs: Vec<Address> = vec![sim.addr(b).into()];
                    sim.known_insert(
                        a,
                        PeerInfo {
                            peer_id: sim.peer_id(b),
                            affinity: PeerAffinity::High,
                            address: addrs,
                        },
                    );
                }
            }
            10 if sim.nodes[a].net.is_some() => {
                // same with an inbound handshake in flight at the tick: b dials a just before it
                let now = sim.run.now_ms();
                let next_tick = (now / interval + 1) * interval;
                if next_tick > now + 15 {
                    sim.sleep_ms(next_tick - now - 3).await;
                }
                if sim.nodes[b].net.is_some() && a != b {
                    let net = sim.net(b).clone();
                    let run = sim.run.clone();
                    let addr = sim.addr(a);
                    tokio::spawn(async move {
                        let r = tokio::time::timeout(std::time::Duration::from_secs(60), net.connect(addr)).await;
                        let (ok, peer, err) = match r {
                            Ok(Ok(p)) => (true, Some(run.node_of(&p)), None),
                            Ok(Err(e)) => (false, None, Some(format!("{e}"))),
                            Err(_) => (false, None, Some("HANG".to_string())),
                        };
                        run.obs(b as i64, sim::connect_event(err.as_deref()), json!({"ok": ok, "peer": peer, "err": err}));
                    });
                }
                settle(&mut sim, 30).await;
            }
            11 if sim.nodes[a].net.is_some() && sim.nodes[b].net.is_some() && a != b => {
                // the peer comes in by itself right after a connectivity check (a background dial to it
                // may just have started towards an address that does not answer), stays over the next
                // check - which finds it connected and may drain that dial's failure - and leaves again:
                // the failure still counts, the back-off still runs from when it was noticed
                let now = sim.run.now_ms();
                let next_tick = (now / interval + 1) * interval;
                sim.sleep_ms(next_tick - now + 20).await;
                let _ = sim.connect(b, sim.addr(a), Some(sim.peer_id(a))).await;
                settle(&mut sim, cto + interval + 60).await;
                sim.disconnect(b, sim.peer_id(a));
                settle(&mut sim, 30).await;
            }
            12 if sim.nodes[a].net.is_some() => {
                // a connection that a background dial has just made is dropped again before the next
                // connectivity check has looked at that dial's result: the peer is dialed at that check
                let now = sim.run.now_ms();
                let next_tick = (now / interval + 1) * interval;
                sim.sleep_ms(next_tick - now + 120).await;
                let peers = sim.net(a).peers();
                if let Some(p) = peers.first() {
                    sim.disconnect(a, *p);
                }
                settle(&mut sim, 20).await;
            }
            _ => {
                sim.obs_all_peers();
            }
        }
    }
    for i in 0..n {
        if sim.nodes[i].net.is_none() {
            sim.restart_node(i).map_err(|e| e.to_string())?;
        }
    }
    let initials = sim.run.fabric.initials().len();
    // long enough for the largest back-off plus two intervals
    sim.run.fabric.heal_all();
    sim.run.obs(-1, "obs.fault", json!({"what": "healed"}));
    settle(&mut sim, maxb + 2 * interval + 3_000).await;
    finish(&mut sim, 4_000).await;
    Ok(json!({"interval": interval, "step": step, "maxb": maxb, "cto": cto, "cap": cap, "initials": initials}))
}

pub fn main(a: &Args) -> i32 {
    run_many(a, "c13", move |seed, sim| run(sim, seed))
}
