//! C08 (real threads): the async runtime is torn down at every point of a network's life on a
//! multi-thread runtime with real sockets - with handles alive and idle, right after the handles
//! were dropped, while an explicit shutdown is parked at each of its steps (blocking gates), after
//! shutdown completed, and at random instants under traffic. Tearing the runtime down must
//! neither panic (panic hook) nor hang (watchdog on the thread that drops the runtime).

use super::{print_summary, Args};
use crate::sim::{install_panic_hook, AppService};
use crate::trace::Run;
use anemo::{Network, Request};
use bytes::Bytes;
use rand::{rngs::StdRng, Rng, SeedableRng};
use serde_json::{json, Value};
use std::sync::{Arc, Condvar, Mutex};
use std::time::{Duration, Instant};

#[derive(Default)]
struct GateCtl {
    state: Mutex<GateState>,
    cv: Condvar,
}

#[derive(Default)]
struct GateState {
    hold_at: Option<&'static str>,
    holding: bool,
    released: bool,
}

fn start(run: &Arc<Run>, key: u8, idx: i64) -> (Network, Arc<std::sync::atomic::AtomicI64>) {
    let mut config = anemo::Config::default();
    config.shutdown_idle_timeout_ms = Some(300);
    config.connect_timeout_ms = Some(1_000);
    let (svc, live) = AppService::new(run.clone(), idx);
    run.register_node(crate::sim::peer_id_of(&[key; 32]), idx);
    let net = Network::bind("127.0.0.1:0")
        .config(config)
        .server_name("net")
        .private_key([key; 32])
        .start(svc)
        .expect("network");
    (net, live)
}

fn thread_count() -> usize {
    std::fs::read_to_string("/proc/self/status")
        .ok()
        .and_then(|s| s.lines().find(|l| l.starts_with("Threads:")).and_then(|l| l.split_whitespace().nth(1).and_then(|n| n.parse().ok())))
        .unwrap_or(0)
}

pub fn main(a: &Args) -> i32 {
    install_panic_hook();
    let seed0 = a.u64("seed", 1);
    let trials = a.u64("trials", 30);
    let only = a.0.get("mode").cloned();
    let workers = a.u64("workers", 2) as usize;
    let connect = a.u64("connect", 1) == 1;
    let modes = ["idle-handles", "drop-handles-then-runtime", "gate:shut.closed", "gate:shut.aborted", "gate:h.closing",
                 "after-shutdown", "random", "shutdown-blocking-handler", "shutdown-slow-drop", "shutdown-held-peer", "shutdown-inflight-call", "disconnect-then-shutdown"];
    let mut results: Vec<Value> = Vec::new();
    let mut hung = false;
    for t in 0..trials {
        if hung {
            break;
        }
        let mode = match &only {
            Some(m) => modes.iter().find(|x| **x == m.as_str()).copied().unwrap_or("random"),
            None => modes[(t as usize) % modes.len()],
        };
        let seed = seed0 + t;
        let mut rng = StdRng::seed_from_u64(seed);
        let run = Run::begin_global(seed);
        let ctl: Arc<GateCtl> = Default::default();
        {
            let ctl2 = ctl.clone();
            anemo::verif::set_block_gate(Some(Arc::new(move |name, _fields| {
                let mut st = ctl2.state.lock().unwrap();
                if st.hold_at == Some(name) && !st.holding && !st.released {
                    st.holding = true;
                    ctl2.cv.notify_all();
                    let deadline = Instant::now() + Duration::from_secs(5);
                    while !st.released && Instant::now() < deadline {
                        let (g, _) = ctl2.cv.wait_timeout(st, Duration::from_millis(50)).unwrap();
                        st = g;
                    }
                }
            })));
        }
        if let Some(point) = mode.strip_prefix("gate:") {
            ctl.state.lock().unwrap().hold_at = Some(match point {
                "shut.closed" => "shut.closed",
                "shut.aborted" => "shut.aborted",
                _ => "h.closing",
            });
        }
        let threads_before = thread_count();
        let rt = tokio::runtime::Builder::new_multi_thread().worker_threads(workers).enable_all().build().unwrap();
        let mut a_live = None;
        let (a_net, b_net) = rt.block_on(async {
            let (a_net, live) = start(&run, 61, 0);
            a_live = Some(live);
            let (b_net, _) = start(&run, 62, 1);
            if connect {
                let _ = tokio::time::timeout(Duration::from_secs(5), a_net.connect_with_peer_id(b_net.local_addr(), b_net.peer_id())).await;
            }
            // traffic: a few slow requests in both directions
            for k in 0..rng.gen_range(0..4u64) {
                let (from, to) = if k % 2 == 0 { (a_net.clone(), b_net.peer_id()) } else { (b_net.clone(), a_net.peer_id()) };
                let delay = rng.gen_range(0..400u64);
                tokio::spawn(async move {
                    let _ = from.rpc(to, Request::new(Bytes::from_static(b"x")).with_header("delay-ms", delay.to_string()).with_header("nonce", "0")).await;
                });
            }
            tokio::time::sleep(Duration::from_millis(rng.gen_range(0..30))).await;
            (a_net, b_net)
        });
        let mut keep: Vec<Network> = Vec::new();
        let mut leaks: Vec<String> = Vec::new();
        match mode {
            "idle-handles" => {
                keep.push(a_net);
                keep.push(b_net);
            }
            "drop-handles-then-runtime" => {
                drop(a_net);
                drop(b_net);
                std::thread::sleep(Duration::from_micros(rng.gen_range(0..3_000)));
            }
            "disconnect-then-shutdown" => {
                // the peer whose request sits in a non-yielding handler is disconnected (or hangs
                // up) right before shutdown(): its connection handler has already deregistered
                // the peer but is still winding its request tasks down
                let live = a_live.clone().unwrap();
                let remote_hangs_up = rng.gen_bool(0.5);
                let (leaked, sub_open) = rt.block_on(async {
                    let b2 = b_net.clone();
                    let to = a_net.peer_id();
                    tokio::spawn(async move {
                        let _ = b2.rpc(to, Request::new(Bytes::from_static(b"x")).with_header("block-ms", "700").with_header("nonce", "0")).await;
                    });
                    tokio::time::sleep(Duration::from_millis(150)).await;
                    let sub = a_net.subscribe().ok();
                    if remote_hangs_up {
                        let _ = b_net.disconnect(a_net.peer_id());
                        tokio::time::sleep(Duration::from_millis(30)).await;
                    } else {
                        let _ = a_net.disconnect(b_net.peer_id());
                    }
                    let _ = tokio::time::timeout(Duration::from_secs(10), a_net.shutdown()).await;
                    let leaked = live.load(std::sync::atomic::Ordering::SeqCst);
                    // a subscriber must be at end-of-stream now (Closed), not merely empty
                    let sub_open = match sub {
                        Some((mut rx, _)) => loop {
                            match rx.try_recv() {
                                Ok(_) => continue,
                                Err(tokio::sync::broadcast::error::TryRecvError::Closed) => break false,
                                Err(tokio::sync::broadcast::error::TryRecvError::Lagged(_)) => continue,
                                Err(tokio::sync::broadcast::error::TryRecvError::Empty) => break true,
                            }
                        },
                        None => false,
                    };
                    (leaked, sub_open || a_net.subscribe().is_ok())
                });
                if leaked != 0 {
                    leaks.push(format!("{leaked} clone(s) of the user's service still alive when shutdown() returned (peer disconnected just before, handler mid-poll)"));
                }
                if sub_open {
                    leaks.push("subscription not closed when shutdown() returned (peer disconnected just before)".into());
                }
                keep.push(a_net);
                keep.push(b_net);
            }
            "shutdown-blocking-handler" => {
                // a request whose handler sits in a non-yielding section on a worker while the
                // network is shut down: when shutdown() returns, every service clone must be gone
                let live = a_live.clone().unwrap();
                let leaked = rt.block_on(async {
                    let b2 = b_net.clone();
                    let to = a_net.peer_id();
                    tokio::spawn(async move {
                        let _ = b2.rpc(to, Request::new(Bytes::from_static(b"x")).with_header("block-ms", "700").with_header("nonce", "0")).await;
                    });
                    tokio::time::sleep(Duration::from_millis(150)).await;
                    let t0 = Instant::now();
                    let r = tokio::time::timeout(Duration::from_secs(10), a_net.shutdown()).await;
                    if std::env::var_os("VERIF_ECHO").is_some() {
                        eprintln!("shutdown returned {:?} after {:?}, live={}", r.is_ok(), t0.elapsed(), live.load(std::sync::atomic::Ordering::SeqCst));
                    }
                    live.load(std::sync::atomic::Ordering::SeqCst)
                });
                if leaked != 0 {
                    leaks.push(format!("{leaked} clone(s) of the user's service still alive when shutdown() returned (a handler was mid-poll)"));
                }
                keep.push(a_net);
                keep.push(b_net);
            }
            "shutdown-slow-drop" => {
                // every clone of the service is slow to drop; shutdown() on one worker while the
                // manager winds down on another: when it returns, all clones must be gone, the
                // network closed and its address free
                let live = a_live.clone().unwrap();
                let addr = a_net.local_addr();
                crate::sim::SLOW_DROP_MS.store(120, std::sync::atomic::Ordering::SeqCst);
                let (leaked, closed, rebind) = rt.block_on(async {
                    // awaited on the thread that drives block_on, not on a worker: a wake-up from the
                    // manager's worker then does not queue behind that worker's own (slow) drops
                    let h = tokio::time::timeout(Duration::from_secs(20), a_net.shutdown());
                    let before = live.load(std::sync::atomic::Ordering::SeqCst);
                    let t0 = Instant::now();
                    let _ = h.await;
                    let leaked = live.load(std::sync::atomic::Ordering::SeqCst);
                    if std::env::var_os("VERIF_ECHO").is_some() {
                        eprintln!("slow-drop: live before {before}, after {leaked}, shutdown took {:?}", t0.elapsed());
                    }
                    (leaked, a_net.is_closed(), std::net::UdpSocket::bind(addr).is_ok())
                });
                crate::sim::SLOW_DROP_MS.store(0, std::sync::atomic::Ordering::SeqCst);
                if leaked != 0 {
                    leaks.push(format!("{leaked} clone(s) of the user's service still alive when shutdown() returned (slow drop)"));
                }
                if !closed {
                    leaks.push("network not closed when shutdown() returned".into());
                }
                if !rebind {
                    leaks.push("address not free when shutdown() returned".into());
                }
                keep.push(a_net);
                keep.push(b_net);
            }
            "shutdown-held-peer" | "shutdown-inflight-call" => {
                // the application still holds a Peer handle (held-peer), or has a call in flight
                // through the network handle (inflight-call), when the network is shut down: the
                // address must be free all the same, and the call must fail rather than hang
                let addr = a_net.local_addr();
                let peer = if mode == "shutdown-held-peer" { a_net.peer(b_net.peer_id()) } else { None };
                let (rebind, call) = rt.block_on(async {
                    let fut = if mode == "shutdown-inflight-call" {
                        let a2 = a_net.clone();
                        let to = b_net.peer_id();
                        Some(tokio::spawn(async move {
                            a2.rpc(to, Request::new(Bytes::from_static(b"x")).with_header("delay-ms", "5000").with_header("nonce", "0")).await.is_ok()
                        }))
                    } else {
                        None
                    };
                    tokio::time::sleep(Duration::from_millis(50)).await;
                    let _ = tokio::time::timeout(Duration::from_secs(20), a_net.shutdown()).await;
                    let rebind = std::net::UdpSocket::bind(addr).is_ok();
                    let call = match fut {
                        Some(f) => Some(tokio::time::timeout(Duration::from_secs(3), f).await.is_ok()),
                        None => None,
                    };
                    (rebind, call)
                });
                if !rebind && (peer.is_some() || mode == "shutdown-inflight-call") {
                    leaks.push(format!("address not free when shutdown() returned ({})",
                                       if peer.is_some() { "a Peer handle was still held" } else { "a call was in flight" }));
                }
                if call == Some(false) {
                    leaks.push("a call in flight at shutdown was still pending 3 s after shutdown() returned".into());
                }
                drop(peer);
                keep.push(a_net);
                keep.push(b_net);
            }
            "after-shutdown" => {
                rt.block_on(async {
                    let _ = tokio::time::timeout(Duration::from_secs(10), a_net.shutdown()).await;
                    let _ = tokio::time::timeout(Duration::from_secs(10), b_net.shutdown()).await;
                });
                keep.push(a_net);
                keep.push(b_net);
            }
            "random" => {
                let a2 = a_net.clone();
                if rng.gen_bool(0.5) {
                    rt.spawn(async move { let _ = a2.shutdown().await; });
                }
                std::thread::sleep(Duration::from_micros(rng.gen_range(0..20_000)));
                if rng.gen_bool(0.5) { keep.push(a_net); }
                if rng.gen_bool(0.5) { keep.push(b_net); }
            }
            _ => {
                // explicit shutdown of A, parked at the gate; tear the runtime down underneath it
                let a2 = a_net.clone();
                rt.spawn(async move { let _ = a2.shutdown().await; });
                let mut st = ctl.state.lock().unwrap();
                let deadline = Instant::now() + Duration::from_secs(3);
                while !st.holding && Instant::now() < deadline {
                    let (g, _) = ctl.cv.wait_timeout(st, Duration::from_millis(20)).unwrap();
                    st = g;
                }
                drop(st);
                keep.push(a_net);
                keep.push(b_net);
            }
        }
        // tear the runtime down on a helper thread; watchdog here
        let done = Arc::new((Mutex::new(false), Condvar::new()));
        let done2 = done.clone();
        let ctl3 = ctl.clone();
        let gated = mode.starts_with("gate:");
        std::thread::spawn(move || {
            if gated {
                rt.shutdown_background();
                std::thread::sleep(Duration::from_millis(30));
                let mut st = ctl3.state.lock().unwrap();
                st.released = true;
                ctl3.cv.notify_all();
                drop(st);
                std::thread::sleep(Duration::from_millis(200));
            } else {
                drop(rt);
            }
            *done2.0.lock().unwrap() = true;
            done2.1.notify_all();
        });
        let t0 = Instant::now();
        let mut fin = done.0.lock().unwrap();
        while !*fin && t0.elapsed() < Duration::from_secs(8) {
            let (g, _) = done.1.wait_timeout(fin, Duration::from_millis(100)).unwrap();
            fin = g;
        }
        let hang = !*fin;
        drop(fin);
        {
            let mut st = ctl.state.lock().unwrap();
            st.released = true;
            ctl.cv.notify_all();
        }
        drop(keep);
        std::thread::sleep(Duration::from_millis(50));
        // every thread of the torn-down runtime ends; one that is still there seconds later is stuck
        // inside a poll (a lock it can never get, a loop that never yields)
        if !hang {
            let t1 = Instant::now();
            while thread_count() > threads_before && t1.elapsed() < Duration::from_secs(4) {
                std::thread::sleep(Duration::from_millis(50));
            }
            let extra = thread_count().saturating_sub(threads_before);
            if extra > 0 {
                leaks.push(format!("{extra} thread(s) of the torn-down runtime are still running 4 s later (stuck inside a poll)"));
            }
        }
        let panics = run.panics();
        run.end_global();
        anemo::verif::set_block_gate(None);
        if hang {
            hung = true;
        }
        results.push(json!({"trial": t, "seed": seed, "mode": mode, "hang": hang, "leaks": leaks,
                            "panics": panics.iter().map(|p| p.chars().take(200).collect::<String>()).collect::<Vec<_>>()}));
    }
    print_summary(&json!({"scenario": "teardown", "trials": results}));
    // worker threads of a hung runtime keep spinning: leave at once
    std::process::exit(0);
}
