//! C10: inbound admission. One listener L with a connection limit in {none, 0, 1, 2, 3} and an
//! affinity table over its peers; a seed-determined sequence of non-overlapping steps: an inbound
//! arrival from a peer, an explicit outbound dial, a background dial to a High-affinity peer, a
//! disconnect, an affinity change. Each step settles before the next (simultaneous arrivals are
//! excluded by the property). The trace spec checks every admission verdict against the
//! specification's Admitted() evaluated on its own state, and that the dialer's result follows.

use super::{run_many, Args};
use crate::scenarios::conn::{finish, settle};
use crate::sim::{self, base_config, quic, NodeCfg, Sim};
use anemo::types::{PeerAffinity, PeerInfo};
use rand::Rng;
use serde_json::{json, Value};

async fn run(mut sim: Sim, _seed: u64) -> Result<Value, String> {
    let peers = 3 + sim.rng.gen_range(0..2);
    let n = peers + 1;
    let keys = sim::sorted_keys(n, &mut sim.rng);
    let l = sim.rng.gen_range(0..n);
    let limit = [None, Some(0usize), Some(1), Some(2), Some(3)][sim.rng.gen_range(0..5)];
    for (i, k) in keys.iter().enumerate() {
        let mut config = base_config();
        if i == l {
            config.max_concurrent_connections = limit;
        }
        config.connectivity_check_interval_ms = Some(1_000);
        quic(&mut config).max_idle_timeout_ms = Some(10_000);
        quic(&mut config).keep_alive_interval_ms = Some(3_000);
        sim.add_node(NodeCfg {
            key: *k,
            name: "net".into(),
            alt: None,
            config,
            bind: None,
        })
        .map_err(|e| e.to_string())?;
    }
    for i in 0..n {
        sim.subscribe(i).unwrap();
    }
    let others: Vec<usize> = (0..n).filter(|i| *i != l).collect();
    // initial affinity table (no addresses: no background dialing unless a step adds one)
    for &p in &others {
        let aff = match sim.rng.gen_range(0..8) {
            0..=2 => None,
            3 => Some(PeerAffinity::High),
            4..=5 => Some(PeerAffinity::Allowed),
            _ => Some(PeerAffinity::Never),
        };
        if let Some(aff) = aff {
            sim.known_insert(
                l,
                PeerInfo {
                    peer_id: sim.peer_id(p),
                    affinity: aff,
                    address: vec![],
                },
            );
        }
    }
    let steps = 8 + sim.rng.gen_range(0..10);
    let mut arrivals = 0;
    for _ in 0..steps {
        let p = others[sim.rng.gen_range(0..others.len())];
        match sim.rng.gen_range(0..20) {
            0..=8 => {
                // inbound arrival at L from p
                arrivals += 1;
                let expect = if sim.rng.gen_bool(0.5) { Some(sim.peer_id(l)) } else { None };
                let _ = sim.connect(p, sim.addr(l), expect).await;
            }
            9..=11 => {
                // explicit outbound dial by L: never blocked by L's limit
                let _ = sim.connect(l, sim.addr(p), Some(sim.peer_id(p))).await;
            }
            12..=14 => {
                sim.disconnect(l, sim.peer_id(p));
            }
            15 => {
                // the remote side hangs up
                sim.disconnect(p, sim.peer_id(l));
            }
            16..=17 => {
                let aff = [PeerAffinity::High, PeerAffinity::Allowed, PeerAffinity::Never]
                    [sim.rng.gen_range(0..3)];
                sim.known_insert(
                    l,
                    PeerInfo {
                        peer_id: sim.peer_id(p),
                        affinity: aff,
                        address: vec![],
                    },
                );
            }
            18 => {
                sim.known_remove(l, sim.peer_id(p));
            }
            _ => {
                // background dial: High affinity with an address; L's own limit must not matter
                sim.known_insert(
                    l,
                    PeerInfo {
                        peer_id: sim.peer_id(p),
                        affinity: PeerAffinity::High,
                        address: vec![sim.addr(p).into()],
                    },
                );
                settle(&mut sim, 1_100).await;
            }
        }
        // non-overlapping: let everything settle (handshakes, closes, handler exits)
        settle(&mut sim, 60).await;
        sim.obs_all_peers();
    }
    finish(&mut sim, 10_000).await;
    Ok(json!({"limit": limit, "arrivals": arrivals, "steps": steps}))
}

pub fn main(a: &Args) -> i32 {
    run_many(a, "c10", move |seed, sim| run(sim, seed))
}
