//! Specification -> implementation for the connection manager (C04 C05 C09 C10 C03): behaviours
//! of MC_ConnReplay.tla are executed on real Networks on the fabric. Schedule gates hold the real
//! tasks where the specification's controlled steps begin:
//!
//!   in.tls      (listener, after TLS, before the admission decision)     <- "admit"
//!   dial.done / in.done (finished connecting task, before the manager)   <- "consume"
//!   h.closing   (connection handler that noticed the end, before it deregisters) <- "hexit"
//!
//! After every step the listing (`Network::peers`), the events delivered to a subscriber, the
//! result of every finished `connect` call and - from the hooks inside the active-peer set - the
//! stored connection and origin per peer and the set of live handlers are compared with the state
//! the specification requires on every node. The recorded trace of the run is validated by
//! AnemoConnTrace like any other run.

use super::{run_many, Args};
use crate::gate;
use crate::scenarios::conn::{node_cfg, settle, shutdown, Opts};
use crate::sim::{self, Sim};
use anemo::types::{PeerAffinity, PeerEvent, PeerInfo};
use serde_json::{json, Value};
use std::collections::{BTreeMap, BTreeSet, HashMap};
use std::sync::Arc;
use tokio::sync::broadcast::error::TryRecvError;

struct Dial {
    dialer: usize,
    dial_task: u64,
    in_task: Option<u64>,
    gid: u64,
    join: Option<tokio::task::JoinHandle<Result<anemo::PeerId, String>>>,
}

/// shadow of the active-peer sets and handler sets, rebuilt from the hooks inside the lock
#[derive(Default)]
struct Shadow {
    seen: usize,
    stored: Vec<BTreeMap<i64, (u64, String)>>,
    handlers: Vec<BTreeSet<u64>>,
}

impl Shadow {
    fn update(&mut self, lines: &[Value]) {
        for l in &lines[self.seen..] {
            let node = l["node"].as_i64().unwrap_or(-1);
            if node < 0 || node as usize >= self.stored.len() {
                continue;
            }
            let n = node as usize;
            match l["ev"].as_str().unwrap_or("") {
                "ap.add" => {
                    let outcome = l["outcome"].as_str().unwrap_or("");
                    if outcome == "new" || outcome == "replaced" {
                        self.stored[n].insert(
                            l["peer"].as_i64().unwrap_or(-1),
                            (l["gid"].as_u64().unwrap_or(0), l["origin"].as_str().unwrap_or("").to_string()),
                        );
                    }
                }
                "ap.remove" | "ap.remove_id" => {
                    if !l["removed"].is_null() {
                        self.stored[n].remove(&l["peer"].as_i64().unwrap_or(-1));
                    }
                    if l["ev"] == "ap.remove_id" {
                        self.handlers[n].remove(&l["hgid"].as_u64().unwrap_or(0));
                    }
                }
                "h.start" => {
                    self.handlers[n].insert(l["gid"].as_u64().unwrap_or(0));
                }
                _ => {}
            }
        }
        self.seen = lines.len();
    }
}

fn aff(s: &str) -> Option<PeerAffinity> {
    match s {
        "High" => Some(PeerAffinity::High),
        "Allowed" => Some(PeerAffinity::Allowed),
        "Never" => Some(PeerAffinity::Never),
        _ => None,
    }
}

async fn wait_for(rule: u64, max_ms: u64, pred: impl Fn(&Value) -> bool) -> Option<Value> {
    let deadline = tokio::time::Instant::now() + std::time::Duration::from_millis(max_ms);
    loop {
        if let Some(f) = gate::held(rule).into_iter().find(|f| pred(f)) {
            return Some(f);
        }
        if tokio::time::Instant::now() >= deadline {
            return None;
        }
        tokio::time::sleep(std::time::Duration::from_millis(1)).await;
    }
}

async fn replay(mut sim: Sim, beh: Arc<Value>) -> Result<Value, String> {
    let hdr = &beh["hdr"];
    let n = hdr["nodes"].as_array().unwrap().len();
    let o = Opts {
        nodes: n,
        ops: 0,
        faults: false,
        restarts: false,
        known: false,
        limit: None,
        idle_ms: 10_000,
        keepalive_ms: Some(3_000),
        hetero: false,
    };
    let keys = sim::sorted_keys(n, &mut sim.rng);
    for (i, k) in keys.into_iter().enumerate() {
        let mut cfg = node_cfg(k, &o);
        let lim = hdr["limits"][i].as_i64().unwrap();
        cfg.config.max_concurrent_connections = if lim < 0 { None } else { Some(lim as usize) };
        // nothing the specification does not model: no background dialing during the replay, no
        // connect timeouts while a task is held at a gate
        cfg.config.connectivity_check_interval_ms = Some(3_600_000);
        cfg.config.connect_timeout_ms = Some(60_000);
        sim.add_node(cfg).map_err(|e| e.to_string())?;
    }
    settle(&mut sim, 5).await; // the managers' first (immediate) connectivity check is over
    for i in 0..n {
        for j in 0..n {
            if let Some(a) = aff(hdr["affs"][i][j].as_str().unwrap()) {
                sim.known_insert(
                    i,
                    PeerInfo { peer_id: sim.peer_id(j), affinity: a, address: vec![sim.addr(j).into()] },
                );
            }
        }
    }
    // one subscriber per node from the start: the node's whole event log through the public API
    let mut logs = Vec::new();
    for i in 0..n {
        let (rx, snap) = sim.net(i).subscribe().map_err(|e| e.to_string())?;
        if !snap.is_empty() {
            return Err("VIOLATION: fresh network lists peers".into());
        }
        logs.push(rx);
    }
    let r_dtls = gate::hold("dial.tls", |_| true);
    let r_itls = gate::hold("in.tls", |_| true);
    let r_ddone = gate::hold("dial.done", |_| true);
    let r_idone = gate::hold("in.done", |_| true);
    let r_hc = gate::hold("h.closing", |_| true);
    let mut dials: HashMap<i64, Dial> = HashMap::new();
    let mut shadow = Shadow { seen: 0, stored: vec![BTreeMap::new(); n], handlers: vec![BTreeSet::new(); n] };
    let steps = beh["steps"].as_array().unwrap();
    let mut evals = 0usize;
    let mut failure: Option<String> = None;
    'steps: for (si, s) in steps.iter().enumerate() {
        let op = s["op"].as_str().unwrap();
        let a = s["a"].as_i64().unwrap();
        let b = s["b"].as_i64().unwrap();
        sim.run.obs(-1, "obs.note", json!({"what": "replay-step", "i": si, "op": op, "a": a, "b": b, "x": s["x"]}));
        macro_rules! fail {
            ($($arg:tt)*) => {{
                failure = Some(format!("VIOLATION: replay-conn step {} ({} a={} b={} x={}): {}", si, op, a, b, s["x"], format!($($arg)*)));
                break 'steps;
            }};
        }
        match op {
            "dial" => {
                let (d, l, k) = ((a - 1) as usize, (b - 1) as usize, s["x"].as_i64().unwrap());
                // a later dial may come seconds after the earlier ones: how long a connection has been
                // up plays no part in what happens to it
                if k > 1 && (si + steps.len()) % 3 == 0 {
                    settle(&mut sim, 2_700).await;
                }
                let net = sim.net(d).clone();
                let addr = sim.addr(l);
                let expect = if k % 2 == 0 { Some(sim.peer_id(l)) } else { None };
                let run = sim.run.clone();
                run.obs(d as i64, "obs.connect_call", json!({"addr": addr.to_string(), "expected": expect.as_ref().map(|p| run.node_of(p))}));
                let known: Vec<u64> = dials.values().map(|x| x.dial_task).collect();
                let join = tokio::spawn(async move {
                    let r = match expect {
                        Some(p) => net.connect_with_peer_id(addr, p).await,
                        None => net.connect(addr).await,
                    };
                    let result = r.map_err(|e| format!("{e}"));
                    let listed = net.peers();
                    run.obs(
                        d as i64,
                        sim::connect_event(result.as_ref().err().map(|s| s.as_str())),
                        json!({"addr": addr.to_string(), "expected": expect.as_ref().map(|p| run.node_of(p)),
                               "ok": result.is_ok(), "peer": result.as_ref().ok().map(|p| run.node_of(p)),
                               "err": result.as_ref().err(), "listed": result.as_ref().ok().map(|p| listed.contains(p))}),
                    );
                    result
                });
                let Some(f) = wait_for(r_dtls, 200, |f| f["node"] == d as i64 && !known.contains(&f["task"].as_u64().unwrap_or(0))).await else {
                    fail!("the dialing task did not finish TLS within 200 ms on a fault-free network");
                };
                let task = f["task"].as_u64().unwrap();
                let gid = f["gid"].as_u64().unwrap();
                gate::release_matching(r_dtls, |g| g["task"] == task);
                dials.insert(k, Dial { dialer: d, dial_task: task, in_task: None, gid, join: Some(join) });
            }
            "auto" => {
                let k = a;
                let what = s["x"].as_str().unwrap();
                let Some(dl) = dials.get_mut(&k) else { fail!("unknown dial") };
                let gid = dl.gid;
                match what {
                    "ListenerTls" => {
                        let Some(f) = wait_for(r_itls, 200, |f| f["gid"] == gid).await else {
                            fail!("the accepting task did not finish TLS within 200 ms");
                        };
                        dl.in_task = f["task"].as_u64();
                    }
                    "DialerGetsAck" | "DialerSeesClose" => {
                        let task = dl.dial_task;
                        let Some(f) = wait_for(r_ddone, 500, |f| f["task"] == task).await else {
                            fail!("the dialing task did not finish within 500 ms");
                        };
                        let want = what == "DialerGetsAck";
                        if f["ok"] != want {
                            fail!("the dialing task finished with ok={} where the specification has {}", f["ok"], what);
                        }
                    }
                    "ListenerConfirmed" | "ListenerSeesClose" => {
                        let task = dl.in_task.unwrap_or(0);
                        let Some(f) = wait_for(r_idone, 500, |f| f["task"] == task).await else {
                            fail!("the accepting task did not finish within 500 ms");
                        };
                        let want = what == "ListenerConfirmed";
                        if f["ok"] != want {
                            fail!("the accepting task finished with ok={} where the specification has {}", f["ok"], what);
                        }
                    }
                    _ => fail!("unknown auto step"),
                }
            }
            "abandon" => {
                let Some(dl) = dials.get_mut(&a) else { fail!("unknown dial") };
                if let Some(j) = dl.join.take() {
                    j.abort();
                }
                sim.run.obs(b - 1, "obs.note", json!({"what": "connect() call abandoned", "dial": a}));
                settle(&mut sim, 1).await;
            }
            "admit" => {
                let k = a;
                let Some(dl) = dials.get(&k) else { fail!("unknown dial") };
                let task = dl.in_task.unwrap_or(0);
                let before = sim.run.len();
                if !gate::release_matching(r_itls, |f| f["task"] == task) {
                    fail!("no accepting task held at in.tls");
                }
                settle(&mut sim, 3).await;
                let lines = sim.run.lines();
                let verdict = lines[before.min(lines.len())..]
                    .iter()
                    .find(|l| l["ev"] == "in.admission" && l["task"] == task)
                    .map(|l| l["verdict"].clone());
                if verdict.as_ref().and_then(|v| v.as_str()) != s["x"].as_str() {
                    fail!("admission verdict {:?}, the specification has {}", verdict, s["x"]);
                }
            }
            "consume" => {
                let (node, k) = ((a - 1) as usize, b);
                let x = &s["x"];
                let out = x["side"] == "out";
                let Some(dl) = dials.get_mut(&k) else { fail!("unknown dial") };
                let (rule, task) = if out { (r_ddone, dl.dial_task) } else { (r_idone, dl.in_task.unwrap_or(0)) };
                if !gate::release_matching(rule, |f| f["task"] == task && f["node"] == node as i64) {
                    fail!("no finished connecting task held for this node");
                }
                let join = if out { dl.join.take() } else { None };
                let dialer = dl.dialer;
                settle(&mut sim, 3).await;
                if let Some(j) = join {
                    if !j.is_finished() {
                        fail!("connect() has not returned after the manager consumed its dial");
                    }
                    let r = j.await.map_err(|e| e.to_string())?;
                    if r.is_ok() != x["ok"].as_bool().unwrap() {
                        fail!("connect() returned {:?}, the specification has ok={}", r, x["ok"]);
                    }
                    if let Ok(p) = r {
                        let want = sim.peer_id((x["peer"].as_i64().unwrap() - 1) as usize);
                        if p != want {
                            fail!("connect() returned another identity than the party dialed");
                        }
                        let listed = sim.net(dialer).peers().contains(&p);
                        if listed != x["listed"].as_bool().unwrap() {
                            fail!("after connect() returned Ok the peer is listed={}, the specification has {}", listed, x["listed"]);
                        }
                    }
                }
            }
            "hexit" => {
                let (node, k) = ((a - 1) as usize, b);
                let Some(dl) = dials.get(&k) else { fail!("unknown dial") };
                let gid = dl.gid;
                if wait_for(r_hc, 300, |f| f["node"] == node as i64 && f["gid"] == gid).await.is_none() {
                    fail!("the connection's handler has not noticed within 300 ms that the connection ended");
                }
                gate::release_matching(r_hc, |f| f["node"] == node as i64 && f["gid"] == gid);
                settle(&mut sim, 3).await;
            }
            "disconnect" => {
                sim.disconnect((a - 1) as usize, sim.peer_id((b - 1) as usize));
                settle(&mut sim, 2).await;
            }
            "subscribe" => {
                let i = (a - 1) as usize;
                let (_rx, snap) = sim.net(i).subscribe().map_err(|e| e.to_string())?;
                let mut got: Vec<i64> = snap.iter().map(|p| sim.run.node_of(p).as_i64().unwrap_or(-1) + 1).collect();
                got.sort();
                let want: Vec<i64> = s["x"].as_array().unwrap().iter().map(|v| v.as_i64().unwrap()).collect();
                if got != want {
                    fail!("subscription snapshot {:?}, the specification has {:?}", got, want);
                }
            }
            _ => fail!("unknown step"),
        }
        // compare every node with the state the specification requires after this step
        shadow.update(&sim.run.lines());
        for (i, post) in s["post"].as_array().unwrap().iter().enumerate() {
            evals += 1;
            let mut listing: Vec<i64> = sim.net(i).peers().iter().map(|p| sim.run.node_of(p).as_i64().unwrap_or(-1) + 1).collect();
            listing.sort();
            let want: Vec<i64> = post["stored"].as_array().unwrap().iter().map(|e| e["peer"].as_i64().unwrap()).collect();
            if listing != want {
                fail!("node {} lists {:?}, the specification has {:?}", i + 1, listing, want);
            }
            for e in post["stored"].as_array().unwrap() {
                let p = e["peer"].as_i64().unwrap() - 1;
                let k = e["gid"].as_i64().unwrap();
                let want = dials.get(&k).map(|d| (d.gid, e["origin"].as_str().unwrap().to_string()));
                let got = shadow.stored[i].get(&p).cloned();
                if got != want {
                    fail!("node {} stores connection {:?} for peer {}, the specification has dial {} = {:?}", i + 1, got, p + 1, k, want);
                }
            }
            let mut evs = Vec::new();
            loop {
                match logs[i].try_recv() {
                    Ok(PeerEvent::NewPeer(p)) => evs.push(json!({"kind": "new", "peer": sim.run.node_of(&p).as_i64().unwrap_or(-1) + 1, "reason": "-"})),
                    Ok(PeerEvent::LostPeer(p, r)) => evs.push(json!({"kind": "lost", "peer": sim.run.node_of(&p).as_i64().unwrap_or(-1) + 1, "reason": format!("{r:?}")})),
                    Err(TryRecvError::Lagged(k)) => evs.push(json!({"lagged": k})),
                    Err(_) => break,
                }
            }
            if Value::Array(evs.clone()) != post["evs"] {
                fail!("node {} published {}, the specification has {}", i + 1, Value::Array(evs), post["evs"]);
            }
            let want_h: BTreeSet<u64> = post["handlers"].as_array().unwrap().iter()
                .filter_map(|k| dials.get(&k.as_i64().unwrap()).map(|d| d.gid)).collect();
            if shadow.handlers[i] != want_h {
                fail!("node {} has live handlers for connections {:?}, the specification has {:?}", i + 1, shadow.handlers[i], want_h);
            }
        }
    }
    // let everything go and finish like any other run: quiet period, mutual views, clean shutdown
    gate::release_all();
    if let Some(f) = failure {
        for i in 0..n {
            shutdown(&mut sim, i).await;
        }
        return Err(f);
    }
    for d in dials.values_mut() {
        if let Some(j) = d.join.take() {
            let _ = tokio::time::timeout(std::time::Duration::from_secs(120), j).await;
        }
    }
    settle(&mut sim, 13_000).await;
    sim.obs_all_peers();
    sim.run.obs(-1, "obs.quiesce", json!({}));
    for i in 0..n {
        shutdown(&mut sim, i).await;
    }
    sim.drain_events();
    Ok(json!({"steps": steps.len(), "evaluations": evals}))
}

pub fn main(a: &Args) -> i32 {
    let file = a.str("file", "");
    let behs: Vec<Value> = serde_json::from_str(&std::fs::read_to_string(&file).expect("behaviour file")).expect("json");
    let behs = Arc::new(behs);
    let seed0 = a.u64("seed", 1);
    let mut a2 = Args(a.0.clone());
    a2.0.insert("runs".into(), behs.len().to_string());
    run_many(&a2, "replay-conn", move |seed, sim| {
        let beh = Arc::new(behs[(seed - seed0) as usize].clone());
        replay(sim, beh)
    })
}
