//! The remaining anemo-tower layers (request id, set header, classifier, callback, trace): every
//! row of the tables TLC printed from AnemoTowerMisc.tla is executed on the real layer.

use super::{print_summary, Args};
use anemo::{types::response::StatusCode, Request, Response};
use anemo_tower::callback::{CallbackLayer, MakeCallbackHandler, ResponseHandler};
use anemo_tower::classify::{Classifier, StatusInRangeAsFailures};
use anemo_tower::request_id::{MakeRequestId, PropagateRequestIdLayer, RequestId, SetRequestIdLayer};
use anemo_tower::set_header::{SetRequestHeaderLayer, SetResponseHeaderLayer};
use anemo_tower::trace::TraceLayer;
use bytes::Bytes;
use serde_json::{json, Value};
use std::sync::atomic::{AtomicU64, Ordering};
use std::sync::{Arc, Mutex};
use std::task::{Context, Poll};
use tower::{Layer, Service};

/// the wrapped service's error type
#[derive(Debug, Clone, PartialEq)]
struct Status(String);
impl std::fmt::Display for Status {
    fn fmt(&self, f: &mut std::fmt::Formatter<'_>) -> std::fmt::Result {
        write!(f, "{}", self.0)
    }
}
impl Status {
    fn new_with_message(_: StatusCode, m: &str) -> Self {
        Status(m.to_owned())
    }
}

type Fut = std::pin::Pin<Box<dyn std::future::Future<Output = Result<Response<Bytes>, Status>> + Send>>;

fn opt(v: &Value) -> Option<String> {
    match v.as_str().unwrap() {
        "none" => None,
        s => Some(s.to_owned()),
    }
}

fn poll_once(f: &mut Fut) -> Poll<Result<Response<Bytes>, Status>> {
    let waker = futures::task::noop_waker();
    let mut cx = Context::from_waker(&waker);
    f.as_mut().poll(&mut cx)
}

/// The wrapped service: records the request it was given and answers as scripted.
#[derive(Clone)]
struct Scripted {
    seen: Arc<Mutex<Option<Request<Bytes>>>>,
    respond: Arc<dyn Fn() -> Option<Result<Response<Bytes>, Status>> + Send + Sync>, // None: never completes
}

impl Service<Request<Bytes>> for Scripted {
    type Response = Response<Bytes>;
    type Error = Status;
    type Future = Fut;
    fn poll_ready(&mut self, _: &mut Context<'_>) -> Poll<Result<(), Status>> {
        Poll::Ready(Ok(()))
    }
    fn call(&mut self, req: Request<Bytes>) -> Fut {
        *self.seen.lock().unwrap() = Some(req);
        match (self.respond)() {
            Some(r) => Box::pin(async move { r }),
            None => Box::pin(futures::future::pending()),
        }
    }
}

fn scripted(respond: impl Fn() -> Option<Result<Response<Bytes>, Status>> + Send + Sync + 'static) -> Scripted {
    Scripted { seen: Default::default(), respond: Arc::new(respond) }
}

#[derive(Clone)]
struct FixedId(Option<String>);
impl MakeRequestId for FixedId {
    fn make_request_id<B>(&mut self, _: &Request<B>) -> Option<RequestId> {
        self.0.clone().map(RequestId::new)
    }
}

struct CountingHandler {
    resp: Arc<AtomicU64>,
    err: Arc<AtomicU64>,
    dropped: Arc<AtomicU64>,
}
impl Drop for CountingHandler {
    fn drop(&mut self) {
        self.dropped.fetch_add(1, Ordering::SeqCst);
    }
}
impl ResponseHandler for CountingHandler {
    fn on_response(self, _: &Response<Bytes>) {
        self.resp.fetch_add(1, Ordering::SeqCst);
    }
    fn on_error<E>(self, _: &E) {
        self.err.fetch_add(1, Ordering::SeqCst);
    }
}
#[derive(Clone, Default)]
struct MakeCounting {
    made: Arc<AtomicU64>,
    resp: Arc<AtomicU64>,
    err: Arc<AtomicU64>,
    dropped: Arc<AtomicU64>,
}
impl MakeCallbackHandler for MakeCounting {
    type Handler = CountingHandler;
    fn make_handler(&self, _: &Request<Bytes>) -> CountingHandler {
        self.made.fetch_add(1, Ordering::SeqCst);
        CountingHandler { resp: self.resp.clone(), err: self.err.clone(), dropped: self.dropped.clone() }
    }
}

fn outcome_response(o: &str) -> Option<Result<Response<Bytes>, Status>> {
    let body = Bytes::from_static(b"the handler's body");
    match o {
        "ok200" => Some(Ok(Response::new(body).with_header("h", "v"))),
        "ok404" => Some(Ok(Response::new(body).with_status(StatusCode::NotFound).with_header("h", "v"))),
        "ok500" => Some(Ok(Response::new(body).with_status(StatusCode::InternalServerError).with_header("h", "v").with_header("status-message", "boom"))),
        "err" => Some(Err(Status::new_with_message(StatusCode::BadRequest, "refused by the handler"))),
        _ => None,
    }
}

/// the result must be the handler's, untouched
fn same_result(o: &str, got: &Poll<Result<Response<Bytes>, Status>>) -> bool {
    match (outcome_response(o), got) {
        (None, Poll::Pending) => true,
        (Some(Ok(w)), Poll::Ready(Ok(g))) => w.status() == g.status() && w.body() == g.body() && w.headers() == g.headers(),
        (Some(Err(w)), Poll::Ready(Err(g))) => w == *g,
        _ => false,
    }
}

pub fn replay(a: &Args) -> i32 {
    let tables: Value = serde_json::from_str(&std::fs::read_to_string(a.str("table", "")).expect("tables")).unwrap();
    let mut mismatches: Vec<Value> = Vec::new();
    let mut evaluations = 0u64;
    let mut rows = 0usize;
    let mut bad = |what: String, row: &Value| {
        if mismatches.len() < 8 {
            mismatches.push(json!({"what": what, "row": row}));
        }
    };
    let other_name = |n: &str| if n == "request-id" { "x-custom-id" } else { "request-id" };

    // SetRequestId
    for row in tables["misc_setid"].as_array().unwrap() {
        rows += 1;
        evaluations += 1;
        let name = row["name"].as_str().unwrap();
        let inner = scripted(|| Some(Ok(Response::new(Bytes::new()))));
        let layer = if name == "request-id" {
            SetRequestIdLayer::request_id(FixedId(opt(&row["make"])))
        } else {
            SetRequestIdLayer::new(name.to_owned(), FixedId(opt(&row["make"])))
        };
        let mut svc = layer.layer(inner.clone());
        let mut req = Request::new(Bytes::from_static(b"body")).with_route("/r");
        if let Some(h) = opt(&row["hdr"]) {
            req.headers_mut().insert(name.to_owned(), h);
        }
        if let Some(o) = opt(&row["other"]) {
            req.headers_mut().insert(other_name(name).to_owned(), o);
        }
        if let Some(e) = opt(&row["ext"]) {
            req.extensions_mut().insert(RequestId::new(e));
        }
        let mut f: Fut = Box::pin(svc.call(req));
        let _ = poll_once(&mut f);
        let seen = inner.seen.lock().unwrap().take();
        let Some(seen) = seen else { bad("the wrapped service was not called".into(), row); continue };
        let got_hdr = seen.headers().get(name).cloned();
        let got_ext = seen.extensions().get::<RequestId>().map(|r| r.inner().to_owned());
        let got_other = seen.headers().get(other_name(name)).cloned();
        if got_hdr != opt(&row["expect"]["hdr"]) || got_ext != opt(&row["expect"]["ext"]) || got_other != opt(&row["other"])
            || seen.route() != "/r" || seen.body() != &Bytes::from_static(b"body") {
            bad(format!("SetRequestId: wrapped service saw header {got_hdr:?}, extension {got_ext:?}, other header {got_other:?}"), row);
        }
    }

    // PropagateRequestId
    for row in tables["misc_propagate"].as_array().unwrap() {
        rows += 1;
        evaluations += 1;
        let name = row["name"].as_str().unwrap().to_owned();
        let (rs, re, ro) = (opt(&row["resp"]), opt(&row["resp_ext"]), opt(&row["resp_other"]));
        let (n2, o2) = (name.clone(), other_name(&name).to_owned());
        let inner = scripted(move || {
            let mut r = Response::new(Bytes::from_static(b"the handler's body")).with_header("h", "v");
            if let Some(v) = &rs {
                r.headers_mut().insert(n2.clone(), v.clone());
            }
            if let Some(v) = &ro {
                r.headers_mut().insert(o2.clone(), v.clone());
            }
            if let Some(v) = &re {
                r.extensions_mut().insert(RequestId::new(v.clone()));
            }
            Some(Ok(r))
        });
        let layer = if name == "request-id" { PropagateRequestIdLayer::request_id() } else { PropagateRequestIdLayer::new(name.clone()) };
        let mut svc = layer.layer(inner);
        let mut req = Request::new(Bytes::new());
        if let Some(h) = opt(&row["req"]) {
            req.headers_mut().insert(name.clone(), h);
        }
        if let Some(h) = opt(&row["req_other"]) {
            req.headers_mut().insert(other_name(&name).to_owned(), h);
        }
        let mut f: Fut = Box::pin(svc.call(req));
        match poll_once(&mut f) {
            Poll::Ready(Ok(resp)) => {
                let got_hdr = resp.headers().get(&name).cloned();
                let got_ext = resp.extensions().get::<RequestId>().map(|r| r.inner().to_owned());
                let got_other = resp.headers().get(other_name(&name)).cloned();
                if got_hdr != opt(&row["expect"]["hdr"]) || got_ext != opt(&row["expect"]["ext"]) || got_other != opt(&row["expect_other"])
                    || resp.body() != &Bytes::from_static(b"the handler's body") || resp.headers().get("h").map(|s| s.as_str()) != Some("v") {
                    bad(format!("PropagateRequestId: response has header {got_hdr:?}, extension {got_ext:?}, other header {got_other:?}"), row);
                }
            }
            _ => bad("PropagateRequestId: no response".into(), row),
        }
    }

    // SetRequestHeader / SetResponseHeader
    for row in tables["misc_setheader"].as_array().unwrap() {
        rows += 1;
        evaluations += 1;
        let (present, made) = (opt(&row["present"]), opt(&row["made"]));
        let overriding = row["mode"] == "overriding";
        let want = opt(&row["expect"]);
        if row["target"] == "request" {
            let inner = scripted(|| Some(Ok(Response::new(Bytes::new()))));
            let layer = if overriding { SetRequestHeaderLayer::overriding("x-h".to_owned(), made.clone()) } else { SetRequestHeaderLayer::if_not_present("x-h".to_owned(), made.clone()) };
            let mut svc = layer.layer(inner.clone());
            let mut req = Request::new(Bytes::from_static(b"body")).with_header("keep", "k");
            if let Some(p) = &present {
                req.headers_mut().insert("x-h".into(), p.clone());
            }
            let mut f: Fut = Box::pin(svc.call(req));
            let _ = poll_once(&mut f);
            let seen = inner.seen.lock().unwrap().take();
            match seen {
                Some(s) if s.headers().get("x-h").cloned() == want && s.headers().get("keep").map(|x| x.as_str()) == Some("k") && s.headers().len() == 1 + want.is_some() as usize => {}
                Some(s) => bad(format!("SetRequestHeader: wrapped service saw headers {:?}", s.headers()), row),
                None => bad("SetRequestHeader: wrapped service not called".into(), row),
            }
        } else {
            let p2 = present.clone();
            let inner = scripted(move || {
                let mut r = Response::new(Bytes::from_static(b"the handler's body")).with_header("keep", "k");
                if let Some(p) = &p2 {
                    r.headers_mut().insert("x-h".into(), p.clone());
                }
                Some(Ok(r))
            });
            let layer = if overriding { SetResponseHeaderLayer::overriding("x-h".to_owned(), made.clone()) } else { SetResponseHeaderLayer::if_not_present("x-h".to_owned(), made.clone()) };
            let mut svc = layer.layer(inner);
            let mut f: Fut = Box::pin(svc.call(Request::new(Bytes::new())));
            match poll_once(&mut f) {
                Poll::Ready(Ok(r)) if r.headers().get("x-h").cloned() == want && r.headers().get("keep").map(|x| x.as_str()) == Some("k")
                    && r.headers().len() == 1 + want.is_some() as usize && r.body() == &Bytes::from_static(b"the handler's body") => {}
                Poll::Ready(Ok(r)) => bad(format!("SetResponseHeader: response headers {:?}", r.headers()), row),
                _ => bad("SetResponseHeader: no response".into(), row),
            }
            // an error passes through untouched
            let inner = scripted(|| Some(Err(Status::new_with_message(StatusCode::BadRequest, "refused by the handler"))));
            let layer = if overriding { SetResponseHeaderLayer::overriding("x-h".to_owned(), made.clone()) } else { SetResponseHeaderLayer::if_not_present("x-h".to_owned(), made.clone()) };
            let mut svc = layer.layer(inner);
            let mut f: Fut = Box::pin(svc.call(Request::new(Bytes::new())));
            if !same_result("err", &poll_once(&mut f)) {
                bad("SetResponseHeader: an error of the wrapped service did not pass through untouched".into(), row);
            }
        }
    }

    // StatusInRangeAsFailures
    for row in tables["misc_classify"].as_array().unwrap() {
        rows += 1;
        evaluations += 1;
        let c = if row["range"] == "server" { StatusInRangeAsFailures::new_for_server_errors() } else { StatusInRangeAsFailures::new_for_client_and_server_errors() };
        let resp = Response::new(Bytes::new()).with_status(StatusCode::new(row["status"].as_u64().unwrap() as u16).unwrap());
        let failure = c.clone().classify_response(&resp).is_err();
        if failure != row["failure"].as_bool().unwrap() {
            bad(format!("classifier says failure={failure}"), row);
        }
        let _ = c.classify_error(&"an error");
    }

    // Callback
    for row in tables["misc_callback"].as_array().unwrap() {
        rows += 1;
        evaluations += 1;
        let o = row["outcome"].as_str().unwrap().to_owned();
        let o2 = o.clone();
        let inner = scripted(move || outcome_response(&o2));
        let mk = MakeCounting::default();
        let mut svc = CallbackLayer::new(mk.clone()).layer(inner);
        let mut f: Fut = Box::pin(svc.call(Request::new(Bytes::new())));
        let got = poll_once(&mut f);
        let same = same_result(&o, &got);
        drop(got);
        drop(f); // "cancel": dropped before completion
        let e = &row["expect"];
        let counts = (mk.made.load(Ordering::SeqCst), mk.resp.load(Ordering::SeqCst), mk.err.load(Ordering::SeqCst), mk.dropped.load(Ordering::SeqCst));
        let want = (e["made"].as_u64().unwrap(), e["on_response"].as_u64().unwrap(), e["on_error"].as_u64().unwrap(), e["handler_dropped"].as_u64().unwrap());
        if counts != want || !same {
            bad(format!("Callback: (made, on_response, on_error, handler dropped) = {counts:?}, result untouched: {same}"), row);
        }
    }

    // Trace
    for row in tables["misc_trace"].as_array().unwrap() {
        rows += 1;
        evaluations += 1;
        let o = row["outcome"].as_str().unwrap().to_owned();
        let o2 = o.clone();
        let inner = scripted(move || outcome_response(&o2));
        let (nreq, nresp, nfail) = (Arc::new(AtomicU64::new(0)), Arc::new(AtomicU64::new(0)), Arc::new(AtomicU64::new(0)));
        let (a1, a2, a3) = (nreq.clone(), nresp.clone(), nfail.clone());
        let base = if row["range"] == "server" { TraceLayer::new_for_server_errors() } else { TraceLayer::new_for_client_and_server_errors() };
        let layer = base
            .on_request(move |_: &Request<Bytes>, _: &tracing::Span| { a1.fetch_add(1, Ordering::SeqCst); })
            .on_response(move |_: &Response<Bytes>, _: std::time::Duration, _: &tracing::Span| { a2.fetch_add(1, Ordering::SeqCst); })
            .on_failure(move |_: anemo_tower::classify::StatusInRangeFailureClass, _: std::time::Duration, _: &tracing::Span| { a3.fetch_add(1, Ordering::SeqCst); });
        let mut svc = layer.layer(inner);
        let mut f: Fut = Box::pin(svc.call(Request::new(Bytes::new())));
        let got = poll_once(&mut f);
        let same = same_result(&o, &got);
        drop(got);
        drop(f);
        let e = &row["expect"];
        let counts = (nreq.load(Ordering::SeqCst), nresp.load(Ordering::SeqCst), nfail.load(Ordering::SeqCst));
        let want = (e["on_request"].as_u64().unwrap(), e["on_response"].as_u64().unwrap(), e["on_failure"].as_u64().unwrap());
        if counts != want || !same {
            bad(format!("Trace: (on_request, on_response, on_failure) = {counts:?}, result untouched: {same}"), row);
        }
    }
    print_summary(&json!({"evaluations": evaluations, "rows": rows, "mismatches": mismatches}));
    0
}
