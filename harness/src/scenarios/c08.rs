//! C08 (virtual time): a loaded network is shut down - explicitly, twice, concurrently, or by
//! dropping its last handle - at a seed-chosen instant of a workload with RPCs in flight in both
//! directions, an outbound dial hanging on a dead address, inbound handshakes arriving, and API
//! calls racing with the shutdown. Afterwards: it completed within the idle-wait bound, reports
//! closed with no peers, its address can be re-bound at once, every clone of the service is gone,
//! subscribers got their LostPeer events and end-of-stream, weak references are dead, the other
//! nodes saw the disconnect, and every API call issued afterwards fails instead of hanging.

use super::{run_many, Args};
use crate::scenarios::conn::{finish, settle};
use crate::scenarios::rpc::{spawn_call, Call};
use crate::sim::{self, base_config, quic, NodeCfg, Sim};
use anemo::Request;
use bytes::Bytes;
use rand::Rng;
use serde_json::{json, Value};
use std::time::Duration;

async fn run(mut sim: Sim, _seed: u64) -> Result<Value, String> {
    let n = 3;
    let keys = sim::sorted_keys(n, &mut sim.rng);
    let idle_wait = [0u64, 50, 300, 1_000, 4_000][sim.rng.gen_range(0..5)];
    for k in keys {
        let mut config = base_config();
        config.shutdown_idle_timeout_ms = Some(idle_wait);
        config.connect_timeout_ms = Some([500u64, 2_000, 6_000][sim.rng.gen_range(0..3)]);
        // the cap on connections being established: the hanging dial below may be all it allows
        config.max_concurrent_outstanding_connecting_connections = [None, Some(1), Some(2)][sim.rng.gen_range(0..3)];
        // the manager's mailbox may hold a single request: API calls queue up in front of it
        config.connection_manager_channel_capacity = [None, Some(1)][sim.rng.gen_range(0..2)];
        quic(&mut config).max_idle_timeout_ms = Some(10_000);
        quic(&mut config).keep_alive_interval_ms = Some(3_000);
        sim.add_node(NodeCfg { key: k, name: "net".into(), alt: None, config, bind: None }).map_err(|e| e.to_string())?;
    }
    let victim = sim.rng.gen_range(0..n);
    for i in 0..n {
        sim.subscribe(i).unwrap();
    }
    // connections: victim <-> others, in seed-chosen directions
    for o in 0..n {
        if o == victim { continue; }
        let (a, b) = if sim.rng.gen_bool(0.5) { (victim, o) } else { (o, victim) };
        sim.connect(a, sim.addr(b), Some(sim.peer_id(b))).await.map_err(|e| format!("setup: {e}"))?;
    }
    sim.subscribe(victim).unwrap();
    settle(&mut sim, 30).await;
    // a pair that dials again shortly before the shutdown: one of its connections is replaced, and what is
    // left of the replaced one is released by the shutdown like everything else
    if sim.rng.gen_bool(0.5) {
        let o = (victim + 1 + sim.rng.gen_range(0..n - 1)) % n;
        let (a, b) = if sim.rng.gen_bool(0.5) { (victim, o) } else { (o, victim) };
        let _ = sim.connect(a, sim.addr(b), Some(sim.peer_id(b))).await;
        settle(&mut sim, 30).await; // both ends have settled on the surviving connection
    }
    let weak = sim.net(victim).downgrade();
    // load: slow RPCs in both directions
    let mut tasks = Vec::new();
    for _ in 0..sim.rng.gen_range(2..8) {
        let o = (victim + 1 + sim.rng.gen_range(0..n - 1)) % n;
        let (from, to) = if sim.rng.gen_bool(0.5) { (victim, o) } else { (o, victim) };
        let nonce = sim.nonce();
        let mut req = Request::new(sim::body_for(nonce, sim.rng.gen_range(0..50_000), 1)).with_route(format!("/load{nonce}"));
        req.headers_mut().insert("delay-ms".into(), sim.rng.gen_range(0..3_000).to_string());
        tasks.push(spawn_call(&sim, Call { nonce, from, to, request: req, abandon_after: None, abandon_at: None, must_succeed: false }));
    }
    // an outbound dial that hangs (nobody answers) and an inbound handshake arriving
    let dead = sim::next_port();
    sim.run.obs(-1, "obs.addr", json!({"addr": dead.to_string(), "who": -1, "kind": "dead"}));
    for addr in [dead] {
        let net = sim.net(victim).clone();
        let run = sim.run.clone();
        tasks.push(tokio::spawn(async move {
            let r = tokio::time::timeout(Duration::from_secs(120), net.connect(addr)).await;
            let err = match r { Ok(Ok(_)) => None, Ok(Err(e)) => Some(format!("{e}")), Err(_) => Some("HANG".into()) };
            run.obs(victim as i64, sim::connect_event(err.as_deref()), json!({"ok": err.is_none(), "err": err}));
        }));
    }
    let pre = [0u64, 1, 2, 5, 40, 400][sim.rng.gen_range(0..6)];
    settle(&mut sim, pre).await;
    {
        // a peer dials the victim right now: the handshake may be in flight at shutdown
        let o = (victim + 1) % n;
        let net = sim.net(o).clone();
        let run = sim.run.clone();
        let addr = sim.addr(victim);
        tasks.push(tokio::spawn(async move {
            let r = tokio::time::timeout(Duration::from_secs(120), net.connect(addr)).await;
            let (ok, peer, err) = match r { Ok(Ok(p)) => (true, Some(run.node_of(&p)), None), Ok(Err(e)) => (false, None, Some(format!("{e}"))), Err(_) => (false, None, Some("HANG".into())) };
            run.obs(o as i64, sim::connect_event(err.as_deref()), json!({"ok": ok, "peer": peer, "err": err}));
        }));
    }
    let gap = [0u64, 0, 1, 3][sim.rng.gen_range(0..4)];
    settle(&mut sim, gap).await;
    // a burst of connect() calls issued at the very instant of the shutdown: they fill the mailbox
    for _ in 0..sim.rng.gen_range(0..5) {
        let net = sim.net(victim).clone();
        let run = sim.run.clone();
        tasks.push(tokio::spawn(async move {
            let r = tokio::time::timeout(Duration::from_secs(120), net.connect(dead)).await;
            let err = match r { Ok(Ok(_)) => None, Ok(Err(e)) => Some(format!("{e}")), Err(_) => Some("HANG".into()) };
            run.obs(victim as i64, sim::connect_event(err.as_deref()), json!({"ok": err.is_none(), "err": err}));
        }));
    }
    // the shutdown, in one of four ways
    sim.run.obs(-1, "obs.fault", json!({"shutdown": victim}));
    let kind = sim.rng.gen_range(0..4);
    let net = sim.net(victim).clone();
    let t0 = sim.run.now_ms();
    let mut shutdown_results: Vec<Value> = Vec::new();
    match kind {
        0 | 1 | 2 => {
            let copies = if kind == 0 { 1 } else { sim.rng.gen_range(2..5) };
            let mut hs = Vec::new();
            for c in 0..copies {
                let net = net.clone();
                let run = sim.run.clone();
                let addr = sim.addr(victim);
                let live = sim.nodes[victim].live_services.clone();
                hs.push(tokio::spawn(async move {
                    let r = tokio::time::timeout(Duration::from_secs(120), net.shutdown()).await;
                    let ok = matches!(r, Ok(Ok(())));
                    // what this caller finds the instant its own call returns
                    run.obs(victim as i64, "obs.shutdown_return", json!({
                        "copy": c, "ok": ok, "hang": r.is_err(), "closed": net.is_closed(), "peers": net.peers().len(),
                        "rebind": !run.fabric.is_bound(addr) && std::net::UdpSocket::bind(addr).is_ok(),
                        "live_services": live.load(std::sync::atomic::Ordering::SeqCst),
                    }));
                    json!({"copy": c, "ok": ok, "hang": r.is_err()})
                }));
                if kind == 2 {
                    tokio::time::sleep(Duration::from_millis(1)).await;
                }
            }
            for h in hs {
                shutdown_results.push(h.await.unwrap_or(json!({"ok": false, "hang": true})));
            }
        }
        _ => {
            // drop every handle: the application's and ours
            sim.nodes[victim].net = None;
            drop(net);
            let deadline = tokio::time::Instant::now() + Duration::from_secs(120);
            while weak.upgrade().is_some() && tokio::time::Instant::now() < deadline {
                tokio::time::sleep(Duration::from_millis(1)).await;
            }
            // wait for the manager to finish its shutdown sequence
            tokio::time::sleep(Duration::from_millis(idle_wait + 200)).await;
            shutdown_results.push(json!({"ok": true, "hang": false, "dropped": true}));
        }
    }
    // for "drop every handle" the instant of the last drop is not ours to know (in-flight calls
    // hold clones); the hooks' own times (shut.begin .. shut.idle) are what the spec bounds
    let took = if kind == 3 { 0 } else { sim.run.now_ms() - t0 };
    let net_after = sim.nodes[victim].net.clone();
    // API calls after shutdown must fail, not hang
    if let Some(net) = &net_after {
        let calls: Vec<(&str, bool, bool)> = {
            let mut v = Vec::new();
            let r = tokio::time::timeout(Duration::from_secs(60), net.connect(sim.addr((victim + 1) % n))).await;
            v.push(("connect", matches!(r, Ok(Ok(_))), r.is_err()));
            let r = tokio::time::timeout(Duration::from_secs(60), net.rpc(sim.peer_id((victim + 1) % n), Request::new(Bytes::new()))).await;
            v.push(("rpc", matches!(r, Ok(Ok(_))), r.is_err()));
            v.push(("subscribe", net.subscribe().is_ok(), false));
            v.push(("disconnect", net.disconnect(sim.peer_id((victim + 1) % n)).is_ok(), false));
            let r = tokio::time::timeout(Duration::from_secs(60), net.shutdown()).await;
            v.push(("shutdown", matches!(r, Ok(Ok(()))), r.is_err()));
            v
        };
        for (call, ok, hang) in calls {
            sim.run.obs(victim as i64, "obs.api_after", json!({"call": call, "ok": ok, "hang": hang}));
        }
    }
    sim.drain_events();
    let closed = net_after.as_ref().map(|n| n.is_closed()).unwrap_or(true);
    let peers_after = net_after.as_ref().map(|n| n.peers().len()).unwrap_or(0);
    // the address is free again: on the fabric and for a real socket
    let addr = sim.addr(victim);
    let rebind_ok = !sim.run.fabric.is_bound(addr) && std::net::UdpSocket::bind(addr).is_ok();
    sim.run.obs(
        victim as i64,
        "obs.shutdown_result",
        json!({
            "kind": kind, "results": shutdown_results, "took_ms": took, "bound_ms": idle_wait,
            "closed": closed, "peers": peers_after,
            "live_services": sim.nodes[victim].live_services.load(std::sync::atomic::Ordering::SeqCst),
            "upgrade": weak.upgrade().is_some(), "rebind": rebind_ok,
        }),
    );
    sim.nodes[victim].net = None;
    drop(net_after);
    for t in tasks {
        let _ = tokio::time::timeout(Duration::from_secs(300), t).await;
    }
    // the others keep working; restart the victim on the same address
    sim.restart_node(victim).map_err(|e| format!("VIOLATION: restart on the same address failed: {e}"))?;
    sim.subscribe(victim).unwrap();
    let o = (victim + 1) % n;
    let _ = sim.connect(o, sim.addr(victim), Some(sim.peer_id(victim))).await;
    finish(&mut sim, 10_000).await;
    Ok(json!({"kind": kind, "took_ms": took, "bound_ms": idle_wait}))
}

pub fn main(a: &Args) -> i32 {
    run_many(a, "c08", move |seed, sim| run(sim, seed))
}
