//! Decision tables emitted by TLC, concretised against the real functions (spec -> impl).

use super::{print_summary, Args};
use anemo::{ConnectionOrigin, PeerId};
use rand::{rngs::StdRng, Rng, SeedableRng};
use serde_json::{json, Value};

fn origin(s: &str) -> ConnectionOrigin {
    if s == "in" {
        ConnectionOrigin::Inbound
    } else {
        ConnectionOrigin::Outbound
    }
}

/// rows: [{own, remote, existing, new, drop_existing}] with small naturals standing for PeerIds
/// in PeerId order. Each row is concretised `per_row` times with random 32-byte ids in that order
/// (including ids differing only in the last byte, and in the first byte).
pub fn tiebreak(a: &Args) -> i32 {
    let rows: Vec<Value> =
        serde_json::from_str(&std::fs::read_to_string(a.str("table", "")).expect("table file")).unwrap();
    let per_row = a.u64("per_row", 500) as usize;
    let mut rng = StdRng::seed_from_u64(a.u64("seed", 1));
    let mut mismatches = Vec::new();
    let mut evaluations = 0u64;
    for row in &rows {
        let (o, r) = (row["own"].as_u64().unwrap(), row["remote"].as_u64().unwrap());
        for k in 0..per_row {
            let mut x: [u8; 32] = rng.gen();
            let mut y: [u8; 32] = rng.gen();
            match k % 4 {
                1 => {
                    // differ only in the last byte
                    y = x;
                    y[31] = x[31].wrapping_add(1 + rng.gen_range(0..254));
                }
                2 => {
                    // differ only in the first byte
                    y = x;
                    y[0] = x[0].wrapping_add(1 + rng.gen_range(0..254));
                }
                _ => {}
            }
            if x == y {
                continue;
            }
            if x > y {
                std::mem::swap(&mut x, &mut y);
            }
            // x < y as PeerIds; assign so that the order matches the row's naturals
            let (own, remote) = if o < r { (PeerId(x), PeerId(y)) } else { (PeerId(y), PeerId(x)) };
            let got = anemo::verif::direct::tie_break(
                &own,
                &remote,
                origin(row["existing"].as_str().unwrap()),
                origin(row["new"].as_str().unwrap()),
            );
            evaluations += 1;
            if got != row["drop_existing"].as_bool().unwrap() && mismatches.len() < 5 {
                mismatches.push(json!({"row": row, "own": hex::encode(own.0), "remote": hex::encode(remote.0), "got": got}));
            }
        }
    }
    print_summary(&json!({"table": "tiebreak", "rows": rows.len(), "evaluations": evaluations, "mismatches": mismatches}));
    0
}
