//! C06: a connected hostile peer. The victim V and an honest peer H are real networks; the
//! adversary A is a raw quinn endpoint with a valid identity that dials V and then misbehaves on
//! its streams: every class of malformed bytes the decoder distinguishes (AnemoWire's error
//! states), truncation of a valid request at every offset, absurd length prefixes, then finish /
//! reset / stop / abandon at each point, unidirectional streams (finished, left open), datagrams,
//! abrupt close and reconnect. Throughout, H's RPCs to V and A's own well-formed RPCs on sibling
//! streams must succeed with correct results; V must not panic or shut down.

use super::{run_many, Args};
use crate::adversary as adv;
use crate::scenarios::conn::{node_cfg, settle, shutdown, Opts};
use crate::scenarios::rpc::{req_header_size, spawn_call, Call};
use crate::sim::{self, Sim};
use anemo::Request;
use bytes::Bytes;
use rand::{rngs::StdRng, Rng, SeedableRng};
use rustls::pki_types::CertificateDer;
use serde_json::{json, Value};
use std::time::Duration;

fn valid_request(route: &str, headers: &[(&str, &str)], body: &[u8]) -> Vec<u8> {
    adv::encode_request(route, headers, body)
}

/// byte strings per decoder error class (and some that are merely odd)
fn hostile_payload(rng: &mut StdRng, class: usize) -> Vec<u8> {
    let valid = valid_request("/hostile/x", &[("hostile", "1")], b"payload");
    match class {
        0 => (0..rng.gen_range(0..200)).map(|_| rng.gen()).collect(),       // random bytes
        1 => valid[..rng.gen_range(0..valid.len())].to_vec(),               // truncated valid request
        2 => { let mut v = valid.clone(); v[rng.gen_range(0..5)] ^= 0x20; v }   // bad magic
        3 => { let mut v = valid.clone(); v[6] = rng.gen_range(2..=255); v }    // unknown version
        4 => { let mut v = valid.clone(); v[7] = 1; v }                         // reserved byte
        5 => { let mut v = adv::PREAMBLE.to_vec(); v.extend_from_slice(&[0xff, 0xff, 0xff, 0xff]); v } // 4 GiB frame
        6 => { let mut v = adv::PREAMBLE.to_vec(); v.extend_from_slice(&(9u32 << 20).to_be_bytes()); v.extend_from_slice(&[0; 64]); v } // 9 MiB frame
        7 => {
            // header frame whose route length claims 2^64-1 bytes
            let mut v = adv::PREAMBLE.to_vec();
            let mut h = u64::MAX.to_le_bytes().to_vec();
            h.extend_from_slice(b"abc");
            v.extend_from_slice(&(h.len() as u32).to_be_bytes());
            v.extend_from_slice(&h);
            v.extend_from_slice(&0u32.to_be_bytes());
            v
        }
        8 => {
            // header map claiming 2^64-1 entries
            let mut v = adv::PREAMBLE.to_vec();
            let mut h = 1u64.to_le_bytes().to_vec();
            h.push(b'/');
            h.extend_from_slice(&u64::MAX.to_le_bytes());
            v.extend_from_slice(&(h.len() as u32).to_be_bytes());
            v.extend_from_slice(&h);
            v.extend_from_slice(&0u32.to_be_bytes());
            v
        }
        9 => {
            // invalid UTF-8 route
            let mut v = adv::PREAMBLE.to_vec();
            let mut h = 2u64.to_le_bytes().to_vec();
            h.extend_from_slice(&[0xff, 0xfe]);
            h.extend_from_slice(&0u64.to_le_bytes());
            v.extend_from_slice(&(h.len() as u32).to_be_bytes());
            v.extend_from_slice(&h);
            v.extend_from_slice(&0u32.to_be_bytes());
            v
        }
        10 => { let mut v = valid.clone(); let i = rng.gen_range(8..v.len()); v[i] ^= 1 << rng.gen_range(0..8); v } // mutated valid
        11 => adv::PREAMBLE.to_vec(),                                        // preamble only
        12 => { let mut v = valid.clone(); let n = v.len(); v.truncate(n - 7 - 4); v.extend_from_slice(&u32::MAX.to_be_bytes()); v } // body length absurd
        13 => valid_request(&"/".repeat(rng.gen_range(0..3000)), &[("hostile", "1")], b""), // odd long route, well-formed
        15 => valid_request("", &[("hostile", "1")], b"empty route"),          // well-formed, empty route
        16 => valid_request(["x", "\0", " ", "?", "\u{feff}/", "*", "/:a/*b"][rng.gen_range(0..7)], &[("hostile", "1")], b""), // odd short routes
        17 => {
            // well-formed, many / empty / odd headers
            let many: Vec<(String, String)> = (0..rng.gen_range(0..400)).map(|i| (format!("h{i}"), "v".repeat(i % 7))).collect();
            let mut hs: Vec<(&str, &str)> = many.iter().map(|(k, v)| (k.as_str(), v.as_str())).collect();
            hs.extend_from_slice(&[("hostile", "1"), ("", ""), ("timeout", "-1"), ("status-message", "\0"), ("delay-ms", "x")]);
            valid_request("/hostile/headers", &hs, b"")
        }
        18 => valid_request("/hostile/slow", &[("hostile", "1"), ("delay-ms", "4000")], b"slow"),   // handler still running later
        19 => valid_request("/hostile/hold", &[("hostile", "1"), ("hold", "1")], b"never answered"),
        // well-formed, deadlines at the edges of what the timeout header can say
        20 => valid_request("/hostile/deadline", &[("hostile", "1"), ("delay-ms", "30"),
                ("timeout", ["0", "1", "999", "1000000", "18446744073709551615", "18446744073709551616", "00", "+5", " 7"][rng.gen_range(0..9)])], b"deadline"),
        // typed methods of generated services given payloads their codec cannot decode: wrong JSON
        // type with a long non-ASCII string (the error text quotes it), broken JSON, bad bincode
        21 => {
            let ch = ['\u{e9}', '\u{20ac}', '\u{1d11e}'][rng.gen_range(0..3)];
            let text = format!("\"{}{}\"", "a".repeat(rng.gen_range(0..4)), ch.to_string().repeat(rng.gen_range(60..700)));
            valid_request(["/p.q.Greeter/SayHello", "/c17.Probe/OptJ", "/Greeter/Say", "/c17.Probe/UnitJ"][rng.gen_range(0..4)], &[("hostile", "1")], text.as_bytes())
        }
        22 => valid_request(["/Greeter/SayHello", "/c17.Probe/OptB", "/Greeter/Say", "/Greeter/NoSuchMethod", "/c17.Probe/"][rng.gen_range(0..5)],
                            &[("hostile", "1")], &[[0xffu8; 3].to_vec(), b"{".to_vec(), vec![], vec![7; 5000],
                              // bincode: a = 1, then a string whose length prefix claims 2^64 - 1 / 2^63 bytes
                              [&[1u8, 0, 0, 0][..], &[0xff; 8][..], b"abc"].concat(), [&[1u8, 1, 0, 0, 0][..], &[0, 0, 0, 0, 0, 0, 0, 0x80][..]].concat()][rng.gen_range(0..6)]),
        _ => valid_request(&format!("/{}", "é".repeat(rng.gen_range(30..120))), &[("hostile", "1")], b""), // long multi-byte route
    }
}

async fn run(mut sim: Sim, seed: u64, streams: usize) -> Result<Value, String> {
    let o = Opts { nodes: 2, ops: 0, faults: false, restarts: false, known: false, limit: None, idle_ms: 30_000, keepalive_ms: Some(5_000), hetero: false };
    let keys = sim::sorted_keys(3, &mut sim.rng);
    // identity indexes: V and H are nodes 0 and 1; the adversary is registered as 100
    let a_key = keys[2];
    // the victim also serves generated (typed, bincode / JSON) services
    sim::WITH_GENERATED.with(|c| c.set(true));
    for k in &keys[..2] {
        sim.add_node(node_cfg(*k, &o)).map_err(|e| e.to_string())?;
    }
    sim::WITH_GENERATED.with(|c| c.set(false));
    let (v, h) = (0usize, 1usize);
    let a_id = sim::peer_id_of(&a_key);
    sim.run.register_node(a_id, 100);
    sim.connect(h, sim.addr(v), Some(sim.peer_id(v))).await.map_err(|e| format!("setup: {e}"))?;
    sim.subscribe(v).unwrap();
    let mut rng = StdRng::seed_from_u64(seed ^ 0xc06);
    let a_cert = adv::honest_cert(&a_key, "net");
    let mut honest = Vec::new();
    let mut hostile_streams = 0u64;
    let mut well_formed = 0u64;
    let rounds = 3;
    for round in 0..rounds {
        let (ep, _addr) = adv::endpoint(&sim.run.fabric, None).map_err(|e| e.to_string())?;
        let cc = adv::client_config(Some((vec![CertificateDer::from(a_cert.as_ref().to_vec())], adv::ed_key_der(&a_key))), None);
        let conn = ep.connect_with(cc, sim.addr(v), "net").map_err(|e| e.to_string())?.await.map_err(|e| format!("adversary connect: {e}"))?;
        sim.run.obs(100, "adv.dial_tls", json!({"gid": adv::gid_of(&sim.run, &conn), "to": v}));
        adv::dialer_wait_ack(&conn).await.map_err(|e| format!("adversary ack: {e}"))?;
        settle(&mut sim, 20).await;
        for k in 0..streams {
            // honest traffic keeps flowing: H -> V, must succeed
            if k % 3 == 0 {
                let nonce = sim.nonce();
                let mut req = Request::new(sim::body_for(nonce, rng.gen_range(0..3000), 1)).with_route(format!("/h{nonce}"));
                req.headers_mut().insert("delay-ms".into(), rng.gen_range(0..40).to_string());
                honest.push(spawn_call(&sim, Call { nonce, from: h, to: v, request: req, abandon_after: None, abandon_at: None, must_succeed: true }));
            }
            // the adversary's own well-formed RPC on a sibling stream
            if k % 4 == 1 {
                let nonce = sim.nonce();
                well_formed += 1;
                let body = sim::body_for(nonce, rng.gen_range(0..500), 2);
                let nonce_s = nonce.to_string();
                let route = format!("/adv{nonce}");
                let bytes = valid_request(&route, &[("nonce", &nonce_s)], &body);
                let mut hm = std::collections::HashMap::new();
                hm.insert("nonce".to_string(), nonce_s.clone());
                sim.run.obs(100, "obs.rpc_call", json!({"nonce": nonce, "to": v, "route": route, "len": body.len(),
                    "digest": sim::digest(&body), "hdigest": sim::headers_digest(&hm), "nheaders": 1,
                    "hsize": req_header_size(&route, &hm), "raw": true}));
                // the hostile peer never ends its connection before the end of the round and the network is
                // fault-free: a connection that is gone here was ended by the victim
                let (mut tx, mut rx) = conn.open_bi().await.map_err(|e| format!(
                    "VIOLATION: the victim ended the hostile peer's connection while that peer kept it open ({e}): a malformed, truncated, reset or abandoned request must affect its own stream only"))?;
                let run = sim.run.clone();
                honest.push(tokio::spawn(async move {
                    let r: anyhow::Result<adv::RawResponse> = async {
                        tx.write_all(&bytes).await?;
                        tx.finish()?;
                        let data = rx.read_to_end(1 << 20).await?;
                        adv::decode_response(&data[..])
                    }.await;
                    match r {
                        Ok(resp) => run.obs(100, "obs.rpc_result", json!({"nonce": nonce, "ok": true, "status": resp.status,
                            "len": resp.body.len(), "digest": sim::digest(&resp.body), "hdigest": sim::headers_digest(&resp.headers),
                            "resp_nonce": resp.headers.get("nonce").and_then(|v| v.parse::<u64>().ok()), "must_succeed": true, "raw": true})),
                        Err(e) => run.obs(100, "obs.rpc_result", json!({"nonce": nonce, "ok": false, "err": format!("{e}"), "must_succeed": true})),
                    }
                }));
            }
            // one hostile stream
            hostile_streams += 1;
            let class = rng.gen_range(0..23);
            let payload = hostile_payload(&mut rng, class);
            let ending = rng.gen_range(0..6);
            sim.run.obs(100, "adv.stream", json!({"class": class, "len": payload.len(), "ending": ending}));
            match rng.gen_range(0..10) {
                0 => {
                    // unidirectional stream, finished or left open
                    if let Ok(mut u) = conn.open_uni().await {
                        let _ = u.write_all(&payload[..payload.len().min(100)]).await;
                        if ending % 2 == 0 { let _ = u.finish(); } else { std::mem::forget(u); }
                    }
                }
                1 => {
                    let _ = conn.send_datagram(Bytes::from(payload[..payload.len().min(500)].to_vec()));
                }
                _ => {
                    if let Ok(Ok((mut tx, mut rx))) = tokio::time::timeout(Duration::from_secs(5), conn.open_bi()).await {
                        // write in two parts with a pause in between
                        let cut = if payload.is_empty() { 0 } else { rng.gen_range(0..=payload.len()) };
                        let _ = tx.write_all(&payload[..cut]).await;
                        if rng.gen_bool(0.3) { sim.sleep_ms(rng.gen_range(0..5)).await; }
                        match ending {
                            0 => { let _ = tx.write_all(&payload[cut..]).await; let _ = tx.finish(); }
                            1 => { let _ = tx.reset(7u32.into()); }
                            2 => { let _ = rx.stop(9u32.into()); let _ = tx.write_all(&payload[cut..]).await; let _ = tx.finish(); }
                            3 => { drop(tx); drop(rx); }
                            4 => { let _ = tx.write_all(&payload[cut..]).await; let _ = tx.finish(); let _ = tokio::time::timeout(Duration::from_millis(20), rx.read_to_end(1 << 16)).await; }
                            _ => { std::mem::forget(tx); std::mem::forget(rx); } // left open, silent
                        }
                    }
                }
            }
            if k % 5 == 0 {
                settle(&mut sim, rng.gen_range(0..8)).await;
            }
        }
        // complete requests whose handlers take their time, each followed by as much trailing data as
        // the stream's flow control takes (the streams stay open): whatever piles up behind requests that
        // are being handled, a further well-formed request on the connection goes through
        if round == 1 {
            let mut kept = Vec::new();
            let mut trailing = 0usize;
            for _ in 0..12 {
                if let Ok(Ok((mut tx, rx))) = tokio::time::timeout(Duration::from_secs(5), conn.open_bi()).await {
                    let req = valid_request("/hostile/slow", &[("hostile", "1"), ("delay-ms", "20000")], b"x");
                    let _ = tokio::time::timeout(Duration::from_millis(30), tx.write_all(&req)).await;
                    let chunk = vec![0u8; 64 * 1024];
                    for _ in 0..32 {
                        match tokio::time::timeout(Duration::from_millis(30), tx.write_all(&chunk)).await {
                            Ok(Ok(())) => trailing += chunk.len(),
                            _ => break,
                        }
                    }
                    kept.push((tx, rx));
                }
            }
            sim.run.obs(100, "adv.stream", json!({"class": 23, "len": trailing, "ending": "trailing-data-behind-pending-requests"}));
            let nonce = sim.nonce();
            well_formed += 1;
            let nonce_s = nonce.to_string();
            let route = format!("/adv{nonce}");
            let bytes = valid_request(&route, &[("nonce", &nonce_s)], b"after the flood");
            let mut hm = std::collections::HashMap::new();
            hm.insert("nonce".to_string(), nonce_s.clone());
            sim.run.obs(100, "obs.rpc_call", json!({"nonce": nonce, "to": v, "route": route, "len": 15,
                "digest": sim::digest(b"after the flood"), "hdigest": sim::headers_digest(&hm), "nheaders": 1,
                "hsize": req_header_size(&route, &hm), "raw": true}));
            let exchange = async {
                let (mut tx, mut rx) = conn.open_bi().await?;
                tx.write_all(&bytes).await?;
                tx.finish()?;
                let data = rx.read_to_end(1 << 20).await?;
                adv::decode_response(&data[..])
            };
            let r: anyhow::Result<adv::RawResponse> = match tokio::time::timeout(Duration::from_secs(3), exchange).await {
                Ok(r) => r,
                Err(_) => Err(anyhow::anyhow!("the request could not even be sent / was not answered")),
            };
            match r {
                Ok(resp) => sim.run.obs(100, "obs.rpc_result", json!({"nonce": nonce, "ok": true, "status": resp.status,
                    "len": resp.body.len(), "digest": sim::digest(&resp.body), "hdigest": sim::headers_digest(&resp.headers),
                    "resp_nonce": resp.headers.get("nonce").and_then(|v| v.parse::<u64>().ok()), "must_succeed": true, "raw": true})),
                Err(e) => sim.run.obs(100, "obs.rpc_result", json!({"nonce": nonce, "ok": false, "err": format!("no answer within 3 s behind {trailing} bytes of trailing data on 12 pending requests: {e}"), "must_succeed": true})),
            }
            for (tx, rx) in kept {
                std::mem::forget(tx);
                std::mem::forget(rx);
            }
        }
        // well-formed requests that carry tens of thousands of headers (a few megabytes, within every
        // limit): taking them in costs the victim no more than reading them - a handful of them does not
        // bring the node to a halt (the run's real-time budget is what notices)
        if round == 2 {
            let t0 = std::time::Instant::now();
            for _ in 0..4 {
                if let Ok(Ok((mut tx, rx))) = tokio::time::timeout(Duration::from_secs(5), conn.open_bi()).await {
                    let names: Vec<String> = (0..30_000).map(|i| format!("X-Meta-{i:05}-{}", rng.gen_range(0..1000))).collect();
                    let hs: Vec<(&str, &str)> = names.iter().map(|n| (n.as_str(), "v")).collect();
                    let req = valid_request("/hostile/many-headers", &hs, b"x");
                    sim.run.obs(100, "adv.stream", json!({"class": 24, "len": req.len(), "ending": "30000-headers"}));
                    let _ = tokio::time::timeout(Duration::from_secs(5), tx.write_all(&req)).await;
                    let _ = tx.finish();
                    std::mem::forget(tx);
                    std::mem::forget(rx);
                }
            }
            settle(&mut sim, 500).await;
            let took = t0.elapsed().as_secs();
            if took >= 20 {
                return Err(format!("VIOLATION: four well-formed requests with 30 000 headers each kept the victim's thread busy for {took} s of real time (reading them takes a fraction of a second)"));
            }
        }
        settle(&mut sim, 200).await;
        // requests whose handlers are still running when the connection ends
        for _ in 0..rng.gen_range(0..9) {
            if let Ok(Ok((mut tx, rx))) = tokio::time::timeout(Duration::from_secs(5), conn.open_bi()).await {
                let class = 18 + rng.gen_range(0..2);
                let payload = hostile_payload(&mut rng, class);
                sim.run.obs(100, "adv.stream", json!({"class": class, "len": payload.len(), "ending": "inflight-at-close"}));
                let _ = tx.write_all(&payload).await;
                let _ = tx.finish();
                std::mem::forget(tx);
                std::mem::forget(rx);
            }
        }
        settle(&mut sim, rng.gen_range(0..30)).await;
        // abrupt end of the connection, in different ways; then reconnect
        match round % 3 {
            0 => conn.close(rng.gen_range(0..1000u32).into(), [&b"bye"[..], &[0xff, 0xfe, 0x00, 0xc3][..], &[0x80; 200][..]][rng.gen_range(0..3)]),
            1 => drop(conn),
            _ => { ep.close(u32::MAX.into(), &[0xc3, 0x28]); }
        }
        drop(ep);
        settle(&mut sim, 300).await;
        sim.obs_all_peers();
    }
    // a peer that keeps coming back, each time leaving a connection's worth of requests behind whose
    // handlers never answer: whatever the victim counts per request is given back when the connection
    // ends, however it ends - after more than a thousand of them it serves as on the first day
    if seed % 4 == 1 {
        for visit in 0..12u32 {
            let (ep, _addr) = adv::endpoint(&sim.run.fabric, None).map_err(|e| e.to_string())?;
            let cc = adv::client_config(Some((vec![CertificateDer::from(a_cert.as_ref().to_vec())], adv::ed_key_der(&a_key))), None);
            let conn = ep.connect_with(cc, sim.addr(v), "net").map_err(|e| e.to_string())?.await.map_err(|e| format!("adversary connect: {e}"))?;
            sim.run.obs(100, "adv.dial_tls", json!({"gid": adv::gid_of(&sim.run, &conn), "to": v}));
            adv::dialer_wait_ack(&conn).await.map_err(|e| format!("adversary ack: {e}"))?;
            let payload = hostile_payload(&mut rng, 19);
            let mut left = 0u32;
            for _ in 0..95 {
                if let Ok(Ok((mut tx, rx))) = tokio::time::timeout(Duration::from_secs(5), conn.open_bi()).await {
                    let _ = tx.write_all(&payload).await;
                    let _ = tx.finish();
                    std::mem::forget(tx);
                    std::mem::forget(rx);
                    left += 1;
                    hostile_streams += 1;
                }
            }
            sim.run.obs(100, "adv.stream", json!({"class": 19, "len": payload.len(), "ending": "left-behind-at-close", "count": left, "visit": visit}));
            settle(&mut sim, 40).await;
            match visit % 3 {
                0 => conn.close(7u32.into(), b"back soon"),
                1 => drop(conn),
                _ => { ep.close(0u32.into(), b""); }
            }
            drop(ep);
            settle(&mut sim, 150).await;
        }
        settle(&mut sim, 300).await;
    }
    for t in honest {
        let _ = tokio::time::timeout(Duration::from_secs(600), t).await;
    }
    // V is alive and serving
    let nonce = sim.nonce();
    let t = spawn_call(&sim, Call { nonce, from: h, to: v, request: Request::new(Bytes::from_static(b"still there?")).with_route("/final"),
        abandon_after: None, abandon_at: None, must_succeed: true });
    let _ = tokio::time::timeout(Duration::from_secs(600), t).await;
    let closed = sim.net(v).is_closed();
    sim.run.obs(v as i64, "obs.alive", json!({"closed": closed}));
    if closed {
        return Err("VIOLATION: the victim network shut down".into());
    }
    settle(&mut sim, 200).await;
    sim.run.obs(-1, "obs.rpc_quiet", json!({}));
    for i in 0..2 {
        shutdown(&mut sim, i).await;
    }
    Ok(json!({"hostile_streams": hostile_streams, "well_formed": well_formed}))
}

pub fn main(a: &Args) -> i32 {
    let streams = a.u64("streams", 60) as usize;
    run_many(a, "c06", move |seed, sim| run(sim, seed, streams))
}
