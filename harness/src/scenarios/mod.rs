pub mod smoke;

use serde_json::Value;
use std::collections::HashMap;

/// `key=value` arguments after the subcommand.
pub struct Args(pub HashMap<String, String>);

impl Args {
    pub fn parse(args: &[String]) -> Self {
        Self(
            args.iter()
                .filter_map(|a| a.split_once('=').map(|(k, v)| (k.to_owned(), v.to_owned())))
                .collect(),
        )
    }
    pub fn u64(&self, k: &str, d: u64) -> u64 {
        self.0.get(k).and_then(|v| v.parse().ok()).unwrap_or(d)
    }
    pub fn str(&self, k: &str, d: &str) -> String {
        self.0.get(k).cloned().unwrap_or_else(|| d.to_owned())
    }
}

pub fn dispatch(args: &[String]) -> i32 {
    let Some(cmd) = args.first() else {
        eprintln!("usage: harness <scenario> key=value...");
        return 2;
    };
    let a = Args::parse(&args[1..]);
    match cmd.as_str() {
        "smoke" => smoke::main(&a),
        other => {
            eprintln!("unknown scenario {other}");
            2
        }
    }
}

/// Summary JSON printed on the last line of stdout for the driver.
pub fn print_summary(v: &Value) {
    println!("SUMMARY {}", v);
}
