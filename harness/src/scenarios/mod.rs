#[cfg(feature = "direct")]
pub mod apreplay;
#[cfg(feature = "direct")]
pub mod apstress;
pub mod c03;
pub mod c05;
pub mod c06;
pub mod c08;
pub mod c10;
pub mod c13;
#[cfg(feature = "direct")]
pub mod ident;
pub mod limstress;
pub mod oddcfg;
pub mod codegen;
pub mod router;
pub mod rpc;
pub mod conn;
pub mod connreplay;
pub mod smoke;
#[cfg(feature = "direct")]
pub mod tables;
pub mod teardown;
pub mod tower;
pub mod towermisc;
#[cfg(feature = "direct")]
pub mod wire;

use serde_json::Value;
use std::collections::HashMap;

/// `key=value` arguments after the subcommand.
pub struct Args(pub HashMap<String, String>);

impl Args {
    pub fn parse(args: &[String]) -> Self {
        Self(
            args.iter()
                .filter_map(|a| a.split_once('=').map(|(k, v)| (k.to_owned(), v.to_owned())))
                .collect(),
        )
    }
    pub fn u64(&self, k: &str, d: u64) -> u64 {
        self.0.get(k).and_then(|v| v.parse().ok()).unwrap_or(d)
    }
    pub fn str(&self, k: &str, d: &str) -> String {
        self.0.get(k).cloned().unwrap_or_else(|| d.to_owned())
    }
}

pub fn dispatch(args: &[String]) -> i32 {
    let Some(cmd) = args.first() else {
        eprintln!("usage: harness <scenario> key=value...");
        return 2;
    };
    let a = Args::parse(&args[1..]);
    match cmd.as_str() {
        "smoke" => smoke::main(&a),
        "conn" => conn::main(&a),
        "handler-panic" => conn::handler_panic(&a),
        "c05" => c05::main(&a),
        "c03" => c03::main(&a),
        "c06" => c06::main(&a),
        "c08" => c08::main(&a),
        "teardown" => teardown::main(&a),
        #[cfg(feature = "direct")]
        "apstress" => apstress::main(&a),
        #[cfg(feature = "direct")]
        "replay-ap" => apreplay::replay(&a),
        "replay-conn" => connreplay::main(&a),
        "c10" => c10::main(&a),
        "c13" => c13::main(&a),
        "rpc" => rpc::main(&a),
        #[cfg(feature = "direct")]
        "table-tiebreak" => tables::tiebreak(&a),
        "replay-inflight" => tower::replay_inflight(&a),
        "replay-auth" => tower::replay_auth(&a),
        #[cfg(feature = "direct")]
        "replay-wire" => wire::replay(&a),
        #[cfg(feature = "direct")]
        "replay-identity" => ident::replay(&a),
        "replay-codegen" => codegen::replay(&a),
        "codegen-cancel" => codegen::cancel(&a),
        "codegen-relay" => codegen::relay(&a),
        #[cfg(feature = "direct")]
        "codegen-deadline" => codegen::deadline(&a),
        "replay-router" => router::replay(&a),
        "replay-rate" => tower::replay_rate(&a),
        "rate-hint-probe" => tower::rate_hint_probe(&a),
        "rate-stale-probe" => tower::rate_stale_probe(&a),
        "limstress" => limstress::main(&a),
        "oddcfg" => oddcfg::main(&a),
        "replay-towermisc" => towermisc::replay(&a),
        #[cfg(not(feature = "direct"))]
        "apstress" | "replay-ap" | "table-tiebreak" | "replay-wire" | "replay-identity" | "codegen-deadline" => {
            // built without the direct-drive wrappers (they do not compile against this tree)
            print_summary(&serde_json::json!({"unavailable": format!("scenario {cmd} needs anemo::verif::direct, which does not build against this tree")}));
            0
        }
        other => {
            eprintln!("unknown scenario {other}");
            2
        }
    }
}

/// Summary JSON printed on the last line of stdout for the driver.
pub fn print_summary(v: &Value) {
    println!("SUMMARY {}", v);
}

use crate::sim::{RunOutput, Sim};
use serde_json::json;
use std::future::Future;
use std::sync::{
    atomic::{AtomicU64, Ordering},
    Arc, Mutex,
};

/// Run `runs` simulations (seeds seed..seed+runs) on `jobs` OS threads, write their traces into
/// `files` ndjson files (runs separated by `reset` lines) and print a SUMMARY line.
pub fn run_many<F, Fut>(a: &Args, name: &str, f: F) -> i32
where
    F: Fn(u64, Sim) -> Fut + Send + Sync + 'static,
    Fut: Future<Output = Result<Value, String>>,
{
    let seed0 = a.u64("seed", 1);
    let runs = a.u64("runs", 4);
    let jobs = a.u64("jobs", 8).max(1);
    let files = a.u64("files", 4).max(1) as usize;
    let out = a.str("out", &format!("/verif/work/{name}"));
    let f = Arc::new(f);
    let next = Arc::new(AtomicU64::new(0));
    let results: Arc<Mutex<Vec<(u64, RunOutput)>>> = Arc::new(Mutex::new(Vec::new()));
    // runs in progress and when they started (real time): a run whose thread spins without ever
    // yielding (a wedged runtime) can neither finish nor be cancelled, so it is reported instead
    let in_progress: Arc<Mutex<std::collections::HashMap<u64, std::time::Instant>>> = Default::default();
    let wedge_s = a.u64("wedge_s", 300);
    let done_workers = Arc::new(AtomicU64::new(0));
    let n_workers = jobs.min(runs.max(1));
    for _ in 0..n_workers {
        let f = f.clone();
        let next = next.clone();
        let results = results.clone();
        let in_progress = in_progress.clone();
        let done_workers = done_workers.clone();
        std::thread::spawn(move || {
            loop {
                let i = next.fetch_add(1, Ordering::SeqCst);
                if i >= runs {
                    break;
                }
                let seed = seed0 + i;
                let f = f.clone();
                in_progress.lock().unwrap().insert(seed, std::time::Instant::now());
                let outp = crate::sim::run_sim(seed, move |sim| f(seed, sim));
                in_progress.lock().unwrap().remove(&seed);
                results.lock().unwrap().push((seed, outp));
            }
            done_workers.fetch_add(1, Ordering::SeqCst);
        });
    }
    let mut wedged: Vec<u64> = Vec::new();
    while done_workers.load(Ordering::SeqCst) < n_workers {
        std::thread::sleep(std::time::Duration::from_millis(50));
        let stuck: Vec<u64> = in_progress.lock().unwrap().iter()
            .filter(|(_, t)| t.elapsed().as_secs() >= wedge_s).map(|(s, _)| *s).collect();
        if !stuck.is_empty() {
            wedged = stuck;
            break;
        }
    }
    let mut results = std::mem::take(&mut *results.lock().unwrap());
    results.sort_by_key(|(s, _)| *s);
    let mut file_lines: Vec<Vec<Value>> = vec![Vec::new(); files];
    let mut summary = Vec::new();
    for (k, (seed, outp)) in results.iter().enumerate() {
        let fi = k % files;
        let start = file_lines[fi].len() + 1;
        file_lines[fi].push(crate::trace::reset_line(*seed, json!({})));
        file_lines[fi].extend(outp.lines.iter().cloned());
        summary.push(json!({
            "seed": seed,
            "file": format!("{out}.{fi}.ndjson"),
            "first_line": start,
            "last_line": file_lines[fi].len(),
            "events": outp.lines.len(),
            "panics": outp.panics,
            "result": match &outp.result { Ok(v) => json!({"ok": v}), Err(e) => json!({"err": e}) },
            "virtual_ms": outp.virtual_ms,
        }));
    }
    let mut written = Vec::new();
    for (fi, lines) in file_lines.iter().enumerate() {
        if lines.is_empty() {
            continue;
        }
        let path = format!("{out}.{fi}.ndjson");
        crate::trace::write_ndjson(std::path::Path::new(&path), lines).expect("write trace");
        written.push(path);
    }
    wedged.sort();
    print_summary(&json!({"scenario": name, "files": written, "runs": summary, "wedged": wedged, "wedge_s": wedge_s}));
    if !wedged.is_empty() {
        // the stuck threads cannot be joined
        std::process::exit(0);
    }
    0
}
