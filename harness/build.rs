// Generates typed clients/servers with /repo's anemo-build for a handful of service definitions;
// the harness compiles them and drives typed calls through a real Router (C17).
fn svc(pkg: &str, name: &str, methods: &[(&str, &str, &str, bool)]) -> anemo_build::manual::Service {
    let mut b = anemo_build::manual::Service::builder().name(name).package(pkg);
    for (fn_name, route, codec, raw) in methods {
        b = b.method(
            anemo_build::manual::Method::builder()
                .name(*fn_name)
                .route_name(*route)
                .request_type("crate::gen::Msg")
                .response_type("crate::gen::Msg")
                .codec_path(*codec)
                .server_handler_return_raw_bytes(*raw)
                .build(),
        );
    }
    b.build()
}

fn typed(fn_name: &str, route: &str, codec: &str, ty: &str) -> anemo_build::manual::Method {
    anemo_build::manual::Method::builder()
        .name(fn_name)
        .route_name(route)
        .request_type(ty)
        .response_type(ty)
        .codec_path(codec)
        .build()
}

fn main() {
    const BIN: &str = "anemo::rpc::codec::BincodeCodec";
    const JSON: &str = "anemo::rpc::codec::JsonCodec";
    let services = [
        svc("", "Greeter", &[("say_hello", "SayHello", BIN, false), ("say", "Say", JSON, false)]),
        svc("", "Greet", &[("say_hello", "SayHello", BIN, false), ("x", "x", BIN, true)]),
        svc("p.q", "Greeter", &[("say_hello", "SayHello", JSON, false)]),
        svc("p", "Empty", &[]),
    ];
    // message types whose encoding may be empty (unit) or that accept JSON null (Option)
    let probe = anemo_build::manual::Service::builder()
        .name("Probe")
        .package("c17")
        .method(typed("unit_b", "UnitB", BIN, "crate::gen::Unit"))
        .method(typed("unit_j", "UnitJ", JSON, "crate::gen::Unit"))
        .method(typed("opt_b", "OptB", BIN, "Option<crate::gen::Msg>"))
        .method(typed("opt_j", "OptJ", JSON, "Option<crate::gen::Msg>"))
        .build();
    let services: Vec<anemo_build::manual::Service> = services.into_iter().chain(std::iter::once(probe)).collect();
    anemo_build::manual::Builder::new().compile(&services);
    println!("cargo:rerun-if-changed=build.rs");
    println!("cargo:rerun-if-changed=/repo/crates/anemo-build/src");
}
