"""One function per property: what TLC decides on the specification, what is replayed into /
recorded from the real code, and how a rejection maps to a violation key."""
import json, os
import vlib
from vlib import harness, tlc_mc, trace_check, log

REGISTRY = {}


def prop(pid):
    def deco(f):
        REGISTRY[pid] = f
        return f
    return deco


def quick(chk):
    return chk.tier == "quick"


def sample_events(chk, summary, evs, n=4):
    """put a few recorded events of the given kinds into the evidence samples"""
    if not summary["files"]:
        return
    got = 0
    for line in open(summary["files"][0]):
        r = json.loads(line)
        if r.get("ev") in evs:
            chk.sample(r)
            got += 1
            if got >= n:
                break


def count_cases(chk, summary, key_fn):
    """count distinct non-trivial cases among all recorded events"""
    for f in summary["files"]:
        for line in open(f):
            r = json.loads(line)
            k = key_fn(r)
            if k is not None:
                chk.case(k)


CONN_TRACE = ("AnemoConnTrace.tla", "AnemoConnTrace.cfg")


def conn_histories(chk, label, **kw):
    summ = harness("conn", out=os.path.join(vlib.WORK, f"{chk.pid}_{label}"), **kw)
    summ["args"] = kw
    trace_check(chk, *CONN_TRACE, summ, label=label)
    return summ


@prop("C04")
def c04(chk):
    chk.rule = ("cases = (operation on the active set, outcome, origin pair / reason) observed in recorded runs; "
                "non-trivial = the operation found an existing entry for the peer (replace / reject / remove / stale exit)")
    chk.assumptions = ["subscribers keep up with the broadcast channel (lagged receivers out of scope)",
                       "quinn delivers close notifications / idle timeouts as QUIC specifies"]
    chk.add_mc(tlc_mc("MC_Conn.tla", "MC_Conn_quick.cfg" if quick(chk) else "MC_Conn_thorough.cfg",
                      workers=8 if quick(chk) else 14, timeout=300 if quick(chk) else 1800))
    runs = 24 if quick(chk) else 600
    s1 = conn_histories(chk, "hist", seed=chk.seed, runs=runs, jobs=12, files=8, nodes=3, ops=40,
                        faults=1, restarts=1, known=1)
    s2 = conn_histories(chk, "hist4", seed=chk.seed + 10_000, runs=runs // 3, jobs=12, files=8, nodes=4,
                        ops=80, faults=1, restarts=1, known=1)
    for s in (s1, s2):
        count_cases(chk, s, lambda r: (
            (r["ev"], r.get("outcome"), r.get("origin"), r.get("old_origin"), r.get("reason"), "removed" in r)
            if r["ev"] in ("ap.add", "ap.remove", "ap.remove_id") and (r.get("outcome") != "new") else None))
    sample_events(chk, s1, ("ap.add", "ap.remove_id", "obs.event"))


def table_check(chk, table_name, rows, scenario, **kw):
    """replay a TLC-emitted decision table into the real code; every mismatch is a violation"""
    path = vlib.write_json(os.path.join(vlib.WORK, f"{chk.pid}_{table_name}.json"), rows)
    summ = harness(scenario, table=path, seed=chk.seed, **kw)
    chk.parts.setdefault("tables", []).append({"table": table_name, "rows": len(rows), "evaluations": summ["evaluations"]})
    chk.evaluations += summ["evaluations"]
    for r in rows:
        chk.distinct.add((table_name, json.dumps(r, sort_keys=True)))
    for m in summ["mismatches"]:
        chk.violation(f"table:{table_name}:{json.dumps(m.get('row'), sort_keys=True)[:120]}",
                      f"real code disagrees with the specification's {table_name} table: {json.dumps(m)[:400]}", m)
    if rows:
        chk.sample({"table": table_name, "row": rows[0]})
    return summ


@prop("C05")
def c05(chk):
    chk.rule = ("cases = distinct sequences of (node, origin, add outcome / handler exit) in which the two connections of a "
                "mutual dial were registered and closed on the two sides, as realised by schedule gates and by random "
                "latency/loss; plus rows of the tie-break table x random id pairs")
    chk.assumptions = ["both handshakes finish (the property's premise): runs where a dial failed are still validated "
                       "by the trace spec but not required to converge on a connection"]
    chk.add_mc(tlc_mc("MC_Conn.tla", "MC_Conn_c05.cfg", workers=4, timeout=300))
    tables = vlib.tlc_tables("TieBreakTable.tla", "TieBreakTable.cfg")
    table_check(chk, "tiebreak", tables["tiebreak"], "table-tiebreak", per_row=400 if quick(chk) else 20000)
    runs = 48 if quick(chk) else 48 * 8
    for label, gated, seed in (("gated", 1, chk.seed * 48), ("random", 0, 100_000 + chk.seed)):
        summ = harness("c05", out=os.path.join(vlib.WORK, f"C05_{label}"), seed=seed,
                       runs=runs if gated else runs * (1 if quick(chk) else 3), jobs=12, files=8, gated=gated)
        summ["args"] = {"gated": gated}
        trace_check(chk, *CONN_TRACE, summ, label=label)
        # distinct orders realised
        for f in summ["files"]:
            seq = []
            for line in open(f):
                r = json.loads(line)
                if r["ev"] == "reset":
                    if seq:
                        chk.case(tuple(seq))
                    seq = []
                elif r["ev"] == "ap.add":
                    seq.append((r["node"], r["origin"], r["outcome"]))
                elif r["ev"] == "ap.remove_id" and "removed" in r and len(seq) < 6:
                    seq.append((r["node"], "exit", r["reason"]))
            if seq:
                chk.case(tuple(seq))
        sample_events(chk, summ, ("ap.add",), n=3)
