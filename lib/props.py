"""One function per property: what TLC decides on the specification, what is replayed into /
recorded from the real code, and how a rejection maps to a violation key."""
import json, os
import vlib
from vlib import harness, tlc_mc, trace_check, log, spec_mutant

REGISTRY = {}


def prop(pid):
    def deco(f):
        REGISTRY[pid] = f
        return f
    return deco


def quick(chk):
    return chk.tier == "quick"


def sample_events(chk, summary, evs, n=4):
    """put a few recorded events of the given kinds into the evidence samples"""
    if not summary["files"]:
        return
    got = 0
    for line in open(summary["files"][0]):
        r = json.loads(line)
        if r.get("ev") in evs:
            chk.sample(r)
            got += 1
            if got >= n:
                break


def count_cases(chk, summary, key_fn):
    """count distinct non-trivial cases among all recorded events"""
    for f in summary["files"]:
        for line in open(f):
            r = json.loads(line)
            k = key_fn(r)
            if k is not None:
                chk.case(k)


CONN_TRACE = ("AnemoConnTrace.tla", "AnemoConnTrace.cfg")


def conn_histories(chk, label, **kw):
    summ = harness("conn", out=os.path.join(vlib.WORK, f"{chk.pid}_{label}"), **kw)
    summ["args"] = kw
    trace_check(chk, *CONN_TRACE, summ, label=label)
    return summ


def conn_replay(chk, label, cfg, num=0, depth=100, exhaustive=False, validate=None):
    """specification -> implementation for the connection manager: behaviours of MC_ConnReplay (MC_Conn's
    actions, fast-network priority) are executed on real Networks with schedule gates at in.tls, dial.done,
    in.done and h.closing; listing, subscriber events, connect() results, stored connection / origin and
    live handlers are compared on every node after every step; the recorded runs are validated by
    AnemoConnTrace as well (all files, or the first `validate`)."""
    beh, viol = vlib.tlc_replays("MC_ConnReplay.tla", cfg, num=num, depth=depth, exhaustive=exhaustive,
                                 workers=4 if exhaustive else 1, timeout=1800)
    if viol:
        chk.violation("model:" + viol, "TLC: %s in %s" % (viol, cfg), {})
    if not beh:
        chk.tool_errors.append("no behaviours generated from %s" % cfg)
        return
    path = vlib.write_json(os.path.join(vlib.WORK, "%s_%s.json" % (chk.pid, label)), beh)
    summ = harness("replay-conn", file=path, out=os.path.join(vlib.WORK, "%s_%s" % (chk.pid, label)), jobs=12, files=8,
                   seed=1)
    summ["args"] = {"cfg": cfg}
    steps = sum(len(b["steps"]) for b in beh)
    chk.parts.setdefault("replays", []).append({"name": label, "cfg": cfg, "behaviours": len(beh), "steps": steps,
                                                "exhaustive": exhaustive})
    chk.evaluations += steps
    for b in beh:
        chk.distinct.add(json.dumps([(st["op"], st["a"], st["b"], st["x"] if isinstance(st["x"], str) else "") for st in b["steps"]]))
    if beh:
        chk.sample({"replay-conn": [(st["op"], st["a"], st["b"]) for st in beh[0]["steps"]][:14]})
    if validate is not None:
        keep = set(summ["files"][:validate])
        skipped = [r for r in summ["runs"] if r["file"] not in keep]
        summ["files"] = [f for f in summ["files"] if f in keep]
        summ["runs"] = [r for r in summ["runs"] if r["file"] in keep]
        # runs whose trace is not validated here still count through their step-by-step comparison
        for r in skipped:
            if r["panics"]:
                chk.violation("%s:panic:%s" % (label, r["panics"][0][:80]), "panic in the code under test: %s" % r["panics"][0][:300], {"run": r})
            elif "err" in r["result"]:
                e = r["result"]["err"]
                if e.startswith("VIOLATION"):
                    chk.violation("%s:%s" % (label, e[:100]), "%s (behaviour %d of %s)" % (e, r["seed"], cfg), {"run": r, "behaviour": beh[r["seed"] - 1]})
                else:
                    chk.tool_errors.append("replay-conn %s behaviour %d: %s" % (cfg, r["seed"], e))
        chk.traces += len(skipped)
    trace_check(chk, *CONN_TRACE, summ, label=label)


def replay_check(chk, name, summ):
    part = {k: v for k, v in summ.items() if k != "mismatches"}
    part["name"] = name
    chk.parts.setdefault("replays", []).append(part)
    chk.evaluations += summ.get("evaluations", 0)
    # every TLC-generated behaviour / table row executed on the implementation and compared step by
    # step counts as one trace validated against the implementation
    chk.traces += summ.get("replayed", 0) + summ.get("rows", 0) + summ.get("handshakes", 0)
    for m in summ["mismatches"]:
        chk.violation("replay:%s:%s" % (name, str(m.get("what"))[:100]),
                      "real code diverges from the specification's behaviour (%s): %s" % (name, json.dumps(m)[:600]), m)


@prop("C04")
def c04(chk):
    chk.rule = ("cases = (operation on the active set, outcome, origin pair / reason) observed in recorded runs; "
                "non-trivial = the operation found an existing entry for the peer (replace / reject / remove / stale exit)")
    chk.assumptions = ["subscribers keep up with the broadcast channel (lagged receivers out of scope)",
                       "quinn delivers close notifications / idle timeouts as QUIC specifies"]
    chk.add_mc(tlc_mc("MC_Conn.tla", "MC_Conn_quick.cfg" if quick(chk) else "MC_Conn_thorough.cfg",
                      workers=8 if quick(chk) else 14, timeout=900 if quick(chk) else 5400))
    if not quick(chk):
        # three networks, three dials in any directions, a disconnect: 12.3 M states
        chk.add_mc(tlc_mc("MC_Conn.tla", "MC_Conn_3n.cfg", workers=12, timeout=3600))
    runs = 24 if quick(chk) else 600
    s1 = conn_histories(chk, "hist", seed=chk.seed, runs=runs, jobs=12, files=8, nodes=3, ops=40,
                        faults=1, restarts=1, known=1)
    s2 = conn_histories(chk, "hist4", seed=chk.seed + 10_000, runs=runs // 3, jobs=12, files=8, nodes=4,
                        ops=80, faults=1, restarts=1, known=1)
    for s in (s1, s2):
        count_cases(chk, s, lambda r: (
            (r["ev"], r.get("outcome"), r.get("origin"), r.get("old_origin"), r.get("reason"), "removed" in r)
            if r["ev"] in ("ap.add", "ap.remove", "ap.remove_id") and (r.get("outcome") != "new") else None))
    sample_events(chk, s1, ("ap.add", "ap.remove_id", "obs.event"))
    # connections replaced under RPCs in flight (calls through Network::rpc and Peer handles that fail
    # with their old connection): nothing but the application's own disconnect() removes a peer by identity
    s3 = harness("rpc", out=os.path.join(vlib.WORK, "C04_rpcreplace"), mode="replace", faults=0, calls=60, seed=chk.seed,
                 runs=8 if quick(chk) else 200, jobs=12, files=4)
    s3["args"] = {"mode": "replace"}
    trace_check(chk, *CONN_TRACE, s3, label="rpc-replace")
    # an application handler that panics while serving one request: whatever becomes of the node, it never
    # keeps listing a peer whose connection is gone
    replay_check(chk, "handler-panic", harness("handler-panic"))
    # (b) several OS threads on the real ActivePeers with real connections; linearised by the
    # sequence number taken under the lock
    st = harness("apstress", seed=chk.seed, runs=4 if quick(chk) else 60, threads=6, ops=150 if quick(chk) else 300,
                 out=os.path.join(vlib.WORK, "C04_apstress"))
    res = vlib.tlc_trace("ApTrace.tla", "ApTrace.cfg", st["trace"], timeout=3000) if st["trace"] else \
        {"states": 0, "lines": 0, "ok": True, "error": None}
    chk.traces += len(st["runs"])
    chk.trace_states += res["states"]
    chk.parts.setdefault("traces", []).append({"scenario": "apstress", "runs": len(st["runs"]), "events": res["lines"]})
    if res.get("error"):
        chk.tool_errors.append(f"apstress trace: {res['error']} {res.get('tail', '')}")
    elif not res["ok"]:
        rec = vlib.read_trace(st["trace"])[res["rejected_line"] - 1]
        chk.violation(f"apstress:{rec.get('ev')}",
                      f"multi-thread history of ActivePeers is not linearisable to the specification at line "
                      f"{res['rejected_line']}: {json.dumps(rec)[:400]}", {"trace": st["trace"], "record": rec})
    for r in st["runs"]:
        if r["dup_listing"]:
            chk.violation("apstress:dup_listing", f"peers() returned a duplicate (seed {r['seed']})", r)
    # (c) specification -> implementation: every behaviour of the ActivePeers state machine (MC_Ap)
    # up to a depth, and long random walks, executed on the real ActivePeers with real connections
    chk.add_mc(tlc_mc("MC_Ap.tla", "MC_Ap_quick.cfg" if quick(chk) else "MC_Ap.cfg", workers=8, timeout=900))
    beh, viol = vlib.tlc_replays("MC_Ap.tla", "SIM_Ap_ex3.cfg" if quick(chk) else "SIM_Ap_ex4.cfg", exhaustive=True, workers=4)
    if viol:
        chk.violation("model:" + viol, "TLC: %s in MC_Ap" % viol, {})
    walks, viol2 = vlib.tlc_replays("MC_Ap.tla", "SIM_Ap.cfg", num=300 if quick(chk) else 5000, depth=16)
    for name, bs in (("ap-exhaustive", beh), ("ap-walks", walks)):
        path = vlib.write_json(os.path.join(vlib.WORK, "C04_%s.json" % name), bs)
        summ = harness("replay-ap", file=path, threads=8)
        replay_check(chk, name, summ)
    for b in beh + walks:
        for s in b["steps"]:
            if s["ret"] in ("replaced", "rejected", "removed"):
                chk.distinct.add(json.dumps(("replay", s["op"], s["ret"], s["origin"], len(s["post"]["listing"]))))
    spec_mutant(chk, "ap_no_lost_on_replace", "MC_Ap.tla", "MC_Ap_quick.cfg", [MUT_NO_LOST_ON_REPLACE], workers=4)
    # (c') the same direction for the whole manager: behaviours of MC_Conn (dials, admission, finished tasks
    # consumed in any order, stale and live handler exits, disconnects, subscriptions) driven through real
    # Networks with schedule gates, every node compared after every step
    conn_replay(chk, "mgr-replay2", "SIM_ConnReplay.cfg", num=120 if quick(chk) else 4000, depth=100)
    conn_replay(chk, "mgr-replay3", "SIM_ConnReplay3.cfg", num=60 if quick(chk) else 2000, depth=120)
    if not quick(chk):
        # every behaviour with two dials among three networks (5994), exhaustively
        conn_replay(chk, "mgr-exhaustive3", "SIM_ConnReplay_3ex.cfg", exhaustive=True, validate=4)
    # (d) unbounded: ApProof abstracts the active set to stored / last event / closed; TLAPS proves its
    # invariant for any number of peers and connections, TLC checks that MC_Ap refines it
    # (PROPERTY RefinesApProof in MC_Ap*.cfg), and a proof mutant must fail
    proved, nobl, tail = vlib.tlaps_prove("ApProofs.tla")
    chk.parts.setdefault("proofs", []).append({"module": "ApProofs.tla", "theorem": "Spec => []Inv", "obligations": nobl, "proved": proved})
    if not proved:
        chk.tool_errors.append("TLAPS did not prove ApProofs.tla: " + " ".join(tail.split())[-400:])
    mproved, _, _ = vlib.tlaps_prove("ApProofs.tla", edits=[("ApProof.tla", 'ok\' = (ok /\\ last[p] = "new")          \\* Lost after New, then New after Lost',
                                                              'ok\' = (ok /\\ last[p] # "new")')])
    chk.parts["proofs"].append({"module": "ApProofs.tla", "mutant": "replace_publishes_only_new", "refuted": not mproved})
    if mproved:
        chk.tool_errors.append("proof mutant replace_publishes_only_new was proved: the proof is vacuous")
    if not quick(chk):
        spec_mutant(chk, "remove_by_peer", "MC_Conn.tla", "MC_Conn_quick.cfg", [MUT_REMOVE_BY_PEER])
        spec_mutant(chk, "no_lost_on_replace", "MC_Conn.tla", "MC_Conn_quick.cfg", [MUT_NO_LOST_ON_REPLACE])


def table_check(chk, table_name, rows, scenario, **kw):
    """replay a TLC-emitted decision table into the real code; every mismatch is a violation"""
    path = vlib.write_json(os.path.join(vlib.WORK, f"{chk.pid}_{table_name}.json"), rows)
    summ = harness(scenario, table=path, seed=chk.seed, **kw)
    chk.parts.setdefault("tables", []).append({"table": table_name, "rows": len(rows), "evaluations": summ["evaluations"]})
    chk.evaluations += summ["evaluations"]
    for r in rows:
        chk.distinct.add((table_name, json.dumps(r, sort_keys=True)))
    for m in summ["mismatches"]:
        chk.violation(f"table:{table_name}:{json.dumps(m.get('row'), sort_keys=True)[:120]}",
                      f"real code disagrees with the specification's {table_name} table: {json.dumps(m)[:400]}", m)
    if rows:
        chk.sample({"table": table_name, "row": rows[0]})
    return summ


@prop("C05")
def c05(chk):
    chk.rule = ("cases = distinct sequences of (node, origin, add outcome / handler exit) in which the two connections of a "
                "mutual dial were registered and closed on the two sides, as realised by schedule gates and by random "
                "latency/loss; plus rows of the tie-break table x random id pairs")
    chk.assumptions = ["both handshakes finish (the property's premise): runs where a dial failed are still validated "
                       "by the trace spec but not required to converge on a connection"]
    chk.add_mc(tlc_mc("MC_Conn.tla", "MC_Conn_c05.cfg", workers=4, timeout=900))
    chk.add_mc(tlc_mc("MC_Conn.tla", "MC_Conn_abandon.cfg", workers=4, timeout=1500))   # connect() calls may be dropped mid-dial
    spec_mutant(chk, "tiebreak_inverted", "MC_Conn.tla", "MC_Conn_c05.cfg", [MUT_TIEBREAK], workers=4)
    # liveness under weak fairness of transport / manager / handler steps: after a mutual dial both sides end
    # - for ever - on the connection dialed by the greater identity, and the event streams fall silent
    chk.add_mc(tlc_mc("MC_Conn.tla", "MC_Conn_live_c05.cfg", workers=4, timeout=900))
    spec_mutant(chk, "live_arrival_order_wins", "MC_Conn.tla", "MC_Conn_live_c05.cfg",
                [("AnemoConn.tla", "THEN IF TieBreak(n, p, cur[p].origin, o)", "THEN IF TRUE")], workers=4)
    tables = vlib.tlc_tables("TieBreakTable.tla", "TieBreakTable.cfg")
    table_check(chk, "tiebreak", tables["tiebreak"], "table-tiebreak", per_row=400 if quick(chk) else 20000)
    # the active set itself, on real connections and real threads (MC_Ap, every behaviour to depth 3): which
    # connection survives an add is the tie-break's verdict, whatever the order and however long the stored
    # connection has been up (a few behaviours pause for seconds of real time before the second add)
    ap_beh, ap_viol = vlib.tlc_replays("MC_Ap.tla", "SIM_Ap_ex3.cfg", exhaustive=True, workers=4)
    if ap_viol:
        chk.violation("model:" + ap_viol, "TLC: %s in MC_Ap" % ap_viol, {})
    replay_check(chk, "ap-exhaustive", harness("replay-ap", file=vlib.write_json(os.path.join(vlib.WORK, "C05_ap.json"), ap_beh), threads=8))
    # every behaviour of MC_Conn with two dials between the pair (mutual, and twice the same way) - every order
    # in which admissions, the four finished tasks and the handler exits can be taken - replayed on real
    # Networks through schedule gates (exhaustive: 1262 behaviours), every node compared after every step
    conn_replay(chk, "mutual-exhaustive", "SIM_ConnReplay_c05.cfg", exhaustive=True, validate=2 if quick(chk) else None)
    # ... and with connect() calls abandoned at any point of their dial (41 482 behaviours: random walks)
    conn_replay(chk, "mutual-abandon", "SIM_ConnReplay_c05ab.cfg", num=150 if quick(chk) else 6000, depth=80,
                validate=2 if quick(chk) else None)
    runs = 48 if quick(chk) else 48 * 8
    for label, gated, seed in (("gated", 1, chk.seed * 48), ("random", 0, 100_000 + chk.seed)):
        summ = harness("c05", out=os.path.join(vlib.WORK, f"C05_{label}"), seed=seed,
                       runs=runs if gated else runs * (1 if quick(chk) else 3), jobs=12, files=8, gated=gated)
        summ["args"] = {"gated": gated}
        trace_check(chk, *CONN_TRACE, summ, label=label)
        # distinct orders realised
        for f in summ["files"]:
            seq = []
            for line in open(f):
                r = json.loads(line)
                if r["ev"] == "reset":
                    if seq:
                        chk.case(tuple(seq))
                    seq = []
                elif r["ev"] == "ap.add":
                    seq.append((r["node"], r["origin"], r["outcome"]))
                elif r["ev"] == "ap.remove_id" and "removed" in r and len(seq) < 6:
                    seq.append((r["node"], "exit", r["reason"]))
            if seq:
                chk.case(tuple(seq))
        sample_events(chk, summ, ("ap.add",), n=3)


MUT_TIEBREAK = ("AnemoConn.tla", '[] existing = "in"  /\\ new = "out" -> remote < own', '[] existing = "in"  /\\ new = "out" -> own < remote')
MUT_REMOVE_BY_PEER = ("AnemoConn.tla", "RemovesOwn(n, p, g) == p \\in DOMAIN active[n] /\\ active[n][p].gid = g", "RemovesOwn(n, p, g) == p \\in DOMAIN active[n]")
MUT_NO_LOST_ON_REPLACE = ("AnemoConn.tla", 'evs     |-> <<Lost(p, "Requested"), New(p)>>,', 'evs     |-> <<New(p)>>,')
MUT_LIMIT_OFF_BY_ONE = ("AnemoConn.tla", "ELSE Cardinality(DOMAIN active[n]) < cfg[n].limit", "ELSE Cardinality(DOMAIN active[n]) <= cfg[n].limit")
MUT_BACKOFF_GE = ("AnemoConn.tla", "(p \\in DOMAIN bo => t > bo[p].notBefore)", "(p \\in DOMAIN bo => t >= bo[p].notBefore)")
MUT_NO_ROTATION = ("AnemoConn.tla", "((IF p \\in DOMAIN bo THEN bo[p].attempts ELSE 0) % Len(known[n][p].addrs)) + 1", "1")
MUT_DIAL_ALLOWED = ("AnemoConn.tla", '/\\ known[n][p].aff = "High"', '/\\ known[n][p].aff \\in {"High", "Allowed"}')
MUT_DIAL_SELF = ("AnemoConn.tla", "        /\\ p # n\n", "")


@prop("C03")
def c03(chk):
    chk.rule = ("cases = (address owner kind, pin given?, pin matches owner?, outcome) per dial recorded; non-trivial = the "
                "party answering is not the pinned identity, or an adversary listens (replayed certificate / own certificate)")
    chk.assumptions = ["the adversary cannot forge Ed25519 signatures (it holds only its own key)"]
    chk.add_mc(tlc_mc("MC_Conn.tla", "MC_Conn_quick.cfg" if quick(chk) else "MC_Conn_thorough.cfg",
                      workers=8 if quick(chk) else 14, timeout=900 if quick(chk) else 5400))
    runs = 16 if quick(chk) else 400
    for label, lossy in (("clean", 0), ("lossy", 1)):
        summ = harness("c03", out=os.path.join(vlib.WORK, f"C03_{label}"), seed=chk.seed + 1000 * lossy,
                       runs=runs, jobs=12, files=8, lossy=lossy)
        summ["args"] = {"lossy": lossy}
        trace_check(chk, *CONN_TRACE, summ, label=label)
        for f in summ["files"]:
            addr_kind, calls = {}, {}
            for line in open(f):
                r = json.loads(line)
                if r["ev"] == "reset":
                    addr_kind = {}
                elif r["ev"] == "obs.addr":
                    addr_kind[r["addr"]] = r.get("kind")
                elif r["ev"] == "obs.node_start":
                    addr_kind[r["addr"]] = f"honest{r['node']}"
                elif r["ev"] in ("obs.connect_result",) and "addr" in r:
                    chk.case((addr_kind.get(r["addr"]), r.get("expected"), r["ok"], r.get("peer")))
        sample_events(chk, summ, ("obs.connect_result", "dial.done"), n=3)
    # specification -> implementation: every connect() of a replayed MC_Conn behaviour returns the
    # specification's result, the identity of the party dialed, with the peer listed when it returns Ok
    conn_replay(chk, "dial-replay", "SIM_ConnReplay.cfg", num=80 if quick(chk) else 2500, depth=100)
    if not quick(chk):
        spec_mutant(chk, "remove_by_peer", "MC_Conn.tla", "MC_Conn_quick.cfg", [MUT_REMOVE_BY_PEER])


@prop("C09")
def c09(chk):
    chk.rule = ("cases = (fault kind active, close cause, reason reported by the other side) per handler exit recorded, "
                "plus quiescence observations; non-trivial = the two sides' views had to be reconciled (close, "
                "rejection, loss, restart) or a partition outlasted the idle timeout")
    chk.assumptions = ["'no later than the idle timeout' is read as QUIC's idle-timeout rule (RFC 9000 10.1): a survivor that "
                       "keeps sending (keep-alive, new RPC) restarts its timer once, so the bound is idle + keep-alive interval "
                       "(+ the last send) - see DESIGN.md"]
    chk.add_mc(tlc_mc("MC_Conn.tla", "MC_Conn_quick.cfg" if quick(chk) else "MC_Conn_thorough.cfg",
                      workers=8 if quick(chk) else 14, timeout=900 if quick(chk) else 5400))
    # the environment assumption behind the deadline rules (QUIC's idle timer, RFC 9000 10.1) as a model of
    # its own: the bounds the trace specification uses follow from it; that a survivor can outlive
    # cut + idle when it sent nothing after the cut but loss preceded its last receipt is reachable
    chk.add_mc(tlc_mc("QuicIdle.tla", "MC_QuicIdle.cfg", workers=2, timeout=900))
    chk.add_mc(tlc_mc("QuicIdle.tla", "MC_QuicIdle_ka.cfg", workers=2, timeout=900))
    spec_mutant(chk, "quic_idle_survivor_can_outlive_cut_plus_idle", "QuicIdle.tla", "MC_QuicIdle_long.cfg", [], workers=2)
    # liveness under weak fairness (timeouts, disconnects and dials stay up to the environment): views become
    # mutual for ever, no handler outlives its listing, the event streams fall silent
    chk.add_mc(tlc_mc("MC_Conn.tla", "MC_Conn_live.cfg", workers=4, timeout=1500))
    spec_mutant(chk, "live_stale_exit_removes_replacement", "MC_Conn.tla", "MC_Conn_live.cfg", [MUT_REMOVE_BY_PEER], workers=4)
    runs = 24 if quick(chk) else 700
    for label, kw in (("ka", dict(keepalive=3000, nodes=3, ops=50)),
                      ("noka", dict(keepalive=0, nodes=3, ops=50)),
                      ("four", dict(keepalive=3000, nodes=4, ops=90)),
                      # every node its own idle timeout (4 / 10 / 25 s) and keep-alive: each is held to the
                      # bound it configured, whichever way the connection was dialed
                      ("hetero", dict(keepalive=3000, nodes=3, ops=50, hetero=1))):
        summ = conn_histories(chk, label, seed=chk.seed + 31, runs=runs if label != "four" else runs // 2, jobs=12,
                              files=8, faults=1, restarts=1, known=1, **kw)
        count_cases(chk, summ, lambda r: (
            (r["ev"], r.get("reason"), "removed" in r) if r["ev"] in ("h.closing", "ap.remove_id", "obs.quiesce") else None))
    sample_events(chk, summ, ("h.closing", "obs.quiesce", "obs.rpc_result"), n=4)
    conn_replay(chk, "mgr-replay3", "SIM_ConnReplay3.cfg", num=40 if quick(chk) else 1500, depth=120)
    # an application handler that panics while serving one request of a peer that then leaves: the peer is
    # reported lost (or the node is down and lists nobody)
    replay_check(chk, "handler-panic", harness("handler-panic"))
    # valid but unusual configurations on one side only (no uni streams on the listener, one bidi stream,
    # tiny windows, one-slot mailbox, keep-alive on the other side only, ...): connected, listed, reachable
    # both ways, kept alive through an idle period, clean shutdown - whatever the setting
    import copy
    odd = harness("oddcfg", out=os.path.join(vlib.WORK, "C09_oddcfg"), seed=chk.seed * 24, runs=26 if quick(chk) else 260,
                  jobs=12, files=4)
    odd["args"] = {}
    odd2 = copy.deepcopy(odd)
    trace_check(chk, *CONN_TRACE, odd, label="oddcfg")
    trace_check(chk, "AnemoRpcTrace.tla", "AnemoRpcTrace.cfg", odd2, label="oddcfg-rpc")
    chk.traces -= len(odd2["runs"])
    if not quick(chk):
        spec_mutant(chk, "remove_by_peer_c09", "MC_Conn.tla", "MC_Conn_quick.cfg", [MUT_REMOVE_BY_PEER])


@prop("C10")
def c10(chk):
    chk.rule = ("cases = (verdict, affinity, limit, established connections at arrival) per admission decision recorded; "
                "all are non-trivial except (admit, no affinity, no limit)")
    chk.assumptions = ["arrivals do not overlap (the property excludes simultaneous arrivals)"]
    chk.add_mc(tlc_mc("MC_Conn.tla", "MC_Conn_c10.cfg", workers=8, timeout=1500))
    runs = 48 if quick(chk) else 1500
    summ = harness("c10", out=os.path.join(vlib.WORK, "C10"), seed=chk.seed, runs=runs, jobs=12, files=8)
    summ["args"] = {}
    trace_check(chk, *CONN_TRACE, summ, label="admission")
    count_cases(chk, summ, lambda r: (
        (r["verdict"], r.get("affinity"), r.get("limit"), r["active_len"])
        if r["ev"] == "in.admission" and not (r["verdict"] == "admit" and "affinity" not in r and "limit" not in r) else None))
    sample_events(chk, summ, ("in.admission",), n=4)
    # specification -> implementation: behaviours of MC_Conn under the C10 limits / affinities; the real code's
    # verdict at every admission step must be the specification's
    conn_replay(chk, "admission-replay", "SIM_ConnReplay3.cfg", num=60 if quick(chk) else 3000, depth=120)
    spec_mutant(chk, "limit_off_by_one", "MC_Conn.tla", "MC_Conn_c10.cfg", [MUT_LIMIT_OFF_BY_ONE])


@prop("C13")
def c13(chk):
    chk.rule = ("cases = (peers drained ok/failed, eligible, dialed, address index, cap binding, attempts) per connectivity "
                "check recorded; non-trivial = the tick drained a result, dialed, skipped an eligible peer (cap) or held a "
                "peer back (back-off)")
    chk.assumptions = ["ConnectsWithin is evaluated for the unambiguous case (peer becomes reachable while no attempt is in flight)"]
    chk.add_mc(tlc_mc("MC_Dial.tla", "MC_Dial_quick.cfg" if quick(chk) else "MC_Dial_thorough.cfg", workers=8, timeout=900))
    chk.add_mc(tlc_mc("MC_Dial.tla", "MC_Dial_cap.cfg", workers=8, timeout=900))
    runs = 72 if quick(chk) else 900
    summ = harness("c13", out=os.path.join(vlib.WORK, "C13"), seed=chk.seed, runs=runs, jobs=12, files=8)
    summ["args"] = {}
    trace_check(chk, *CONN_TRACE, summ, label="dialing")
    count_cases(chk, summ, lambda r: (
        (tuple(d["ok"] for d in r["drained"]), len(r["eligible"]), tuple(d["idx"] for d in r["dials"]),
         len(r["eligible"]) > len(r["dials"]), tuple(sorted(b["attempts"] for b in r["backoff"]))[:3])
        if r["ev"] == "mgr.tick" and (r["drained"] or r["dials"] or r["eligible"] or r["backoff"]) else None))
    sample_events(chk, summ, ("mgr.tick",), n=2)
    spec_mutant(chk, "backoff_ge", "MC_Dial.tla", "MC_Dial_quick.cfg", [MUT_BACKOFF_GE])
    if not quick(chk):
        spec_mutant(chk, "no_rotation", "MC_Dial.tla", "MC_Dial_quick.cfg", [MUT_NO_ROTATION])
        spec_mutant(chk, "dial_allowed", "MC_Dial.tla", "MC_Dial_quick.cfg", [MUT_DIAL_ALLOWED])
        spec_mutant(chk, "dial_self", "MC_Dial.tla", "MC_Dial_quick.cfg", [MUT_DIAL_SELF])


CONN_SCENARIOS = {"conn", "c03", "c05", "c08", "c10", "c13", "oddcfg", "replay-conn", "c06"}
RPC_SCENARIOS = {"rpc", "c06", "c08", "oddcfg"}


def replay(path):
    """bin/check replay <path>: show a stored violation and reproduce it. A violation that was found by
    trace validation is reproduced by validating the stored trace (the run of the real code that was
    rejected) again; any other one by re-running the property's check with the recorded seed and tier.
    Exit 1 (with a VIOLATION line) if it reproduces, 0 if not."""
    d = json.load(open(path))
    det = d.get("detail") or {}
    pid = d.get("property")
    log(f"property {pid}  key {d.get('key')}  seed {d.get('seed')}  tier {d.get('tier')}")
    log("  " + str(d.get("what"))[:1200])
    trace = det.get("trace")
    if trace and os.path.exists(trace):
        scen = det.get("scenario")
        specs = []
        if scen in CONN_SCENARIOS or scen is None:
            specs.append(("AnemoConnTrace.tla", "AnemoConnTrace.cfg"))
        if scen in RPC_SCENARIOS:
            specs.append(("AnemoRpcTrace.tla", "AnemoRpcTrace.cfg"))
        if scen == "apstress":
            specs = [("ApTrace.tla", "ApTrace.cfg")]
        if scen == "limstress":
            specs = [("InflightStressTrace.tla", "InflightStressTrace.cfg")]
        reproduced = False
        for tla, cfg in specs:
            res = vlib.tlc_trace(tla, cfg, trace)
            if res.get("error"):
                log(f"  {tla}: tool error {res['error']}")
                return 2
            if res["ok"]:
                log(f"  {tla}: the stored trace ({res['lines']} events) is accepted")
            else:
                line = res["invariant"]["line"] if res["invariant"] else res["rejected_line"]
                rec = vlib.read_trace(trace)[line - 1] if line and line > 0 else {}
                what = f"invariant {res['invariant']['name']}" if res["invariant"] else "no action explains the event"
                log(f"  {tla}: rejected at line {line} ({what}): {json.dumps(rec)[:500]}")
                reproduced = True
        if reproduced:
            print(f"VIOLATION property={pid} replay={path}")
            return 1
        return 0
    # table rows / behaviours / real-thread trials: run the check again as it ran then
    env = dict(os.environ, VERIF_SEED=str(d.get("seed", 1)))
    import subprocess
    rc = subprocess.call([os.path.join(vlib.VERIF, "bin", "check"), pid, "--tier", d.get("tier", "quick")], env=env)
    return rc
