"""Shared machinery of bin/check: build the harness against /repo, run TLC (model checking and
trace validation), run harness scenarios, write evidence, match known findings."""
import json, os, re, shutil, subprocess, sys, time, hashlib, concurrent.futures

VERIF = os.path.dirname(os.path.dirname(os.path.abspath(__file__)))
SPEC = os.path.join(VERIF, "spec")
HARNESS = os.path.join(VERIF, "harness")
WORK = os.path.join(VERIF, "work")
REPLAYS = os.path.join(VERIF, "replays")
EVIDENCE = os.path.join(VERIF, "evidence")
BIN = os.path.join(HARNESS, "target", "debug", "harness")
NCPU = os.cpu_count() or 4
NODIRECT = None     # set when the harness had to be built without anemo::verif::direct
UNAVAILABLE = []    # scenarios that could not run for that reason


class ToolError(Exception):
    pass


class HarnessCrash(Exception):
    """the harness process (which runs the code under test) was killed by a signal: abort on
    allocation failure, stack overflow, segfault. That is data about the code under test."""
    def __init__(self, scenario, rc, tail):
        super().__init__(f"harness {scenario} died with rc={rc}")
        self.scenario, self.rc, self.tail = scenario, rc, tail


def log(*a):
    print(*a, file=sys.stderr, flush=True)


def sh(cmd, timeout=None, env=None, cwd=None):
    e = dict(os.environ)
    if env:
        e.update(env)
    if cmd and cmd[0] == "tlc":
        # TLC leaves an empty tlc-<n> directory in java.io.tmpdir on every start: keep them out of /tmp
        jt = os.path.join(WORK, "jtmp")
        os.makedirs(jt, exist_ok=True)
        e["JAVA_TOOL_OPTIONS"] = (e.get("JAVA_TOOL_OPTIONS", "") + " -Djava.io.tmpdir=" + jt).strip()
    try:
        p = subprocess.run(cmd, stdout=subprocess.PIPE, stderr=subprocess.STDOUT, timeout=timeout,
                           env=e, cwd=cwd, text=True, errors="replace")
        return p.returncode, p.stdout
    except subprocess.TimeoutExpired as x:
        out = x.stdout or ""
        if isinstance(out, bytes):
            out = out.decode(errors="replace")
        return 124, out


def build():
    """cargo build of the harness (path dependency on /repo, hooks enabled by the harness'
    .cargo/config.toml). Always invoked: cargo rebuilds whatever changed in /repo."""
    os.makedirs(WORK, exist_ok=True)
    lock = os.path.join(HARNESS, "Cargo.lock")
    if not os.path.exists(lock):
        shutil.copy("/repo/Cargo.lock", lock)
    global BIN, NODIRECT
    t0 = time.time()
    rc, out = sh(["cargo", "build", "--offline"], cwd=HARNESS, timeout=1800,
                 env={"CARGO_NET_OFFLINE": "true"})
    if rc != 0:
        # The direct-drive wrappers (anemo::verif::direct) name crate-private types and signatures; a
        # refactor of those can stop the wrappers from compiling while the event hooks and gates still
        # do. Build without them then: every scenario that does not need them runs as usual, the ones
        # that do report themselves unavailable (a tool error of that check, not a verdict).
        first = out
        flags = ("--cfg bmwill_anemo_verif --cfg bmwill_anemo_verif_nodirect "
                 "--check-cfg cfg(bmwill_anemo_verif) --check-cfg cfg(bmwill_anemo_verif_nodirect)")
        rc, out = sh(["cargo", "build", "--offline", "--no-default-features", "--target-dir", "target-nodirect"],
                     cwd=HARNESS, timeout=1800, env={"CARGO_NET_OFFLINE": "true", "RUSTFLAGS": flags})
        if rc != 0:
            log(first[-3000:])
            log(out[-3000:])
            raise ToolError("harness does not build against /repo's working tree (with or without the direct-drive wrappers)")
        BIN = os.path.join(HARNESS, "target-nodirect", "debug", "harness")
        NODIRECT = " ".join(l for l in first.splitlines() if l.startswith("error"))[:400]
        log("[build] the direct-drive wrappers do not compile against this tree; built without them: " + NODIRECT)
    log(f"[build] ok in {time.time()-t0:.1f}s")


# real-time budget of one harness process (set per tier by bin/check): the scenarios finish in a
# small fraction of it; a process still running then is stuck in the code under test (a blocking
# lock held for ever, a task that never yields) - data about the code, like a crash
HARNESS_TIMEOUT = 900


def harness(scenario, **kw):
    """Run one harness scenario; returns its SUMMARY object."""
    timeout = kw.pop("_timeout", HARNESS_TIMEOUT)
    args = [BIN, scenario] + [f"{k}={v}" for k, v in kw.items()]
    rc, out = sh(args, timeout=timeout, cwd=HARNESS,
                 env={"RUST_BACKTRACE": "0", "RUST_LIB_BACKTRACE": "0"})
    if rc == 124:
        raise HarnessCrash(scenario, "timeout",
                           f"the harness process did not finish within {timeout} s of real time (scenarios of this "
                           f"tier take a small fraction of that); arguments {kw}; last output: " + out[-600:])
    summ = None
    for line in out.splitlines():
        if line.startswith("SUMMARY "):
            summ = json.loads(line[len("SUMMARY "):])
    if summ is None:
        # killed by a signal, or rc 101: a panic unwound out of the harness' main thread, which in
        # the in-process replay scenarios means the code under test panicked
        if rc < 0 or rc in (101, 132, 134, 136, 139):
            raise HarnessCrash(scenario, rc, out[-1500:])
        log(out[-4000:])
        raise ToolError(f"harness {scenario} produced no summary (rc={rc})")
    if summ.get("unavailable"):
        # part of the check cannot run on this tree; the rest goes on (a violation found elsewhere is
        # still a violation), and the check ends as a tool error if nothing was found
        UNAVAILABLE.append(f"{summ['unavailable']} ({NODIRECT})")
        return {"unavailable": summ["unavailable"], "mismatches": [], "evaluations": 0, "rows": 0, "replayed": 0,
                "handshakes": 0, "runs": [], "files": [], "trials": [], "trace": None, "random": 0,
                "budget_sweep": {"evaluations": 0, "bad": []}}
    if summ.get("wedged"):
        # a simulated run whose thread never yielded again: the code under test spins (an await-free
        # loop); like a crash this is data about the code, not a tool failure
        raise HarnessCrash(scenario, "wedged",
                           f"run(s) with seed {summ['wedged']} made no progress for {summ.get('wedge_s')} s of real time "
                           f"(a task of the simulated networks spins without yielding); arguments {kw}")
    return summ


TLC_NOISE = re.compile(r"^(Parsing|Semantic|Linting|Picked up)")


def tlc_mc(module, cfg, workers=8, timeout=3600, tag=None):
    """Model-check spec/<module>.tla with spec/<cfg>. Returns dict with ok, generated, distinct,
    violation (text or None), uncovered (actions never taken)."""
    tag = tag or cfg.replace(".cfg", "")
    meta = os.path.join(WORK, "mc_" + tag)
    shutil.rmtree(meta, ignore_errors=True)
    cmd = ["tlc", "-workers", str(workers), "-metadir", meta, "-cleanup", "-noGenerateSpecTE",
           "-coverage", "1", "-config", os.path.join(SPEC, cfg), os.path.join(SPEC, module)]
    t0 = time.time()
    rc, out = sh(cmd, timeout=timeout, cwd=SPEC)
    shutil.rmtree(meta, ignore_errors=True)
    res = {"module": module, "cfg": cfg, "wall_s": round(time.time() - t0, 1), "rc": rc}
    m = re.search(r"(\d+) states generated, (\d+) distinct states found, (\d+) states left", out)
    if m:
        res["generated"], res["distinct"], res["left"] = map(int, m.groups())
    else:
        res["generated"] = res["distinct"] = 0
    viol = re.search(r"Error: (Invariant (\S+) is violated|Temporal propert(?:y|ies) [^\n]*w(?:as|ere) violated|"
                     r"Action property (\S+) is violated|Deadlock reached)[^\n]*", out)
    res["violation"] = viol.group(0) if viol else None
    other_err = None
    if rc == 124:
        other_err = "timeout"
    elif rc != 0 and not viol:
        errs = [l for l in out.splitlines() if l.startswith("Error:") or "Exception" in l]
        other_err = "; ".join(errs[:3]) or f"rc={rc}"
    res["error"] = other_err
    # coverage: actions with zero count
    unc = []
    for m in re.finditer(r"^<(\w+) line \d+, col \d+ to line \d+, col \d+ of module (\w+)>: (\d+):(\d+)", out, re.M):
        if int(m.group(3)) == 0 and int(m.group(4)) == 0:
            unc.append(m.group(1))
    res["uncovered"] = sorted(set(unc))
    res["ok"] = rc == 0 and not viol and other_err is None
    if not res["ok"]:
        res["tail"] = "\n".join(l for l in out.splitlines() if not TLC_NOISE.match(l))[-3000:]
    return res


def tlc_trace(spec_tla, cfg, trace_file, tag=None, timeout=1200):
    """Validate one ndjson trace file. Returns dict ok, lines, states, rejected_line, record,
    invariant."""
    tag = tag or os.path.basename(trace_file)
    meta = os.path.join(WORK, "tr_" + tag)
    shutil.rmtree(meta, ignore_errors=True)
    env = {"TRACE": trace_file,
           "JAVA_TOOL_OPTIONS": "-Xss1g -Dtlc2.tool.queue.IStateQueue=StateDeque"}
    cmd = ["tlc", "-workers", "1", "-metadir", meta, "-cleanup", "-noGenerateSpecTE",
           "-config", os.path.join(SPEC, cfg), os.path.join(SPEC, spec_tla)]
    t0 = time.time()
    rc, out = sh(cmd, timeout=timeout, env=env, cwd=SPEC)
    shutil.rmtree(meta, ignore_errors=True)
    nlines = sum(1 for _ in open(trace_file))
    res = {"file": trace_file, "lines": nlines, "wall_s": round(time.time() - t0, 1), "rc": rc}
    m = re.search(r"(\d+) states generated, (\d+) distinct states found", out)
    res["states"] = int(m.group(2)) if m else 0
    res["generated"] = int(m.group(1)) if m else 0
    rej = re.search(r'"TRACE-REJECTED at line",\s*(\d+)', out)
    inv = re.search(r'"INVARIANT-VIOLATED",\s*"(\w+)",\s*(\d+),\s*(.*?)>>', out, re.S)
    res["rejected_line"] = int(rej.group(1)) if rej else None
    res["invariant"] = None
    if inv:
        res["invariant"] = {"name": inv.group(1), "line": int(inv.group(2)),
                            "info": " ".join(inv.group(3).split())[:300]}
    if rc == 124:
        res["error"] = "timeout"
    # acceptance is decided by the POSTCONDITION (a behaviour that consumed every line exists); fewer
    # states than lines without a rejection message means TLC itself failed
    elif rej is None and inv is None and (rc != 0 or res["states"] < nlines + 1):
        errs = [l for l in out.splitlines() if l.startswith("Error:") or "Exception" in l]
        res["error"] = "; ".join(errs[:4]) or f"rc={rc} states={res['states']} lines={nlines}"
        res["tail"] = "\n".join(l for l in out.splitlines() if not TLC_NOISE.match(l))[-2500:]
    else:
        res["error"] = None
    res["ok"] = res["error"] is None and rej is None and inv is None
    return res


def validate_traces(spec_tla, cfg, files, jobs=None):
    jobs = jobs or max(1, min(len(files), NCPU // 2))
    with concurrent.futures.ThreadPoolExecutor(max_workers=jobs) as ex:
        return list(ex.map(lambda f: tlc_trace(spec_tla, cfg, f), files))


def read_trace(path):
    return [json.loads(l) for l in open(path)]


def run_of_line(summary, file, line):
    """Which run (seed) of a harness summary contains 1-based `line` of `file`."""
    for r in summary["runs"]:
        if r["file"] == file and r["first_line"] <= line <= r["last_line"]:
            return r
    return None


class Check:
    """Collects what one property check did; writes evidence; decides the exit code."""

    def __init__(self, pid, tier, seed, level="model_checking"):
        self.pid, self.tier, self.seed, self.level = pid, tier, seed, level
        self.t0 = time.time()
        self.states = 0
        self.transitions = 0
        self.traces = 0
        self.trace_states = 0
        self.evaluations = 0
        self.distinct = set()
        self.samples = []
        self.violations = []      # dicts: key, what, replay
        self.known_hits = []
        self.tool_errors = []
        self.parts = {}
        self.assumptions = []
        self.rule = ""
        self.exhaustive = False

    def add_mc(self, res, expect_ok=True):
        self.parts.setdefault("tlc", []).append(
            {k: res.get(k) for k in ("module", "cfg", "generated", "distinct", "wall_s", "violation", "uncovered")})
        if res.get("error"):
            self.tool_errors.append(f"TLC {res['cfg']}: {res['error']}")
            return
        self.states += res.get("distinct", 0)
        self.transitions += res.get("generated", 0)
        if expect_ok and res.get("violation"):
            self.violation(f"model:{res['cfg']}:{res['violation']}",
                           f"TLC found a violation in the specification itself ({res['cfg']}): {res['violation']}",
                           {"tlc": res})

    def sample(self, s):
        if len(self.samples) < 12:
            self.samples.append(s)

    def case(self, key):
        self.evaluations += 1
        self.distinct.add(key)

    def violation(self, key, what, detail):
        os.makedirs(REPLAYS, exist_ok=True)
        h = hashlib.sha1(key.encode()).hexdigest()[:10]
        path = os.path.join(REPLAYS, f"{self.pid}-{h}.json")
        with open(path, "w") as f:
            json.dump({"property": self.pid, "key": key, "what": what, "seed": self.seed,
                       "tier": self.tier, "detail": detail}, f, indent=1, default=str)
        self.violations.append({"key": key, "what": what, "replay": path})

    def finish(self, extra=None):
        jt = os.path.join(WORK, "jtmp")
        for d in (os.listdir(jt) if os.path.isdir(jt) else []):
            try:
                os.rmdir(os.path.join(jt, d))   # (empty ones only)
            except OSError:
                pass
        known = load_known()
        real = []
        for v in self.violations:
            hit = [k for k in known.get("findings", []) if k["property"] == self.pid and k["key"] == v["key"]]
            if hit:
                if v["key"] not in self.known_hits:
                    print(f"KNOWN-FINDING: property={self.pid} {hit[0]['what']}")
                self.known_hits.append(v["key"])
            else:
                real.append(v)
        cov = {
            "states": self.states, "transitions": self.transitions,
            "traces_validated_against_impl": self.traces,
            "trace_events_validated": self.trace_states,
            "evaluations": self.evaluations, "distinct_nontrivial": len(self.distinct),
            "rule": self.rule, "samples": self.samples or ["(none)"],
            "exhaustive": self.exhaustive, "parts": self.parts,
            "known_findings_seen": self.known_hits,
        }
        if extra:
            cov.update(extra)
        ev = {"property_id": self.pid, "tier": self.tier, "seed": self.seed, "level": self.level,
              "coverage": cov, "assumptions": self.assumptions,
              "wall_s": round(time.time() - self.t0, 1), "violations": len(real)}
        os.makedirs(EVIDENCE, exist_ok=True)
        with open(os.path.join(EVIDENCE, f"{self.pid}.json"), "w") as f:
            json.dump(ev, f, indent=1, default=str)
        for u in UNAVAILABLE:
            self.tool_errors.append("not run: " + u)
        if real:
            # a violation that was found stands, whatever else could not be run
            for v in real:
                print(f"VIOLATION property={self.pid} replay={v['replay']}")
                log("  ", v["what"][:600])
            for e in self.tool_errors:
                log("TOOL-ERROR (other parts of the check):", e)
            return 1
        if self.tool_errors:
            for e in self.tool_errors:
                log("TOOL-ERROR:", e)
            return 2
        log(f"[{self.pid}] held: states={self.states} traces={self.traces} cases={self.evaluations} "
            f"in {time.time()-self.t0:.1f}s")
        return 0


def load_known():
    p = os.path.join(VERIF, "KNOWN_FINDINGS.json")
    if os.path.exists(p):
        return json.load(open(p))
    return {"findings": [], "fixed": []}


def trace_check(chk, spec_tla, cfg, summary, classify=None, label="trace"):
    """Validate every trace file of a harness summary; turn rejections into violations.
    `classify(record, run, result, records)` may map a rejected record to a violation key. A
    rejection whose key is a listed known finding is reported once, its line is excised and the
    rest of the file is validated again, so a known defect does not hide anything behind it."""
    files = summary["files"]
    known_keys = {k["key"] for k in load_known().get("findings", []) if k["property"] == chk.pid}
    total_lines = 0
    results = []
    pending = list(files)
    rounds = 0
    while pending and rounds < 40:
        rounds += 1
        batch = validate_traces(spec_tla, cfg, pending)
        pending = []
        for res in batch:
            if res.get("error"):
                chk.tool_errors.append(f"trace validation {res['file']}: {res['error']}\n{res.get('tail','')}")
                results.append(res)
                continue
            if res["ok"]:
                total_lines += res["lines"]
                results.append(res)
                continue
            line = res["invariant"]["line"] if res["invariant"] else res["rejected_line"]
            recs = read_trace(res["file"])
            rec = recs[line - 1] if 0 < line <= len(recs) else {"ev": "eof"}
            run = run_of_line(summary, res["file"], line) or {}
            what = (f"invariant {res['invariant']['name']} violated after line {line} {res['invariant']['info']}"
                    if res["invariant"] else f"no action of {spec_tla} explains line {line}")
            key = classify(rec, run, res, recs) if classify else None
            if key is None:
                key = f"{label}:{res['invariant']['name'] if res['invariant'] else 'rejected'}:{rec.get('ev')}"
            keep = os.path.join(REPLAYS, f"{chk.pid}-seed{run.get('seed', 0)}-{os.path.basename(res['file'])}")
            os.makedirs(REPLAYS, exist_ok=True)
            lo, hi = run.get("first_line", 1), run.get("last_line", len(recs))
            with open(keep, "w") as f:
                for r in recs[lo - 1:hi]:
                    f.write(json.dumps(r) + "\n")
            chk.violation(key, f"{what}: {json.dumps(rec)[:400]} (scenario {summary.get('scenario')} seed {run.get('seed')})",
                          {"trace": keep, "line_in_run": line - lo + 1, "record": rec,
                           "scenario": summary.get("scenario"), "seed": run.get("seed"),
                           "args": summary.get("args")})
            if key in known_keys and not res["invariant"] and 0 < line <= len(recs):
                # excise the offending line and validate the remainder
                nf = res["file"] if res["file"].endswith(".kf.ndjson") else res["file"].replace(".ndjson", ".kf.ndjson")
                with open(nf, "w") as f:
                    for i, r in enumerate(recs):
                        if i == line - 1:
                            r = {"ev": "obs.known_finding", "key": key, "t": r.get("t", 0), "node": r.get("node", -1),
                                 "seq": r.get("seq", 0), "nonce": r.get("nonce", 0), "was": r.get("ev")}
                        f.write(json.dumps(r) + "\n")
                for r_ in summary["runs"]:
                    if r_["file"] == res["file"]:
                        r_["file"] = nf
                pending.append(nf)
            else:
                results.append(res)
    ok_runs = 0
    for r in summary["runs"]:
        if r["panics"]:
            chk.violation(f"{label}:panic:{r['panics'][0][:80]}",
                          f"panic in the code under test: {r['panics'][0][:300]} (seed {r['seed']})",
                          {"run": r})
        elif "err" in r["result"]:
            e = r["result"]["err"]
            if e.startswith("VIOLATION"):
                chk.violation(f"{label}:{e[:100]}", f"{e} (seed {r['seed']})", {"run": r})
            else:
                chk.tool_errors.append(f"scenario {summary.get('scenario')} seed {r['seed']}: {e}")
        else:
            ok_runs += 1
    chk.traces += len(summary["runs"])
    chk.trace_states += sum(r["states"] for r in results)
    chk.parts.setdefault("traces", []).append(
        {"scenario": summary.get("scenario"), "runs": len(summary["runs"]), "events": total_lines,
         "files": len(files)})
    return results


def tlc_tables(module, cfg=None, timeout=600):
    """Run a table-emitting module (ASSUME PrintT(<<"TABLE", name, ToJson(rows)>>)); returns
    {name: rows} and the raw run result."""
    meta = os.path.join(WORK, "tb_" + module.replace(".tla", ""))
    shutil.rmtree(meta, ignore_errors=True)
    cmd = ["tlc", "-metadir", meta, "-cleanup", "-noGenerateSpecTE"]
    if cfg:
        cmd += ["-config", os.path.join(SPEC, cfg)]
    cmd.append(os.path.join(SPEC, module))
    rc, out = sh(cmd, timeout=timeout, cwd=SPEC)
    shutil.rmtree(meta, ignore_errors=True)
    if rc != 0 or "No error has been found" not in out:
        raise ToolError(f"table module {module} failed: " + out[-1500:])
    tables = {}
    flat = out.replace("\n", " ")
    for m in re.finditer(r'<<\s*"TABLE",\s*"(\w+)",\s*"((?:[^"\\]|\\.)*)"\s*>>', flat):
        tables[m.group(1)] = json.loads(json.loads('"' + m.group(2) + '"'))
    return tables


def write_json(path, obj):
    os.makedirs(os.path.dirname(path), exist_ok=True)
    with open(path, "w") as f:
        json.dump(obj, f)
    return path


def spec_mutant(chk, name, module, cfg, edits, workers=8, timeout=900):
    """Vacuity guard: apply textual edits to a copy of the specification (a *spec mutant* that
    breaks the mechanism an invariant guards) and require TLC to refute it."""
    d = os.path.join(WORK, "mut_" + name)
    shutil.rmtree(d, ignore_errors=True)
    shutil.copytree(SPEC, d)
    for fname, old, new in edits:
        path = os.path.join(d, fname)
        text = open(path).read()
        if old not in text:
            raise ToolError(f"spec mutant {name}: pattern not found in {fname}")
        open(path, "w").write(text.replace(old, new))
    meta = os.path.join(d, "meta")
    cmd = ["tlc", "-workers", str(workers), "-metadir", meta, "-cleanup", "-noGenerateSpecTE",
           "-config", os.path.join(d, cfg), os.path.join(d, module)]
    rc, out = sh(cmd, timeout=timeout, cwd=d)
    refuted = bool(re.search(r"is violated|w(?:as|ere) violated|Assumption .* is false", out))
    shutil.rmtree(d, ignore_errors=True)
    chk.parts.setdefault("spec_mutants", []).append({"mutant": name, "cfg": cfg, "refuted": refuted})
    if not refuted:
        chk.tool_errors.append(f"spec mutant {name} was NOT refuted by TLC ({cfg}): the invariant it targets is vacuous")
    return refuted


def tlaps_prove(module, edits=(), timeout=900):
    """Run the TLA+ proof system on a scratch copy of the specification directory (optionally with
    textual edits applied first: a proof mutant that must NOT go through).
    Returns (all_proved, number_of_obligations, tail_of_output)."""
    d = os.path.join(WORK, "tlaps_" + module.replace(".tla", "") + ("_mut" if edits else ""))
    shutil.rmtree(d, ignore_errors=True)
    os.makedirs(d)
    for f in os.listdir(SPEC):
        if f.endswith(".tla"):
            shutil.copy(os.path.join(SPEC, f), d)
    for fname, old, new in edits:
        path = os.path.join(d, fname)
        text = open(path).read()
        if old not in text:
            raise ToolError(f"proof mutant: pattern not found in {fname}")
        open(path, "w").write(text.replace(old, new))
    rc, out = sh(["tlapm", "--threads", "4", "--cleanfp", module], timeout=timeout, cwd=d)
    m = re.search(r"All (\d+) obligations? proved", out)
    # an obligation no back end proves (every proof mutant has one) is handed to Isabelle last, whose
    # poly process runs in a process group of its own and outlives tlapm by an hour at full load: whatever
    # still works in the scratch directory is ended with it
    for pid in os.listdir("/proc"):
        if pid.isdigit():
            try:
                if os.readlink("/proc/%s/cwd" % pid).startswith(d):
                    os.kill(int(pid), 9)
            except OSError:
                pass
    shutil.rmtree(d, ignore_errors=True)
    return (m is not None and rc == 0), (int(m.group(1)) if m else 0), out[-1500:]


def tlc_replays(module, cfg, num=200, depth=20, timeout=600, exhaustive=False, workers=1):
    """Behaviours printed by a spec as <<"REPLAY", ToJson(hist)>> (simulation mode, or exhaustive
    search when the config bounds the depth). Returns a list of distinct behaviours."""
    meta = os.path.join(WORK, "rp_" + cfg.replace(".cfg", ""))
    shutil.rmtree(meta, ignore_errors=True)
    cmd = ["tlc", "-workers", str(workers), "-metadir", meta, "-noGenerateSpecTE"]
    if not exhaustive:
        cmd += ["-simulate", f"num={num}", "-depth", str(depth)]
    cmd += ["-config", os.path.join(SPEC, cfg), os.path.join(SPEC, module)]
    rc, out = sh(cmd, timeout=timeout, cwd=SPEC)
    shutil.rmtree(meta, ignore_errors=True)
    if re.search(r"is violated|Error: ", out) and "REPLAY" not in out:
        raise ToolError(f"replay generation {cfg} failed: " + out[-1500:])
    flat = out.replace("\n", " ")
    seen, res = set(), []
    for m in re.finditer(r'<<\s*"REPLAY",\s*"((?:[^"\\]|\\.)*)"\s*>>', flat):
        raw = json.loads('"' + m.group(1) + '"')
        if raw not in seen:
            seen.add(raw)
            res.append(json.loads(raw))
    viol = re.search(r"Invariant (\w+) is violated", out)
    return res, (viol.group(0) if viol else None)
