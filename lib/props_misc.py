"""C07 C16 C17 C01 C14 C06 C08"""
import json, os
import vlib
from vlib import harness, tlc_mc, spec_mutant, trace_check, tlc_trace, tlc_tables
from props import prop, quick, sample_events, count_cases
from props_tower import replay_check


def simple_trace(chk, spec, cfg, path, what, runs=1):
    if not path:      # the scenario that writes this trace could not run on this tree (see vlib.UNAVAILABLE)
        return None
    res = tlc_trace(spec, cfg, path)
    chk.traces += runs
    chk.trace_states += res["states"]
    if res.get("error"):
        chk.tool_errors.append("%s: %s %s" % (what, res["error"], res.get("tail", "")))
    elif not res["ok"]:
        rec = vlib.read_trace(path)[res["rejected_line"] - 1]
        chk.violation("%s:%s" % (what, rec.get("ev", rec.get("kind"))),
                      "%s: line %d is not explained by %s: %s" % (what, res["rejected_line"], spec, json.dumps(rec)[:500]),
                      {"trace": path, "record": rec})
    return res


@prop("C07")
def c07(chk):
    chk.rule = ("cases = (message, byte string) rows emitted by TLC from AnemoWire (all requests over routes of <= 2 symbols "
                "incl. a 2-byte character, <= 2 headers in both orders, bodies <= 2 bytes; all responses over the 8 status "
                "codes) each with encoder check (with and without local extensions), decoder check and every strict prefix; "
                "closed-set mutations; random larger messages decoded by the specification; all non-trivial")
    chk.assumptions = ["bincode's fixed-int little-endian layout as transcribed in AnemoWire.tla"]
    tables = tlc_tables("MC_Wire.tla", "MC_Wire.cfg")          # also evaluates the ASSUMEd properties
    chk.states += sum(len(v) for v in tables.values())
    chk.transitions += sum(len(r.get("bytes", [])) for v in tables.values() for r in v)
    chk.parts.setdefault("tlc", []).append({"module": "MC_Wire.tla", "assumptions": ["RoundTripReq", "RoundTripResp",
                         "PrefixRejectedReq", "PrefixRejectedResp", "Closed", "Golden"], "messages": {k: len(v) for k, v in tables.items()}})
    path = vlib.write_json(os.path.join(vlib.WORK, "C07_tables.json"), tables)
    out = os.path.join(vlib.WORK, "C07_random.ndjson")
    summ = harness("replay-wire", table=path, random=300 if quick(chk) else 20000, seed=chk.seed, out=out)
    replay_check(chk, "wire", summ)
    for k, v in tables.items():
        for r in v:
            chk.distinct.add(json.dumps(r, sort_keys=True))
    chk.sample(tables["wire_req"][5])
    chk.sample(tables["wire_bad"][0])
    simple_trace(chk, "AnemoWireTrace.tla", "AnemoWireTrace.cfg", summ["trace"], "wire-random", runs=summ["random"])
    chk.exhaustive = True
    spec_mutant(chk, "frame_little_endian", "MC_Wire.tla", "MC_Wire.cfg",
                [("AnemoWire.tla", "Frame(x) == BE(Len(x), 4) \\o x", "Frame(x) == LE(Len(x), 4) \\o x")], workers=2)


@prop("C16")
def c16(chk):
    chk.rule = ("cases = every build sequence of <= 4 route / route_layer / merge operations over 6 patterns (exact, wildcard "
                "tails, conflicting pairs), 2 layers and 2 pre-layered sub-routers, enumerated exhaustively by TLC, each probed "
                "with 16 paths (exact, trailing slash, empty, no leading slash, under a wildcard, literal '*rest'); plus odd "
                "strings; non-trivial = sequences containing a layer, a merge or a conflict")
    chk.assumptions = ["the pattern language is the one the property names (exact paths, '/<prefix>/*rest')"]
    beh, viol = vlib.tlc_replays("AnemoRouter.tla", "MC_Router.cfg", exhaustive=True, workers=4)
    if viol:
        chk.violation("model:" + viol, "TLC: %s in AnemoRouter" % viol, {})
    chk.states += len(beh)
    chk.transitions += sum(len(b["ops"]) for b in beh)
    chk.parts.setdefault("tlc", []).append({"module": "AnemoRouter.tla", "cfg": "MC_Router.cfg", "behaviours": len(beh),
                                            "invariant": "ExactlyOne"})
    path = vlib.write_json(os.path.join(vlib.WORK, "C16_beh.json"), beh)
    summ = harness("replay-router", file=path, fuzz=20000 if quick(chk) else 2000000, seed=chk.seed)
    replay_check(chk, "router", summ)
    for b in beh:
        if any(o["op"] != "route" for o in b["ops"]) or b["panicked"]:
            chk.distinct.add(json.dumps(b["ops"], sort_keys=True))
    chk.sample({"ops": beh[len(beh) // 2]["ops"], "panicked": beh[len(beh) // 2]["panicked"]})
    chk.exhaustive = True
    spec_mutant(chk, "no_wildcard_conflict", "AnemoRouter.tla", "MC_Router.cfg",
                [("AnemoRouter.tla", '  \\/ p.kind = "wild" /\\ q.kind = "exact" /\\ StartsWith(q.s, p.s)\n', ""),
                 ("AnemoRouter.tla", '  \\/ q.kind = "wild" /\\ p.kind = "exact" /\\ StartsWith(p.s, q.s)\n', "")], workers=2)


@prop("C17")
def c17(chk):
    chk.rule = ("cases = service definitions (3 packages incl. empty and dotted x 3 service names incl. one that prefixes "
                "another x 3 route names x 2 codecs/raw-bytes) checked on the generators' token streams + typed calls "
                "through compiled generated code for 4 definitions in one router (pipeline table rows x 6 messages x 5 "
                "methods); all non-trivial")
    chk.assumptions = ["the compiled part covers the definitions in harness/build.rs; the token-stream part covers the table"]
    tables = tlc_tables("AnemoCodegen.tla", "AnemoCodegen.cfg")     # evaluates UnderOwnPrefixOnly, Injective
    chk.states += sum(len(v) for v in tables.values())
    chk.transitions += sum(len(v) for v in tables.values())
    chk.parts.setdefault("tlc", []).append({"module": "AnemoCodegen.tla", "assumptions": ["UnderOwnPrefixOnly", "Injective"],
                                            "rows": {k: len(v) for k, v in tables.items()}})
    path = vlib.write_json(os.path.join(vlib.WORK, "C17_tables.json"), tables)
    summ = harness("replay-codegen", table=path)
    replay_check(chk, "codegen", summ)
    # a status (or an answer) passed along by a handler that asked a third peer: code, message and headers
    # arrive intact, exactly the handler's headers travel, and the caller attributes it to the peer it asked
    replay_check(chk, "codegen-relay", harness("codegen-relay"))
    for k, v in tables.items():
        for r in v:
            chk.distinct.add(json.dumps(r, sort_keys=True))
    chk.sample(tables["codegen_paths"][3])
    chk.sample(tables["codegen_pipeline"][0])
    chk.exhaustive = True


def identity_tables(chk):
    tables = tlc_tables("AnemoIdentity.tla", "AnemoIdentity.cfg")   # evaluates AuthenticAsDialer/AsListener, HonestConnects
    chk.states += sum(len(v) for v in tables.values())
    chk.transitions += sum(len(v) for v in tables.values())
    chk.parts.setdefault("tlc", []).append({"module": "AnemoIdentity.tla",
                                            "assumptions": ["AuthenticAsDialer", "AuthenticAsListener", "HonestConnects", "NameMismatchRejected"],
                                            "rows": {k: len(v) for k, v in tables.items()}})
    return tables


@prop("C01")
def c01(chk):
    chk.rule = ("cases = rows of the verifier tables (every certificate record: subject key, signer, name, algorithm, "
                "validity, well-formedness, SAN shape: name / absent / IP only / garbled, another identity's SPKI planted as "
                "a decoy x configuration x pin), adversary handshakes (SNI x certificate x proof key x listener names; "
                "certificate shapes x real / junk proofs under four signature-scheme labels, as dialer and as listener "
                "with and without a pin), every single-byte mutation of a valid certificate, plus the identities handlers and "
                "callers saw in recorded RPC runs; non-trivial = the presenter does not hold the key it claims, or the "
                "certificate is not a plain honest one")
    chk.assumptions = ["perfect cryptography in the symbolic model; ring / rustls / webpki are trusted as libraries",
                       "the adversary holds only its own key"]
    tables = identity_tables(chk)
    path = vlib.write_json(os.path.join(vlib.WORK, "C01_tables.json"), tables)
    summ = harness("replay-identity", table=path, stride=2 if quick(chk) else 1, full_mutations=0 if quick(chk) else 1,
                   seed=chk.seed)
    replay_check(chk, "identity", summ)
    for k in ("id_client", "id_server", "id_advdial", "id_advshape"):
        for r in tables[k]:
            c = r["cert"]
            if not (c["subj"] == c["signer"] and c["alg"] == "ed25519" and c["validity"] == "ok" and c["wf"]
                    and c["decoy"] == "none" and c["san"] in ("n1", "n2", "n3")
                    and r.get("proof", c["subj"]) == c["subj"]):
                chk.distinct.add(json.dumps(r, sort_keys=True))
    chk.sample(tables["id_advdial"][5])
    # adversary as listener (replayed certificate / own certificate) and pins: the C03 scenario
    s3 = harness("c03", out=os.path.join(vlib.WORK, "C01_adv"), seed=chk.seed, runs=8 if quick(chk) else 100, jobs=8,
                 files=4, lossy=0)
    s3["args"] = {"lossy": 0}
    trace_check(chk, "AnemoConnTrace.tla", "AnemoConnTrace.cfg", s3, label="advlisten")
    # ExtLocal: the identity a handler / a caller sees is the connection's, whatever the message carries
    s4 = harness("rpc", out=os.path.join(vlib.WORK, "C01_rpc"), mode="mix", faults=0, calls=60, seed=chk.seed,
                 runs=6 if quick(chk) else 100, jobs=6, files=3)
    s4["args"] = {"mode": "mix"}
    trace_check(chk, "AnemoRpcTrace.tla", "AnemoRpcTrace.cfg", s4, label="extlocal")
    sample_events(chk, s4, ("app.start",), n=1)
    # ... also on the typed path, when the message names somebody else: a handler relays the status / answer it
    # got from a third peer; the typed caller attributes it to the authenticated end of its own connection
    replay_check(chk, "codegen-relay", harness("codegen-relay"))
    spec_mutant(chk, "no_signature_check", "AnemoIdentity.tla", "AnemoIdentity.cfg",
                [("AnemoIdentity.tla", 'SigOk(c, proof) == c.alg = "ed25519" /\\ proof = c.subj', 'SigOk(c, proof) == c.alg = "ed25519"')],
                workers=1)


@prop("C14")
def c14(chk):
    chk.rule = ("cases = ordered pairs of (primary, optional alternate) name configurations over 3 names (144, both "
                "directions by symmetry of the table) + adversarial dials (claimed name x certificate name x listener "
                "names); non-trivial = the two configurations differ")
    tables = identity_tables(chk)
    path = vlib.write_json(os.path.join(vlib.WORK, "C14_tables.json"), tables)
    summ = harness("replay-identity", table=path, stride=1 if not quick(chk) else 1, full_mutations=0, seed=chk.seed)
    replay_check(chk, "names", summ)
    for r in tables["id_pairs"]:
        if r["d"] != r["l"]:
            chk.distinct.add(json.dumps(r, sort_keys=True))
    for r in tables["id_advdial"] + tables["id_advshape"]:
        chk.distinct.add(json.dumps(r, sort_keys=True))
    chk.sample(tables["id_pairs"][17])
    chk.exhaustive = True
    spec_mutant(chk, "listener_ignores_name", "AnemoIdentity.tla", "AnemoIdentity.cfg",
                [("AnemoIdentity.tla", "  /\\ c.san \\in listenerNames\n", "")], workers=1)


@prop("C06")
def c06(chk):
    chk.rule = ("cases = hostile streams recorded, by (byte class: random / truncated-valid / bad magic / version / reserved / "
                "4 GiB and 9 MiB frame prefixes / 2^64-1 string and map lengths / invalid UTF-8 / mutated-valid / preamble only "
                "/ absurd body length / long odd routes, how the stream ended: finish / reset / stop / drop / read / left open, "
                "kind: bidirectional / unidirectional / datagram), interleaved with honest calls that must succeed; all non-trivial")
    chk.assumptions = ["malformed QUIC packets are quinn's job; exhaustion by sheer volume is out of scope",
                       "the adversary holds a valid identity of its own (it is a connected peer)"]
    chk.add_mc(tlc_mc("AnemoRpc.tla", "MC_Rpc_hostile.cfg", workers=8, timeout=900))
    # liveness: whatever a hostile stream does (garbage, stalling for ever), an honest call that got its
    # stream ends with its response, and the callee's side of every finished stream is released
    chk.add_mc(tlc_mc("AnemoRpc.tla", "MC_Rpc_live_hostile.cfg", workers=4, timeout=1500))
    runs = 8 if quick(chk) else 200
    summ = harness("c06", out=os.path.join(vlib.WORK, "C06"), seed=chk.seed, runs=runs, jobs=8, files=4, wedge_s=90,
                   streams=60 if quick(chk) else 150)
    summ["args"] = {}
    import copy
    s2 = copy.deepcopy(summ)
    trace_check(chk, "AnemoRpcTrace.tla", "AnemoRpcTrace.cfg", summ, label="hostile-rpc")
    trace_check(chk, "AnemoConnTrace.tla", "AnemoConnTrace.cfg", s2, label="hostile-conn")
    chk.traces -= len(s2["runs"])      # the same runs, validated by two specifications
    count_cases(chk, summ, lambda r: (r["class"], r["ending"], r["len"] // 64) if r["ev"] == "adv.stream" else None)
    sample_events(chk, summ, ("adv.stream", "srv.err"), n=4)
    spec_mutant(chk, "garbage_reaches_service", "AnemoRpc.tla", "MC_Rpc_hostile.cfg",
                [("AnemoRpc.tla", 'Invoke(q) == /\\ Live /\\ ss[q] = "reading" /\\ ~reset[q] /\\ ~bad[q]',
                  'Invoke(q) == /\\ Live /\\ ss[q] = "reading" /\\ ~reset[q]')], workers=4)


@prop("C08")
def c08(chk):
    chk.rule = ("cases = (how the network was shut down: explicit / twice / concurrently / last handle dropped, what was in flight: "
                "RPCs both ways, a hanging outbound dial, an arriving inbound handshake, idle-wait bound, which side dialed) per "
                "recorded virtual-time run + (teardown point: idle handles / handles dropped / parked at shut.closed, shut.aborted, "
                "h.closing / after shutdown / random instant) per real-thread teardown trial; all non-trivial")
    chk.assumptions = ["re-bindability and runtime teardown are OS / tokio effects observed on real sockets and threads; their "
                       "exploration is gate-driven and randomised, not exhaustive"]
    chk.add_mc(tlc_mc("AnemoShut.tla", "MC_Shut.cfg", workers=2, timeout=900))
    # liveness under weak fairness of the manager's and the handlers' steps: a requested shutdown is
    # answered unless the runtime goes first, and after a teardown every task comes to rest
    chk.add_mc(tlc_mc("AnemoShut.tla", "MC_Shut_live.cfg", workers=2, timeout=900))
    spec_mutant(chk, "live_handlers_notice_only_before_abort", "AnemoShut.tla", "MC_Shut_live.cfg",
                [("AnemoShut.tla", '/\\ Up /\\ hs[h] = "alive" /\\ mgr # "running"', '/\\ Up /\\ hs[h] = "alive" /\\ mgr = "closed"')], workers=2)
    runs = 32 if quick(chk) else 800
    summ = harness("c08", out=os.path.join(vlib.WORK, "C08"), seed=chk.seed, runs=runs, jobs=12, files=8)
    summ["args"] = {}
    import copy
    s2 = copy.deepcopy(summ)
    trace_check(chk, "AnemoConnTrace.tla", "AnemoConnTrace.cfg", summ, label="shutdown")
    trace_check(chk, "AnemoRpcTrace.tla", "AnemoRpcTrace.cfg", s2, label="shutdown-rpc")
    chk.traces -= len(s2["runs"])
    count_cases(chk, summ, lambda r: (r["kind"], r["bound_ms"], r["took_ms"] // 100) if r["ev"] == "obs.shutdown_result" else None)
    sample_events(chk, summ, ("obs.shutdown_result", "obs.api_after"), n=3)
    # real threads: runtime teardown at every point
    td = harness("teardown", trials=36 if quick(chk) else 480, seed=chk.seed)
    chk.parts.setdefault("teardown", []).append({"trials": len(td["trials"])})
    for t in td["trials"]:
        chk.case(("teardown", t["mode"], t["seed"]))
        if t["hang"]:
            chk.violation("teardown:hang:%s" % t["mode"],
                          "tearing the runtime down hung (mode %s, seed %d)" % (t["mode"], t["seed"]), t)
        for lk in t.get("leaks", []):
            kind = "address-not-free" if lk.startswith("address not free") else "service-clone-alive" if "clone" in lk else \
                "stuck-thread" if "stuck inside a poll" in lk else "subscription-open" if "subscription" in lk else "not-closed" if "not closed" in lk else "call-pending" if "pending" in lk else "other"
            chk.violation("teardown:leak:%s:%s" % (t["mode"], kind), "%s (mode %s, seed %d)" % (lk, t["mode"], t["seed"]), t)
        for p in t["panics"]:
            chk.violation("teardown:panic:%s:%s" % (t["mode"], p.split("\n")[-1][:60]),
                          "panic during runtime teardown (mode %s, seed %d): %s" % (t["mode"], t["seed"], p[:200]), t)
    chk.sample(td["trials"][2])
    # the defect that was repaired in /repo, as a spec mutant: asserting instead of cleaning up
    spec_mutant(chk, "assert_empty_after_join", "AnemoShut.tla", "MC_Shut.cfg",
                [("AnemoShut.tla", "  /\\ lostSent' = lostSent \\cup act /\\ act' = {} /\\ mgr' = \"draining\"\n  /\\ UNCHANGED <<hs, rt, panicked, replied, svc, mbox>>",
                  "  /\\ panicked' = (act # {}) /\\ mgr' = \"draining\"\n  /\\ UNCHANGED <<hs, rt, replied, act, lostSent, svc, mbox>>")], workers=2)
    # answering shutdown() as soon as the mailbox is seen closed (before the manager's state is gone)
    spec_mutant(chk, "reply_on_mailbox_closed", "AnemoShut.tla", "MC_Shut.cfg",
                [("AnemoShut.tla", "Reply == Up /\\ mgr = \"dropped\"", "Reply == Up /\\ mgr \\in {\"dropping\", \"dropped\"}")], workers=2)
