ENGINES = [
    {"name": "tlc", "path": "spec/", "serves_properties": [], "kind_free_text": "TLA+ specifications (AnemoConn, MC_*, *Trace) checked by TLC 1.8: exhaustive model checking of the design for small constants, and trace validation of executions recorded from the real code"},
    {"name": "harness", "path": "harness/", "serves_properties": [], "kind_free_text": "Rust conformance harness: real anemo Networks (built from /repo with --cfg bmwill_anemo_verif) on an in-memory datagram fabric under tokio's paused clock; hook events + API observations are written as ndjson and validated against the TLA+ trace specifications; TLC-generated behaviours are replayed into the real objects"},
]
NOTES = "All checks: bin/check <ID> --tier quick|thorough. Evidence is written by the check from measured numbers. KNOWN_FINDINGS.json lists genuine defects that are recorded rather than repaired."
NOT_APPLICABLE = {}
CHECKS = {
 "C04": {
  "text": "TLC exhausts every interleaving of dials, handshake steps, timeouts, disconnects, handler exits and subscriptions between 2 networks (2 attempts quick, 3 thorough: 8.8M states) and checks Alternate, LogMatchesListing/Replay, NoDeadEntry, StaleExitHarmless; then every event of randomized multi-node histories recorded from the real code (hooks inside ActivePeersInner's write lock + subscriber observations) must be explained by the same specification, with the invariants evaluated after every event.",
  "note": "Trusts TLC, the hook placement (events are emitted inside the critical section they describe), quinn's delivery of closes; bounded by the model constants and by the sampled histories.",
  "technique": "TLA+ model checking (TLC) + trace validation of recorded executions",
  "ref": "DESIGN.md 5/C04",
 },
}
