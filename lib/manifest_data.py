ENGINES = [
    {"name": "tlc", "path": "spec/", "serves_properties": [], "kind_free_text": "TLA+ specifications (AnemoConn, MC_*, *Trace) checked by TLC 1.8: exhaustive model checking of the design for small constants, and trace validation of executions recorded from the real code"},
    {"name": "harness", "path": "harness/", "serves_properties": [], "kind_free_text": "Rust conformance harness: real anemo Networks (built from /repo with --cfg bmwill_anemo_verif) on an in-memory datagram fabric under tokio's paused clock; hook events + API observations are written as ndjson and validated against the TLA+ trace specifications; TLC-generated behaviours are replayed into the real objects"},
]
NOTES = "All checks: bin/check <ID> --tier quick|thorough. Evidence is written by the check from measured numbers. KNOWN_FINDINGS.json lists genuine defects that are recorded rather than repaired."
NOT_APPLICABLE = {}
CHECKS = {
 "C04": {
  "text": "TLC exhausts every interleaving of dials, handshake steps, timeouts, disconnects, handler exits and subscriptions between 2 networks (2 attempts quick, 3 thorough: 8.8M states) and checks Alternate, LogMatchesListing/Replay, NoDeadEntry, StaleExitHarmless; then every event of randomized multi-node histories recorded from the real code (hooks inside ActivePeersInner's write lock + subscriber observations) must be explained by the same specification, with the invariants evaluated after every event.",
  "note": "Trusts TLC, the hook placement (events are emitted inside the critical section they describe), quinn's delivery of closes; bounded by the model constants and by the sampled histories.",
  "technique": "TLA+ model checking (TLC) + trace validation of recorded executions",
  "ref": "DESIGN.md 5/C04",
 },
 "C03": {
  "text": "TLC exhausts the handshake/registration interleavings (MC_Conn; ReturnedIsListed, DialerLearns); real dials from an honest network to every combination of (honest X, honest Y, adversary replaying X's certificate with its own key, adversary with its own certificate) x (pin X / Y / adversary / none), sequentially and concurrently, with each early handshake datagram dropped in turn, are recorded and validated by AnemoConnTrace: the identity a dial attributes must be the identity of the party really listening at the address and equal to the pin, a listener never finishes TLS for a connection whose dialer did not (so no side effect), a reply Ok requires the peer to be listed at that instant.",
  "note": "Trusts TLS 1.3 ordering as implemented by rustls/quinn and Ed25519 unforgeability (the adversary holds only its own key); bounded by sampled loss schedules.",
  "technique": "TLA+ model checking (TLC) + trace validation of adversarial dial scenarios",
  "ref": "DESIGN.md 5/C03",
 },
 "C05": {
  "text": "TLC checks Converge/MutualAtQuiescence over every interleaving of one dial in each direction (MC_Conn_c05) and refutes the inverted-tie-break spec mutant; the tie-break table emitted by TLC is replayed into the real function over random id pairs (incl. ids differing in one byte); schedule gates hold the four finished connecting tasks of a real mutual dial and release them to the two managers in all 4! orders (both issue orders), plus random latency/loss/duplication variants; each recorded execution is validated by AnemoConnTrace including Converged (same connection, dialed by the greater id), reachability by RPC both ways, and Settled (no further events one idle period later).",
  "note": "Gates reorder when finished tasks reach the managers; packet-level reordering inside quinn is sampled, not enumerated.",
  "technique": "TLA+ model checking (TLC) + gate-driven schedule enumeration on the real code + trace validation",
  "ref": "DESIGN.md 5/C05",
 },
 "C09": {
  "text": "TLC checks MutualAtQuiescence over all interleavings incl. timeouts and disconnects; randomized 3-4 node histories with partitions (shorter and longer than the idle timeout), one-way blocks, loss bursts, restarts, with and without keep-alive, end with a fault-free period longer than the idle timeout; AnemoConnTrace checks at quiescence that views are mutual and on the same connection and every listed peer answers an RPC, that a disconnect removes at once with LostPeer(Requested) and RPCs are refused while not listed, that every handler exit has a cause the environment could have produced, and the CloseObservedBy deadline at every event.",
  "note": "'No later than the idle timeout' is evaluated with QUIC's idle-timer rule: the deadline runs from the later of the peer's close and the survivor's last datagram received from / sent to the peer's address (+ keep-alive interval + 2 s slack).",
  "technique": "TLA+ model checking (TLC) + trace validation of fault-injected multi-node histories",
  "ref": "DESIGN.md 5/C09",
 },
 "C10": {
  "text": "TLC checks the admission table (stated over the history of verdicts), RejectedDialerFails and mutual views for 3 networks with a limit, Allowed/Never/High affinities and non-overlapping dials (MC_Conn_c10), and refutes the off-by-one spec mutant; seed-enumerated sequences of arrivals, explicit dials, background dials, disconnects and affinity changes on real networks with limit in {none,0,1,2,3} are validated by AnemoConnTrace: each logged verdict must equal Admitted() evaluated on the specification's own state (affinity table, established-connection count), and a dial may only succeed through the listener's ack.",
  "note": "Arrivals are non-overlapping as the property states; the count compared is the specification's, not the logged one.",
  "technique": "TLA+ model checking (TLC) + trace validation of admission sequences",
  "ref": "DESIGN.md 5/C10",
 },
 "C13": {
  "text": "TLC checks NeverDialed, Spacing (from the dial history and from the time a failure was noticed), Rotation, CapRespected and ConnectsWithin on a discrete-time model of the connectivity check with peers flipping reachability (MC_Dial, two configurations) and refutes spec mutants (>= for >, no rotation, dialing Allowed, dialing self); long virtual-time runs of real networks with random known-peer tables (all affinities, self, empty/dead/live address lists), intervals, back-off steps, caps and reachability schedules are validated by AnemoConnTrace: every mgr.tick must be exactly Tick (drained set, back-off table, eligible set, number dialed, address index and address) and ticks must come every interval.",
  "note": "ConnectsWithin is decided in the model and follows on traces from Tick + TicksOnTime; the trace spec recomputes eligibility from its own state.",
  "technique": "TLA+ model checking (TLC) + trace validation of long virtual-time dialing schedules",
  "ref": "DESIGN.md 5/C13",
 },
 "C18": {
  "text": "AnemoInflight (per-peer FIFO-fair semaphore with arrive / grant / poll / leave ok|err / cancel at every stage) is model-checked exhaustively for both wait modes and Max in {1,2} over 5 requests (Bound, NoLeak, FullAtRest, NoIdleWait, PerPeer, NoSenderNeverEnters; the leak-on-cancel spec mutant is refuted); TLC-generated behaviours are replayed step by step into the real InflightLimitLayer (through clones) with an explicit executor - arrive = create + first poll, cancel = drop the future, leave = finish the wrapped service with Ok/Err - and after every step the per-peer number of requests inside the wrapped service and every request's observable status must equal the specification's state.",
  "note": "The wrapped service is a gauge controlled by the harness; tokio's semaphore fairness is part of what is observed. Behaviours are sampled by TLC's simulator (hundreds quick, thousands thorough), invariants are exhaustive.",
  "technique": "TLA+ model checking (TLC) + replay of TLC-generated behaviours into the real layer",
  "ref": "DESIGN.md 5/C18",
 },
 "C19": {
  "text": "AnemoRate (GCRA per key, discrete time) is model-checked for every arrival pattern over 2 keys (WindowBound, Refusal, HintExact, PerKey; spec mutant refuted); all 3^8 arrival patterns at one instant are replayed against the real RateLimitLayer with an hour-long period, verdicts compared exactly (refusal = TooManyRequests + positive wait-nanos hint, request does not reach the service; missing sender = InternalServerError); timed runs in Block and ReturnError mode with real periods are recorded with two-sided timestamps and validated by AnemoRateTrace against the sound form of the window bound, Block mode must admit everything in bounded time.",
  "note": "governor's clock cannot be substituted: the timed part checks necessary conditions only (delays can hide, never fabricate a violation).",
  "technique": "TLA+ model checking (TLC) + exact replay of TLC behaviours + trace validation of timed runs",
  "ref": "DESIGN.md 5/C19",
 },
 "C20": {
  "text": "AnemoAuth is model-checked (Iff, RefusedNeverInside; spec mutant refuted); the allow-list decision table emitted by TLC (all 8 subsets x 5 senders incl. absent and an unlisted identity) is replayed into RequireAuthorizationLayer+AllowedPeers through the layer and a clone, and all 222 complete behaviours of 3 concurrent requests through 2 clones with a scripted authorizer are replayed with an explicit executor: after each step the set of requests the wrapped service was invoked for and each request's state must equal the specification's; a refusal must be exactly the authorizer's response (status, headers, body).",
  "note": "Exhaustive for the stated bounds.",
  "technique": "TLA+ model checking (TLC) + exhaustive replay of TLC tables/behaviours into the real layer",
  "ref": "DESIGN.md 5/C20",
 },
 "C02": {
  "text": "AnemoRpc (one stream per call: open under stream credit, write, finish, abandon at any stage, accept, invoke only complete requests, stop-watch, respond, credit return, connection loss) is model-checked for 3 calls / credit 2 (AtMostOnce, OnlyCompleteRequests, OkMeansHandled; spec mutant refuted); workloads of ~80 concurrent calls per run in both directions on one connection plus a third node - bodies 0 B..4 MB, random routes and header maps, response sizes, handler delays that permute completion order - run fault-free and under datagram loss <= 20%, duplication and reordering; AnemoRpcTrace ties caller's request, handler's view, handler's reply and caller's result together by nonce: the handler is invoked at most once with exactly the request sent, an Ok result is exactly the reply produced for that nonce (status, length, body digest, header digest), identities seen are the connection's, every call that must succeed does, none hangs.",
  "note": "Bodies are compared through length + SHA-256 prefix; quinn's stream machinery is exercised, not modelled.",
  "technique": "TLA+ model checking (TLC) + trace validation of concurrent RPC workloads under datagram faults",
  "ref": "DESIGN.md 5/C02",
 },
 "C11": {
  "text": "The deadline table Chosen(default, header) = min with absent/unparsable as none is part of AnemoRpcTrace; runs with every combination of inbound default {none,300,800 ms} x outbound default {none,400,900 ms} on the three nodes, timeout header {absent, 200 ms, 700 ms, 5 s, 0, u64::MAX, overflowing, garbage} and handler duration {0..1200 ms} are recorded in virtual time: each timeout layer's logged decision (tmo.set) must equal the table applied to the node's configured default and the raw header; a handler needing longer is dropped at start+deadline and answered RequestTimeout, the caller's error comes at call+deadline, and no handler answer gets through past a deadline (CannotExtend).",
  "note": "Fault-free, 1 ms links, 60 ms slack on timing equalities.",
  "technique": "TLA+ trace validation of a decision-table-driven timeout workload (virtual time) + TLC model of the stream protocol",
  "ref": "DESIGN.md 5/C11",
 },
 "C12": {
  "text": "AnemoRpc is model-checked with hanging handlers (NoOrphanHandler, NoLeak, NoStuckCaller at quiescence; the no-stop-watch spec mutant is refuted); real calls are abandoned at every stage - held at schedule gates before open_bi, after it, after writing the request, after finish, or dropped after 0-150 ms - about 50 abandonments per run against a stream limit of 8, interleaved with calls that must succeed, fault-free and under loss; AnemoRpcTrace requires every started handler of an abandoned call to be dropped within 250 ms (fault-free) and not to complete later, every non-abandoned call to get its own correct result, and fresh calls after the storm to succeed.",
  "note": "Promptness is timed only in fault-free runs; under loss the requirement is that capacity is not exhausted.",
  "technique": "TLA+ model checking (TLC) + gate-driven abandonment at every stage + trace validation",
  "ref": "DESIGN.md 5/C12",
 },
 "C15": {
  "text": "AnemoRpcTrace carries the size verdict: a call succeeds iff all four frames (request header/body, response header/body; header sizes from the bincode layout) fit the limits of both ends, an oversized request never reaches the handler, and only that call fails; runs place limits of 64 B / 4 KiB / 1 MiB on caller only, callee only, both, or different on each side and hit each frame at limit-2..limit+2 and +40; with no limit configured sizes around 8 MiB are sent. The 8 MiB default cap that applies when no maximum is configured is a listed known finding.",
  "note": "Known finding C15 nolimit:frame-over-8MiB-refused is reported as KNOWN-FINDING; any other size verdict mismatch is a violation.",
  "technique": "TLA+ trace validation of boundary-size workloads + TLC model of the stream protocol",
  "ref": "DESIGN.md 5/C15",
 },
 "C07": {
  "text": "AnemoWire transcribes the layout (preamble, big-endian frame lengths, bincode fixed-int little-endian header with strings and the header map, raw body) and the decoder as the code runs; TLC evaluates RoundTrip, PrefixRejected (every strict prefix of every message), Closed (magic, reserved byte, versions 0/2/256, statuses 0/201/65535) and a golden byte string over 364 requests and 224 responses (routes incl. a 2-byte character, <= 2 headers in both orders, bodies incl. 0x00/0xff); each (message, bytes) row is replayed: the real encoder (with and without local extensions set) must produce the specification's bytes, the real decoder must return the message from them, reject every strict prefix (31k decodes) and every closed-set mutation; random larger messages (any unicode, NUL) encoded by the real code are decoded by the specification's decoder in AnemoWireTrace and their total length must be exactly preamble + two frames.",
  "note": "Multi-megabyte bodies are covered by C02/C15 through lengths and digests; here bodies are small.",
  "technique": "TLA+ specification of the byte layout evaluated by TLC + exhaustive replay both ways",
  "ref": "DESIGN.md 5/C07",
 },
 "C16": {
  "text": "AnemoRouter models route / route_layer / merge / add_rpc_service over exact and wildcard-tail patterns with matchit's conflict rule; TLC enumerates all 6166 build sequences of <= 4 operations (6 patterns, 2 layers, 2 pre-layered sub-routers) and checks ExactlyOne; each sequence is executed on the real Router: a conflicting insert must panic exactly when the specification says, and each of 16 probe paths (exact, trailing slash, empty, missing leading slash, under a wildcard, the literal pattern) must reach exactly the service and layer stack (outermost first) the specification gives, or NotFound; plus a sweep of odd strings that must never panic.",
  "note": "Patterns outside the language the property names (named parameters) are out of scope.",
  "technique": "TLA+ model checking (TLC) + exhaustive replay of TLC-enumerated build sequences into the real Router",
  "ref": "DESIGN.md 5/C16",
 },
 "C17": {
  "text": "AnemoCodegen gives path and prefix as functions of (package, service, route) and TLC checks that a path lies under its own service's prefix and no other's (a service name that prefixes another, dotted and empty packages); for each of the 27 definition rows x 2 codec/raw-bytes settings the real client and server generators are run and the route literals of the generated client, the server's dispatch arms and SERVICE_NAME are extracted from the token streams and compared; code generated at build time by /repo's anemo-build for four definitions is compiled into the harness and typed calls through one real Router holding all services must reach exactly the handler of the same name, with the pipeline table (handler Ok -> message + headers; handler Status -> same code, message, headers; undecodable payload -> Unknown without running the handler; undecodable response / non-success status -> Err) holding.",
  "note": "The weakest use of the specification: a thin transcription of a string function plus a four-row table; the weight is on replaying it against the real generators.",
  "technique": "TLA+ table evaluated by TLC + replay into the real code generators and compiled generated code",
  "ref": "DESIGN.md 5/C17",
 },
 "C01": {
  "text": "AnemoIdentity is a symbolic (Dolev-Yao) model of the three verifiers and the TLS signature check; TLC checks AuthenticAsDialer / AuthenticAsListener over every certificate the adversary can build from its own key plus replays of honest certificates, every SNI, pin and configuration (the no-signature-check spec mutant is refuted). The verifier tables TLC emits (288 client rows, 576 server rows: subject key, signer, name, algorithm incl. P-256, validity, malformed DER, pins) are minted with rcgen and given to the real verifiers; 432 adversary handshakes (SNI x certificate x proof key x extra replayed certificates appended to the chain x listener names, plus no client certificate) run against real Networks on the fabric and the identity the listener lists must be the end-entity key; every single-byte mutation of a valid certificate (all 255 alternatives in the thorough tier) may only be accepted if it still names the same identity; the adversary-as-listener cases (replayed certificate with another key, own certificate, own certificate followed by the victim's) run in the C03 scenario under AnemoConnTrace (attributed identity = party really reached), and AnemoRpcTrace checks that the PeerId handlers and callers see is the connection's.",
  "note": "Cryptographic hardness and the internals of ring/rustls/webpki are trusted; the model assumes perfect cryptography. Byte-level mutation verdicts are checked against 'still the same identity', not enumerated by TLC.",
  "technique": "TLA+ symbolic model evaluated by TLC + replay of its decision tables into the real verifiers and real handshakes + trace validation",
  "ref": "DESIGN.md 5/C01",
 },
 "C06": {
  "text": "AnemoRpc with hostile streams (garbage, stall, reset, stop at any point; 4 calls, credit 3: 589k states) is checked for GarbageNeverInvoked, AtMostOnce, NoLeak, NoStuckCaller; a raw QUIC adversary with a valid identity connects to a real Network and opens hundreds of hostile streams per run - 15 byte classes derived from the decoder's error states (random, truncated-valid, bad magic/version/reserved, 4 GiB and 9 MiB frame prefixes, 2^64-1 string and map lengths, invalid UTF-8, mutated-valid, absurd body length, long multi-byte routes) x 6 endings (finish, reset, stop, drop, read, left open) plus unidirectional streams, datagrams and three kinds of abrupt close and reconnect - while an honest peer's calls and the adversary's own well-formed calls on sibling streams must all succeed with correct results; the recording is validated by AnemoRpcTrace and AnemoConnTrace; a panic, an abort of the process or a closed network is a violation.",
  "note": "Malformed QUIC packets and exhaustion by volume are out of scope.",
  "technique": "TLA+ model checking (TLC) + adversarial stream scripts against the real code + trace validation by two specifications",
  "ref": "DESIGN.md 5/C06",
 },
 "C14": {
  "text": "AnemoIdentity's name rules (Connectable, NameMismatchRejected, HonestConnects) are evaluated by TLC over all configurations of 3 names; all 144 ordered pairs of (primary, optional alternate) configurations are started as real Networks and dialed - connect succeeds and both list each other iff the dialer's primary name is one the listener accepts; 432 adversarial dials claim each name in the TLS hello while presenting certificates for each name against listeners with one and two names; the verifier-level name rows (dialled name, certificate name, pin) are replayed into the real verifiers.",
  "note": "Exhaustive for 3 names.",
  "technique": "TLA+ decision tables evaluated by TLC + exhaustive replay into real handshakes and verifiers",
  "ref": "DESIGN.md 5/C14",
 },
 "C08": {
  "text": "AnemoShut models the shutdown sequence with the runtime torn down at any moment (tasks dropped in any order, a dropped handler never deregisters) and TLC checks NoPanic / Released / RepliedOnlyWhenDone; the pre-fix behaviour (assert instead of clean-up) is kept as a spec mutant that TLC refutes. Virtual-time runs shut a loaded network down explicitly, twice, concurrently or by dropping the last handle with RPCs in flight both ways, a hanging outbound dial, an arriving inbound handshake and racing API calls; AnemoConnTrace checks the step order, that the wait respects the configured idle bound (applied = configured), no peers left, and on the application's observations: closed, no peers, address re-bindable at once (fabric + real socket), no live clone of the service, weak reference dead, subscribers drained to end-of-stream, later API calls fail without hanging, other nodes see the loss within the idle timeout; AnemoRpcTrace checks that no call hangs. On real threads the runtime is torn down with handles idle, right after dropping them, with the manager parked at shut.closed / shut.aborted / a handler parked at h.closing (blocking gates + shutdown_background), after shutdown, at random instants, and with a handler stuck in a non-yielding section: a panic, a hang of the teardown (watchdog) or a live service clone after shutdown() returned is a violation.",
  "note": "Real-thread teardown is gate-driven and randomised, not exhaustive. One genuine defect found here was repaired (fix: commit, see KNOWN_FINDINGS.json); the round-0 observation of a manager spin on runtime drop with idle handles did not reproduce in 100+ trials and is not claimed.",
  "technique": "TLA+ model checking (TLC) + trace validation of shutdown scenarios + gate-driven runtime teardown on real threads",
  "ref": "DESIGN.md 5/C08",
 },
}
