#!/usr/bin/env python3
"""Regenerate MANIFEST.json from lib/manifest_data.py (single source for the per-check texts)."""
import json, os, subprocess, sys
sys.path.insert(0, os.path.dirname(os.path.abspath(__file__)))
from manifest_data import CHECKS, NOT_APPLICABLE, ENGINES, NOTES
V = os.path.dirname(os.path.dirname(os.path.abspath(__file__)))
ids = [json.loads(l)["id"] for l in open(os.path.join(V, "properties.jsonl"))]
commits = subprocess.run(["git", "-C", "/repo", "log", "--format=%H %s"], capture_output=True, text=True).stdout.splitlines()
hook_commits = [c.split()[0] for c in commits if c.split(" ", 1)[1].startswith("verif:")]
m = {
    "version": 1,
    "setup_cmd": "bin/setup",
    "hooks": {
        "guard": "bmwill_anemo_verif",
        "enable": "rustflags --cfg bmwill_anemo_verif in harness/.cargo/config.toml; the harness has path dependencies on /repo/crates/{anemo,anemo-tower,anemo-build}, so every check rebuilds from /repo's working tree",
        "baseline_off_cmd": "cd /repo && cargo test --workspace --no-fail-fast --offline",
        "source_commits": hook_commits,
        "add_only": True,
    },
    "engines": ENGINES,
    "checks": [],
    "not_applicable": [],
    "notes": NOTES,
}
for pid in ids:
    if pid in CHECKS:
        c = CHECKS[pid]
        m["checks"].append({
            "property_id": pid,
            "quick_cmd": f"bin/check {pid} --tier quick",
            "thorough_cmd": f"bin/check {pid} --tier thorough",
            "evidence_file": f"evidence/{pid}.json",
            "replay_cmd_template": "bin/check replay {path}",
            "engine": "tlc+harness",
            "level_claimed": {"category": "model_checking", "text": c["text"], "design_ref": c.get("ref", "DESIGN.md section 5")},
            "level_note": c["note"],
            "technique": c["technique"],
        })
    else:
        m["not_applicable"].append({"property_id": pid, "reason": NOT_APPLICABLE.get(pid, "check not built yet; planned per DESIGN.md section 5")})
json.dump(m, open(os.path.join(V, "MANIFEST.json"), "w"), indent=1)
print("checks:", [c["property_id"] for c in m["checks"]])
