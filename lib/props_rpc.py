"""C02 C11 C12 C15: the RPC path - AnemoRpc model + AnemoRpcTrace validation of recorded workloads."""
import json, os
import vlib
from vlib import harness, tlc_mc, spec_mutant, trace_check
from props import prop, quick, sample_events, count_cases

RPC_TRACE = ("AnemoRpcTrace.tla", "AnemoRpcTrace.cfg")
CAP = 8 << 20


def rpc_runs(chk, label, classify=None, **kw):
    summ = harness("rpc", out=os.path.join(vlib.WORK, "%s_%s" % (chk.pid, label)), **kw)
    summ["args"] = kw
    trace_check(chk, *RPC_TRACE, summ, classify=classify, label=label)
    return summ


def mc_rpc(chk):
    chk.add_mc(tlc_mc("AnemoRpc.tla", "MC_Rpc.cfg", workers=8, timeout=1500))
    chk.add_mc(tlc_mc("AnemoRpc.tla", "MC_Rpc_nolose.cfg", workers=8, timeout=1500))
    # liveness under weak fairness of every honest / callee / transport step: an open call ends, a waiting
    # one gets a stream unless streams are legitimately held, abandoned handlers are dropped, credit returns
    chk.add_mc(tlc_mc("AnemoRpc.tla", "MC_Rpc_live.cfg", workers=4, timeout=1500))
    spec_mutant(chk, "live_stop_ignored_by_hanging_handlers", "AnemoRpc.tla", "MC_Rpc_live.cfg",
                [("AnemoRpc.tla", 'StopSeen(q) == /\\ Live /\\ ss[q] = "handling" /\\ stop[q]',
                  'StopSeen(q) == /\\ Live /\\ ss[q] = "handling" /\\ stop[q] /\\ q \\notin Hangs')], workers=4)


@prop("C02")
def c02(chk):
    chk.rule = ("cases = calls recorded (caller's request, handler's view, handler's reply, caller's result tied by nonce); "
                "non-trivial = the call overlapped others on its connection, its body was >= 20 kB, or datagram faults were active")
    chk.assumptions = ["bodies are compared by length + SHA-256 prefix in the trace (full equality is implied by the digest)",
                       "quinn's stream reliability is exercised, not modelled below the stream level"]
    mc_rpc(chk)
    runs = 12 if quick(chk) else 300
    for label, kw in (("mix", dict(mode="mix", faults=0, calls=80)), ("mixfault", dict(mode="mix", faults=1, calls=80)),
                      ("replace", dict(mode="replace", faults=0, calls=60))):
        summ = rpc_runs(chk, label, seed=chk.seed + (7 if kw["faults"] else 0), runs=runs, jobs=12, files=6, **kw)
        count_cases(chk, summ, lambda r: (r["nonce"], r.get("len", 0) // 20000, r.get("status"))
                    if r["ev"] == "obs.rpc_result" and r.get("ok") else None)
    sample_events(chk, summ, ("obs.rpc_call", "app.start", "app.end", "obs.rpc_result"), n=4)
    # frame limits that differ between caller and callee: what one side refuses the other never sees as a
    # shorter message (a refused body is an error, not an empty body)
    rpc_runs(chk, "sizes", mode="sizes", faults=0, calls=60, seed=chk.seed + 2, runs=4 if quick(chk) else 60, jobs=6, files=2)
    # calls that run into a deadline on either side end in an error (or the serving side's own 408) - never
    # in a response nobody produced
    rpc_runs(chk, "deadlines", mode="timeouts", faults=0, calls=60, seed=chk.seed + 4, runs=4 if quick(chk) else 60, jobs=6, files=2)
    # the middleware an application may put around its service or its calls (anemo-tower: request id,
    # set header, classifier, callback, trace): each changes exactly what AnemoTowerMisc says, nothing else
    tables = vlib.tlc_tables("AnemoTowerMisc.tla", "AnemoTowerMisc.cfg")
    chk.states += sum(len(v) for v in tables.values())
    chk.parts.setdefault("tlc", []).append({"module": "AnemoTowerMisc.tla", "rows": {k: len(v) for k, v in tables.items()}})
    tm = vlib.harness("replay-towermisc", table=vlib.write_json(os.path.join(vlib.WORK, "C02_towermisc.json"), tables))
    from props import replay_check
    replay_check(chk, "tower-misc", tm)
    # the typed path (generated clients and servers): message, error status, its message and headers intact
    ctables = vlib.tlc_tables("AnemoCodegen.tla", "AnemoCodegen.cfg")
    replay_check(chk, "typed-pipeline", vlib.harness("replay-codegen", table=vlib.write_json(os.path.join(vlib.WORK, "C02_codegen.json"), ctables)))
    spec_mutant(chk, "propagate_overrides_handler", "AnemoTowerMisc.tla", "AnemoTowerMisc.cfg",
                [("AnemoTowerMisc.tla", '  IF respHdr # "none" THEN [hdr |-> respHdr,', '  IF respHdr # "none" /\\ reqHdr = "none" THEN [hdr |-> respHdr,')], workers=1)
    spec_mutant(chk, "invoke_again", "AnemoRpc.tla", "MC_Rpc.cfg",
                [("AnemoRpc.tla", '             /\\ ss\' = [ss EXCEPT ![q] = "handling"]\n             /\\ invoked\'',
                  "             /\\ ss' = ss\n             /\\ invoked'")], workers=4)


@prop("C12")
def c12(chk):
    chk.rule = ("cases = abandoned calls recorded, by (caller stage at abandonment, whether the handler had started, what "
                "happened to it); non-trivial = all (each abandonment is a cancellation race)")
    chk.assumptions = ["PromptCancel is timed in fault-free runs (1 ms links, bound 250 ms); under loss only NoLeak / "
                       "later calls succeeding is required"]
    mc_rpc(chk)
    runs = 12 if quick(chk) else 300
    for label, faults in (("abandon", 0), ("abandonfault", 1)):
        summ = rpc_runs(chk, label, mode="abandon", faults=faults, calls=70, seed=chk.seed + 11 * faults, runs=runs,
                        jobs=12, files=6)
        count_cases(chk, summ, lambda r: ((r["ev"], r.get("stage"), r.get("nonce"), r.get("call")))
                    if r["ev"] in ("rpc.drop", "app.drop", "srv.drop") else None)
    sample_events(chk, summ, ("rpc.drop", "obs.rpc_abandon", "app.drop"), n=4)
    # hundreds of calls abandoned under running handlers on one connection within seconds, ordinary calls in between
    rpc_runs(chk, "storm", mode="storm", faults=0, calls=720, seed=chk.seed + 17, runs=2 if quick(chk) else 24, jobs=6, files=2)
    # abandonment by timing out: the caller's own deadline (header / configured default) ends the call;
    # other calls on the connection, in flight or later, are not disturbed
    st = rpc_runs(chk, "timedout", mode="timeouts", faults=0, calls=60, seed=chk.seed + 5, runs=max(4, runs // 3),
                  jobs=12, files=4)
    count_cases(chk, st, lambda r: ("tmo.fire", r.get("dir")) if r["ev"] == "tmo.fire" else None)
    # generated servers: dropping a request's future takes the user's handler with it
    cg = vlib.harness("codegen-cancel")
    from props import replay_check
    replay_check(chk, "codegen-cancel", cg)
    spec_mutant(chk, "no_stop_watch", "AnemoRpc.tla", "MC_Rpc_nolose.cfg",
                [("AnemoRpc.tla", "          \\/ Refuse(q) \\/ StopSeen(q) \\/ Respond(q)", "          \\/ Refuse(q) \\/ Respond(q)")], workers=4)


def c15_classify(rec, run, res, recs):
    """the 8 MiB default cap when no max_frame_size is configured (known finding)"""
    if rec.get("ev") != "obs.rpc_result" or rec.get("ok"):
        return None
    lo, hi = run.get("first_line", 1), run.get("last_line", len(recs))
    call = next((r for r in recs[lo - 1:hi] if r.get("ev") == "obs.rpc_call" and r.get("nonce") == rec.get("nonce")), None)
    cfgs = [r for r in recs[lo - 1:hi] if r.get("ev") == "obs.rpc_cfg"]
    if call and cfgs and all("max_frame" not in c for c in cfgs):
        if max(call.get("len", 0), call.get("resp_len", 0)) > CAP and str(rec.get("err", ""))[:40] in (
                "frame size too big", "stream reset by peer: error 0"):
            return "nolimit:frame-over-8MiB-refused"
    return None


@prop("C15")
def c15(chk):
    chk.rule = ("cases = (which frame: request/response header/body, size relative to the limit of caller and callee, "
                "outcome) per call recorded; non-trivial = the size is within 2 bytes of a configured limit or of 8 MiB")
    chk.assumptions = ["header-frame sizes are computed from the bincode layout (8+|route|+8+sum(16+|k|+|v|))"]
    mc_rpc(chk)
    runs = 12 if quick(chk) else 400
    summ = rpc_runs(chk, "sizes", mode="sizes", faults=0, calls=80, seed=chk.seed, runs=runs, jobs=12, files=6)
    count_cases(chk, summ, lambda r: (r.get("len"), r.get("hsize"), r.get("resp_len")) if r["ev"] == "obs.rpc_call" else None)
    sample_events(chk, summ, ("obs.rpc_cfg", "obs.rpc_call", "obs.rpc_result"), n=4)
    s2 = rpc_runs(chk, "nolimit", classify=c15_classify, mode="nolimit", faults=0, calls=10, seed=chk.seed,
                  runs=1 if quick(chk) else 6, jobs=3, files=1)
    # a configured maximum beyond 4 GiB: everything (8 MiB + 1 included) is delivered
    s3 = rpc_runs(chk, "hugelimit", mode="hugelimit", faults=0, calls=10, seed=chk.seed,
                  runs=1 if quick(chk) else 6, jobs=3, files=1)


@prop("C11")
def c11(chk):
    chk.rule = ("cases = (inbound default, outbound default, timeout header class, handler duration, outcome) per call recorded; "
                "non-trivial = a deadline exists on either side")
    chk.assumptions = ["timing rules use virtual time with 60 ms slack; runs are fault-free (1 ms links)"]
    mc_rpc(chk)
    runs = 16 if quick(chk) else 500
    summ = rpc_runs(chk, "timeouts", mode="timeouts", faults=0, calls=90, seed=chk.seed, runs=runs, jobs=12, files=6)
    # cases: need cfg per run; approximate by (header class, delay, outcome)
    calls = {}
    for f in summ["files"]:
        for line in open(f):
            r = json.loads(line)
            if r["ev"] == "reset":
                calls = {}
            elif r["ev"] == "obs.rpc_call":
                calls[r["nonce"]] = (r.get("timeout_hdr"), r.get("delay"))
            elif r["ev"] == "obs.rpc_result" and r["nonce"] in calls:
                chk.case(calls[r["nonce"]] + (r.get("ok"), r.get("status"), str(r.get("err"))[:20]))
    sample_events(chk, summ, ("tmo.set", "obs.rpc_result"), n=4)
    # defaults far beyond everything else that is configured (60 - 120 s, the connections' idle timeout is
    # 30 s): the deadline that applies is still the one that was configured
    rpc_runs(chk, "generous", mode="mix", faults=0, calls=40, seed=chk.seed + 3, runs=6 if quick(chk) else 120, jobs=6, files=3)
    # generated servers behind the inbound timeout layer: RequestTimeout at the deadline and the handler dropped
    from props import replay_check
    replay_check(chk, "codegen-deadline", vlib.harness("codegen-deadline"))
