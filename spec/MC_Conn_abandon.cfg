SPECIFICATION Spec
CONSTANTS
  NoLimit = NoLimit
  Nodes = {1, 2}
  Pairs <- AllPairs
  MaxAtt = 2
  MaxDisc = 1
  MaxSubs = 1
  Sequential = FALSE
  Abandons = TRUE
  Timeouts = TRUE
  Limits <- NoLimits
  Affs <- NoAffs
INVARIANT Invariants
INVARIANT MutualAtQuiescence
INVARIANT DialerLearns
PROPERTY StaleExitHarmless
CHECK_DEADLOCK FALSE
