
