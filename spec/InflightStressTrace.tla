------------------------- MODULE InflightStressTrace -------------------------
(***************************************************************************)
(* Histories of the real in-flight limiter under several OS threads        *)
(* (harness limstress).  `enter` and `leave` are logged by the wrapped     *)
(* service while the request holds its slot, with a global sequence number,*)
(* so in log order the set of requests inside is a subset of the requests  *)
(* that really held a slot at that moment: the C18 bound must hold on it.  *)
(*   enter   r of peer p starts executing : fewer than Max of p inside     *)
(*   leave   r finishes                                                    *)
(*   result  what the caller got: served iff it entered (and left),        *)
(*           refused only in ReturnError mode and never after entering     *)
(*   end     nobody inside; every request has exactly one result           *)
(***************************************************************************)
EXTENDS Naturals, Sequences, FiniteSets, TLC, Json, IOUtils

Rec == ndJsonDeserialize(IOEnv.TRACE)

VARIABLES l, max, mode, inside, entered, left, results
vars == <<l, max, mode, inside, entered, left, results>>

Cur == Rec[l]
Key == <<Cur.peer, Cur.rid>>
InsideOf(p) == {k \in inside : k[1] = p}

Init == l = 1 /\ max = 0 /\ mode = "" /\ inside = {} /\ entered = {} /\ left = {} /\ results = {}

Step(e) == l <= Len(Rec) /\ Cur.ev = e /\ l' = l + 1

TrReset == /\ Step("reset") /\ max' = Cur.max /\ mode' = Cur.mode
           /\ inside' = {} /\ entered' = {} /\ left' = {} /\ results' = {}

TrEnter == /\ Step("enter")
           /\ Key \notin entered                                   \* executed at most once
           /\ Cardinality(InsideOf(Cur.peer)) < max                \* C18 Bound
           /\ inside' = inside \cup {Key} /\ entered' = entered \cup {Key}
           /\ UNCHANGED <<max, mode, left, results>>

TrLeave == /\ Step("leave")
           /\ Key \in inside
           /\ inside' = inside \ {Key} /\ left' = left \cup {Key}
           /\ UNCHANGED <<max, mode, entered, results>>

TrResult == /\ Step("result")
            /\ Key \notin results
            /\ CASE Cur.outcome = "served"  -> Key \in left
                 [] Cur.outcome = "refused" -> mode = "ReturnError" /\ Key \notin entered /\ ~("final" \in DOMAIN Cur)
                 [] OTHER -> FALSE                                  \* "hung" (a slot leaked), "other"
            /\ results' = results \cup {Key}
            /\ UNCHANGED <<max, mode, inside, entered, left>>

TrEnd == /\ Step("end")
         /\ inside = {} /\ entered = left /\ entered \subseteq results
         /\ UNCHANGED <<max, mode, inside, entered, left, results>>

Next == TrReset \/ TrEnter \/ TrLeave \/ TrResult \/ TrEnd
Spec == Init /\ [][Next]_vars

TraceAccepted ==
  LET d == TLCGet("stats").diameter IN
  IF d - 1 = Len(Rec) THEN TRUE
  ELSE /\ PrintT(<<"TRACE-REJECTED at line", d, IF d <= Len(Rec) THEN Rec[d] ELSE "eof">>)
       /\ FALSE
=============================================================================
