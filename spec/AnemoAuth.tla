----------------------------- MODULE AnemoAuth -----------------------------
(***************************************************************************)
(* anemo-tower's RequireAuthorization middleware and the AllowedPeers      *)
(* authorizer (crates/anemo-tower/src/auth).  call(): the authorizer runs  *)
(* synchronously; on Ok the wrapped service is called with the request, on *)
(* Err(response) the wrapped service is not touched and the caller gets    *)
(* exactly that response.                                                  *)
(*                                                                         *)
(* Two artefacts are emitted for replay into the real layer:               *)
(*  - the allow-list decision table (every subset of 3 identities x every  *)
(*    sender incl. "absent" and an unlisted fourth identity);              *)
(*  - behaviours of concurrent requests through clones with a scripted     *)
(*    authorizer whose refusals carry distinctive responses.               *)
(***************************************************************************)
EXTENDS Naturals, Sequences, FiniteSets, TLC, Json

Ids == {1, 2, 3}
Absent == 0
Stranger == 4

AllowListVerdict(allow, sender) ==
  IF sender = Absent THEN "InternalServerError"
  ELSE IF sender \in allow THEN "pass"
  ELSE "NotFound"

AllowRows == {[allow |-> allow, sender |-> s, verdict |-> AllowListVerdict(allow, s)] :
                allow \in SUBSET Ids, s \in Ids \cup {Absent, Stranger}}

ASSUME PrintT(<<"TABLE", "allowlist", ToJson(AllowRows)>>)

(* Layers compose: with two authorization layers stacked (outer around inner around the     *)
(* service) each layer gates on its own authorizer alone.  The service is invoked iff both   *)
(* accept; the response is the first refusing layer's.  Whatever else the request carries    *)
(* (the connection's origin and the direction, which every inbound request has attached)     *)
(* plays no part.                                                                            *)
StackVerdict(outer, inner, sender) ==
  LET o == AllowListVerdict(outer, sender) IN
  IF o # "pass" THEN o ELSE AllowListVerdict(inner, sender)
Extras == {"none", "origin-in", "origin-out", "direction-in", "direction-out", "origin-out+direction-out"}
StackRows == {[outer |-> o, inner |-> i, sender |-> s, extra |-> x, verdict |-> StackVerdict(o, i, s)] :
                o \in {{1}, {1, 2}, {1, 2, 3}}, i \in {{}, {2}, {1, 2}}, s \in {1, 2, 3, Absent}, x \in Extras}
ExtraRows == {[allow |-> a, sender |-> s, extra |-> x, verdict |-> AllowListVerdict(a, s)] :
                a \in {{}, {1}, {1, 2}}, s \in {1, 2, Absent, Stranger}, x \in Extras}
ASSUME \A r \in StackRows : (r.verdict = "pass") <=> (r.sender \in r.outer /\ r.sender \in r.inner)
(* Allow-lists of every size up to 20, handed over in ascending, descending and scrambled     *)
(* order: the list is a set, its size and order play no part.  Identities are 1..n; the       *)
(* stranger is n + 1.                                                                          *)
SizeRows == {[n |-> n, order |-> o, sender |-> s, verdict |-> AllowListVerdict(1..n, s)] :
               n \in 0..20, o \in {"asc", "desc", "scrambled"}, s \in 0..21}
               \* senders beyond n are strangers; 0 is "no sender"
ASSUME \A r \in SizeRows : (r.verdict = "pass") <=> (r.sender >= 1 /\ r.sender <= r.n)
ASSUME PrintT(<<"TABLE", "auth_sizes", ToJson(SizeRows)>>)
ASSUME PrintT(<<"TABLE", "auth_stack", ToJson(StackRows)>>)
ASSUME PrintT(<<"TABLE", "auth_extra", ToJson(ExtraRows)>>)

CONSTANTS
  Reqs,       \* request ids
  Depth

VARIABLES
  verdict,    \* verdict[r]: scripted verdict "ok" | "deny" chosen when r is called
  st,         \* st[r]: "new" | "inside" (wrapped service invoked, pending) | "done" | "refused"
  invoked,    \* set of requests the wrapped service was invoked for
  hist

vars == <<verdict, st, invoked, hist>>

Init == /\ verdict = [r \in Reqs |-> "none"] /\ st = [r \in Reqs |-> "new"] /\ invoked = {} /\ hist = <<>>

Log(act, r, arg) == hist' = Append(hist, [act |-> act, r |-> r, arg |-> arg,
                                         post |-> [st |-> st', invoked |-> invoked']])

Call(r, v) ==
  /\ st[r] = "new"
  /\ verdict' = [verdict EXCEPT ![r] = v]
  /\ IF v = "ok"
     THEN /\ st' = [st EXCEPT ![r] = "inside"] /\ invoked' = invoked \cup {r}
     ELSE /\ st' = [st EXCEPT ![r] = "refused"] /\ UNCHANGED invoked
  /\ Log("call", r, v)

Finish(r) ==
  /\ st[r] = "inside"
  /\ st' = [st EXCEPT ![r] = "done"]
  /\ UNCHANGED <<verdict, invoked>>
  /\ Log("finish", r, "-")

Next == \E r \in Reqs : Finish(r) \/ \E v \in {"ok", "deny"} : Call(r, v)
Spec == Init /\ [][Next]_vars

(* C20: the wrapped service is invoked for a request iff the authorizer accepted it *)
Iff == \A r \in Reqs : (r \in invoked) <=> (verdict[r] = "ok")
RefusedNeverInside == \A r \in Reqs : verdict[r] = "deny" => st[r] = "refused"

Terminal == \A r \in Reqs : st[r] \in {"done", "refused"}
Emit == (Depth > 0 /\ (Len(hist) = Depth \/ Terminal)) => PrintT(<<"REPLAY", ToJson(hist)>>)
DepthBound == Depth = 0 \/ Len(hist) <= Depth
View == <<verdict, st, invoked>>
=============================================================================
