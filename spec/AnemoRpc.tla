------------------------------ MODULE AnemoRpc ------------------------------
(***************************************************************************)
(* One connection's RPC streams (crates/anemo/src/network/peer.rs do_rpc,  *)
(* request_handler.rs BiStreamRequestHandler, connection.rs SendStream):   *)
(* one bidirectional QUIC stream per call.  The caller opens a stream      *)
(* (waiting for stream credit), writes the request, finishes its send      *)
(* side and reads the response.  Dropping the call at any point resets     *)
(* the caller's send side (SendStream's Drop) and stops its receive side   *)
(* (quinn's RecvStream Drop).  The callee reads the request; only a        *)
(* complete request is handed to the service, exactly once; while the      *)
(* handler runs the callee watches for the stop of its send side and       *)
(* drops the handler when it comes.  The peer returns stream credit when   *)
(* both directions of a stream are closed on its side.                     *)
(***************************************************************************)
EXTENDS Naturals, FiniteSets, TLC

CONSTANTS Calls, Credit, MayLose,    \* MayLose: the connection may be lost
          Hangs,                    \* calls whose handler never finishes by itself
          Hostile                   \* streams driven by a hostile peer: may carry garbage, stall, reset, stop

VARIABLES
  cs,        \* caller stage: "idle" | "waiting" | "open" | "sent" | "finished" | "ok" | "err" | "abandoned"
  ss,        \* callee stage: "none" | "reading" | "handling" | "responded" | "refused" | "cancelled"
  reset,     \* reset[q]: the caller reset its send side (request incomplete)
  stop,      \* stop[q]: the caller stopped its receive side (no longer wants the response)
  credit,    \* streams the caller may still open
  returned,  \* streams whose credit the callee gave back
  invoked,   \* invoked[q]: how often the service was called for q
  lost,      \* the connection is gone
  bad        \* bad[q]: what was written on q is not a well-formed request

vars == <<cs, ss, reset, stop, credit, returned, invoked, lost, bad>>

Init ==
  /\ cs = [q \in Calls |-> "idle"] /\ ss = [q \in Calls |-> "none"]
  /\ reset = [q \in Calls |-> FALSE] /\ stop = [q \in Calls |-> FALSE]
  /\ credit = Credit /\ returned = {} /\ invoked = [q \in Calls |-> 0] /\ lost = FALSE
  /\ bad = [q \in Calls |-> FALSE]

Live == ~lost

Issue(q) == Live /\ cs[q] = "idle" /\ cs' = [cs EXCEPT ![q] = "waiting"]
            /\ UNCHANGED <<ss, reset, stop, credit, returned, invoked, lost, bad>>

OpenBi(q) == /\ Live /\ cs[q] = "waiting" /\ credit > 0
             /\ cs' = [cs EXCEPT ![q] = "open"] /\ credit' = credit - 1
             /\ UNCHANGED <<ss, reset, stop, returned, invoked, lost, bad>>

WritePart(q) == /\ Live /\ cs[q] = "open" /\ cs' = [cs EXCEPT ![q] = "sent"]
                /\ UNCHANGED <<ss, reset, stop, credit, returned, invoked, lost, bad>>

(* a hostile peer writes bytes that are not a request (bad preamble, absurd length prefix, *)
(* invalid header, truncated message then finish, ...)                                    *)
Garbage(q) == /\ Live /\ q \in Hostile /\ cs[q] \in {"open", "sent"} /\ ~bad[q]
              /\ bad' = [bad EXCEPT ![q] = TRUE] /\ cs' = [cs EXCEPT ![q] = "sent"]
              /\ UNCHANGED <<ss, reset, stop, credit, returned, invoked, lost>>

Finish(q) == /\ Live /\ cs[q] = "sent" /\ cs' = [cs EXCEPT ![q] = "finished"]
             /\ UNCHANGED <<ss, reset, stop, credit, returned, invoked, lost, bad>>

(* the caller drops the call: before, while or after the request is transmitted *)
Abandon(q) ==
  /\ cs[q] \in {"waiting", "open", "sent", "finished"}
  /\ cs' = [cs EXCEPT ![q] = "abandoned"]
  /\ reset' = [reset EXCEPT ![q] = cs[q] \in {"open", "sent"}]
  /\ stop' = [stop EXCEPT ![q] = cs[q] \in {"open", "sent", "finished"}]
  /\ UNCHANGED <<ss, credit, returned, invoked, lost, bad>>

(* the callee sees the stream once something was sent on it *)
Accept(q) == /\ Live /\ ss[q] = "none" /\ (cs[q] \in {"sent", "finished"} \/ (cs[q] = "abandoned" /\ (reset[q] \/ stop[q]) ))
             /\ ss' = [ss EXCEPT ![q] = "reading"]
             /\ UNCHANGED <<cs, reset, stop, credit, returned, invoked, lost, bad>>

(* a complete request reaches the service, once *)
Invoke(q) == /\ Live /\ ss[q] = "reading" /\ ~reset[q] /\ ~bad[q]
             /\ cs[q] \in {"finished", "ok", "err"} \/ (cs[q] = "abandoned" /\ ~reset[q] /\ stop[q])
             /\ ss' = [ss EXCEPT ![q] = "handling"]
             /\ invoked' = [invoked EXCEPT ![q] = @ + 1]
             /\ UNCHANGED <<cs, reset, stop, credit, returned, lost, bad>>

(* an incomplete (reset) request is refused without reaching the service *)
Refuse(q) == /\ Live /\ ss[q] = "reading" /\ (reset[q] \/ bad[q])
             /\ ss' = [ss EXCEPT ![q] = "refused"]
             /\ UNCHANGED <<cs, reset, stop, credit, returned, invoked, lost, bad>>

(* the callee notices the stop of its send side and drops the handler *)
StopSeen(q) == /\ Live /\ ss[q] = "handling" /\ stop[q]
               /\ ss' = [ss EXCEPT ![q] = "cancelled"]
               /\ UNCHANGED <<cs, reset, stop, credit, returned, invoked, lost, bad>>

Respond(q) == /\ Live /\ ss[q] = "handling" /\ q \notin Hangs
              /\ ss' = [ss EXCEPT ![q] = "responded"]
              /\ UNCHANGED <<cs, reset, stop, credit, returned, invoked, lost, bad>>

CallerGets(q) == /\ Live /\ cs[q] = "finished" /\ ss[q] = "responded"
                 /\ cs' = [cs EXCEPT ![q] = "ok"]
                 /\ UNCHANGED <<ss, reset, stop, credit, returned, invoked, lost, bad>>

CallerFails(q) == /\ cs[q] \in {"waiting", "open", "sent", "finished"} /\ (lost \/ ss[q] \in {"refused", "cancelled"})
                  /\ cs' = [cs EXCEPT ![q] = "err"]
                  /\ UNCHANGED <<ss, reset, stop, credit, returned, invoked, lost, bad>>

(* both directions of the stream are done on the callee: the credit goes back *)
ReturnCredit(q) ==
  /\ Live /\ q \notin returned
  /\ ss[q] \in {"responded", "refused", "cancelled"}
  /\ cs[q] \in {"ok", "err", "abandoned"}
  /\ returned' = returned \cup {q} /\ credit' = credit + 1
  /\ UNCHANGED <<cs, ss, reset, stop, invoked, lost, bad>>

(* a stream that was opened but never carried data is still reset on drop *)
ReturnSilent(q) ==
  /\ Live /\ q \notin returned /\ ss[q] = "none" /\ cs[q] = "abandoned" /\ (reset[q] \/ stop[q])
  /\ FALSE    \* (covered by Accept + Refuse: the reset makes the stream visible)
  /\ UNCHANGED vars

Lose == MayLose /\ ~lost /\ lost' = TRUE
        /\ ss' = [q \in Calls |-> IF ss[q] = "handling" THEN "cancelled" ELSE ss[q]]
        /\ UNCHANGED <<cs, reset, stop, credit, returned, invoked, bad>>

Next == Lose \/ \E q \in Calls :
          \/ Issue(q) \/ OpenBi(q) \/ WritePart(q) \/ Garbage(q) \/ Finish(q) \/ Abandon(q) \/ Accept(q) \/ Invoke(q)
          \/ Refuse(q) \/ StopSeen(q) \/ Respond(q) \/ CallerGets(q) \/ CallerFails(q) \/ ReturnCredit(q)
Spec == Init /\ [][Next]_vars

-----------------------------------------------------------------------------
AtMostOnce == \A q \in Calls : invoked[q] <= 1
OnlyCompleteRequests == \A q \in Calls : invoked[q] = 1 => ~reset[q] /\ ~bad[q]
OkMeansHandled == \A q \in Calls : cs[q] = "ok" => invoked[q] = 1 /\ ss[q] = "responded"
Quiescent == ~ENABLED Next
(* C12 at quiescence: no handler of an abandoned call is still running, all credit is back *)
NoOrphanHandler == Quiescent => \A q \in Calls : ~(cs[q] = "abandoned" /\ ss[q] = "handling")
NoLeak == (Quiescent /\ ~lost) =>
            credit = Credit - Cardinality({q \in Calls : q \in Hangs /\ ss[q] = "handling" /\ cs[q] = "finished"})
NoStuckCaller == Quiescent => \A q \in Calls :
                    cs[q] \in {"idle", "ok", "err", "abandoned"} \/ (q \in Hangs /\ ss[q] = "handling")
                    \/ (cs[q] = "waiting" /\ credit = 0)
(* C06: garbage never reaches the service, and whatever the hostile streams do, a well-formed   *)
(* call that got a stream and whose handler answers completes                                  *)
GarbageNeverInvoked == \A q \in Calls : bad[q] => invoked[q] = 0
CreditBound == credit <= Credit /\ credit >= 0
Invariants == GarbageNeverInvoked /\ AtMostOnce /\ OnlyCompleteRequests /\ OkMeansHandled /\ NoOrphanHandler /\ NoLeak
              /\ NoStuckCaller /\ CreditBound
-----------------------------------------------------------------------------
(* Liveness (C02 "yields its own response or an error", C12 "dropped       *)
(* promptly ... never exhausts stream capacity", C06 "keep succeeding").   *)
(* Whether a call is issued, abandoned, the connection lost or what a       *)
(* hostile stream does is up to the environment; every step of an honest    *)
(* caller, of the callee and of the transport is weakly fair.               *)
Honest == Calls \ Hostile
Fairness ==
  /\ \A q \in Honest : WF_vars(OpenBi(q)) /\ WF_vars(WritePart(q)) /\ WF_vars(Finish(q))
  /\ \A q \in Calls :
        /\ WF_vars(Accept(q)) /\ WF_vars(Invoke(q)) /\ WF_vars(Refuse(q)) /\ WF_vars(StopSeen(q))
        /\ WF_vars(Respond(q)) /\ WF_vars(CallerGets(q)) /\ WF_vars(CallerFails(q))
        /\ WF_vars(ReturnCredit(q))
FairSpec == Spec /\ Fairness

Over(q) == cs[q] \in {"ok", "err", "abandoned"}
HeldByHang == \E h \in Hangs : ss[h] = "handling" /\ cs[h] = "finished"
StalledHostile == \E h \in Hostile : cs[h] \in {"open", "sent"}
(* a call that got its stream ends - with its response or an error - unless its own handler is *)
(* one of those that never answer (and nobody abandons it)                                      *)
OpenCallEnds == \A q \in Honest : (cs[q] = "open") ~> (Over(q) \/ (q \in Hangs /\ ss[q] = "handling"))
(* a call waiting for a stream gets one unless streams are held by hanging handlers or by      *)
(* hostile streams that never finish                                                           *)
WaitingCallEnds == \A q \in Honest : (cs[q] = "waiting") ~> (Over(q) \/ HeldByHang \/ StalledHostile
                                                               \/ (q \in Hangs /\ ss[q] = "handling"))
(* the handler of an abandoned call does not keep running *)
AbandonedHandlerDropped == \A q \in Calls : (cs[q] = "abandoned" /\ ss[q] = "handling") ~> (ss[q] # "handling")
(* the stream of a call that is over and was seen by the callee goes back to the caller's budget *)
CreditComesBack == \A q \in Calls :
   ((cs[q] \in {"ok", "err"} /\ ss[q] \in {"responded", "refused", "cancelled"})
      \/ (cs[q] = "abandoned" /\ (reset[q] \/ stop[q]))) ~> (q \in returned \/ lost)
=============================================================================
