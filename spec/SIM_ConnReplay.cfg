SPECIFICATION SpecR
CONSTANTS
  NoLimit = NoLimit
  Nodes = {1, 2}
  Pairs <- AllPairs
  MaxAtt = 3
  MaxDisc = 1
  MaxSubs = 1
  Sequential = FALSE
  Abandons = TRUE
  Timeouts = FALSE
  Limits <- NoLimits
  Affs <- NoAffs
  Depth = 60
INVARIANT Invariants
INVARIANT Emit
CONSTRAINT DepthBound
CHECK_DEADLOCK FALSE
