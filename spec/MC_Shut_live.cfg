SPECIFICATION FairSpec
CONSTANTS
  Handlers = {1, 2, 3}
  Teardown = TRUE
PROPERTY ShutdownCompletes
PROPERTY TeardownComesToRest
PROPERTY ShutdownComesToRest
CHECK_DEADLOCK FALSE
