SPECIFICATION Spec
CONSTANTS
  NoLimit = NoLimit
  Nodes = {1, 2}
  Pairs <- AllPairs
  MaxAtt = 3
  MaxDisc = 1
  MaxSubs = 1
  Sequential = FALSE
  Abandons = FALSE
  Timeouts = TRUE
  Limits <- NoLimits
  Affs <- NoAffs
INVARIANT Invariants
INVARIANT MutualAtQuiescence
INVARIANT DialerLearns
PROPERTY StaleExitHarmless
CHECK_DEADLOCK FALSE
