--------------------------- MODULE AnemoRpcTrace ---------------------------
(***************************************************************************)
(* Trace validation of the RPC path (crates/anemo/src/network/peer.rs,     *)
(* request_handler.rs, wire.rs, middleware/timeout): what callers sent,    *)
(* what handlers were given, what they answered and what callers got, tied *)
(* together by a nonce carried in every request.                           *)
(*                                                                         *)
(*  C02  a handler is invoked at most once per request, with exactly the   *)
(*       request sent; a successful call returns exactly the response the  *)
(*       handler produced for that request (or a middleware response)      *)
(*  C01  the identities a handler / a caller see are the authenticated     *)
(*       ones of the connection, whatever the message carries              *)
(*  C12  an abandoned call's handler is dropped promptly; later calls work *)
(*  C15  a frame over a side's limit is refused, anything up to the limit  *)
(*       is delivered; only that call fails                                *)
(*  C11  deadline = min(local default, timeout header); garbage = absent   *)
(*  C06  no call ever hangs; calls that must succeed do                    *)
(***************************************************************************)
EXTENDS Naturals, Integers, Sequences, FiniteSets, TLC, Json, IOUtils

Rec == ndJsonDeserialize(IOEnv.TRACE)

VARIABLES
  l, now,
  ncfg,      \* ncfg[n]: [maxf, inDef, outDef]
  calls,     \* calls[q]: the request as issued
  started,   \* started[q]: [t, inT]: the handler invocation
  ended,     \* ended[q]: the response the handler produced
  gone,      \* gone[q]: when the handler future was dropped
  abandoned, \* abandoned[q]: when the caller dropped the call
  stalled,   \* the driver stalled the runtime (jumped the clock) in this run: cut-offs may be late
  result,    \* set of nonces whose caller got a result
  faulty,    \* are datagram faults being injected
  pendIn,    \* pendIn[route]: inbound deadline chosen by the timeout layer for the request with that route (routes are unique per call but for a few odd ones)
  lastCall   \* nonce of the most recent obs.rpc_call (its outbound tmo.set follows at once)

vars == <<l, now, ncfg, calls, started, ended, gone, abandoned, result, faulty, pendIn, lastCall, stalled>>

Has(r, f) == f \in DOMAIN r
Get(r, f, d) == IF Has(r, f) THEN r[f] ELSE d
With(f, x, v) == [y \in DOMAIN f \cup {x} |-> IF y = x THEN v ELSE f[y]]
Cur == Rec[l]
N == Cur.node
Empty == <<>>
None == -1      \* "no limit configured" (0 is a limit: nothing fits)
NoT == 0 - 9           \* "no deadline"
Min2(a, b) == IF a < b THEN a ELSE b
Abs(a) == IF a < 0 THEN 0 - a ELSE a
CancelBound == 250     \* ms, fault-free runs with 1 ms links

Init ==
  /\ l = 1 /\ now = 0 /\ ncfg = Empty /\ calls = Empty /\ started = Empty /\ ended = Empty
  /\ gone = Empty /\ abandoned = Empty /\ result = {} /\ faulty = FALSE /\ pendIn = Empty /\ lastCall = 0 /\ stalled = FALSE

Step(e) == l <= Len(Rec) /\ Cur.ev = e /\ l' = l + 1 /\ now' = Cur.t

TrReset ==
  /\ Step("reset")
  /\ ncfg' = Empty /\ calls' = Empty /\ started' = Empty /\ ended' = Empty /\ gone' = Empty
  /\ abandoned' = Empty /\ result' = {} /\ faulty' = FALSE /\ pendIn' = Empty /\ lastCall' = 0 /\ stalled' = FALSE

TrCfg ==
  /\ Step("obs.rpc_cfg")
  /\ ncfg' = With(ncfg, N, [maxf |-> Get(Cur, "max_frame", None),
                             inDef |-> IF Has(Cur, "in_default_ms") THEN Cur.in_default_ms * 1000 ELSE NoT,
                             outDef |-> IF Has(Cur, "out_default_ms") THEN Cur.out_default_ms * 1000 ELSE NoT,
                             \* mesh: every pair is connected once, the smaller node index dialed
                             mesh |-> Has(Cur, "mesh") /\ Cur.mesh])
  /\ UNCHANGED <<calls, started, ended, gone, abandoned, result, faulty, pendIn, lastCall, stalled>>

TrFault ==
  /\ Step("obs.fault")
  /\ faulty' = ~Has(Cur, "what")          \* "what": healed
  /\ UNCHANGED <<ncfg, calls, started, ended, gone, abandoned, result, pendIn, lastCall, stalled>>

-----------------------------------------------------------------------------
(* C15: the frame limits of both ends apply to both directions *)
Lim(n) == IF n \in DOMAIN ncfg THEN ncfg[n].maxf ELSE None
Fits(size, n) == IF Lim(n) = None THEN TRUE ELSE size <= Lim(n)
ReqFits(c) == /\ Fits(c.hsize, c.from) /\ Fits(c.hsize, c.to) /\ Fits(c.len, c.from) /\ Fits(c.len, c.to)
RespFits(c, e) == /\ Fits(e.hsize, c.from) /\ Fits(e.hsize, c.to) /\ Fits(e.len, c.from) /\ Fits(e.len, c.to)

(* C11: the timeout header as a value in microseconds (0: absent / unparsable) *)
HdrVal(c) ==
  IF ~Has(c, "thdr") THEN NoT
  ELSE CASE c.thdr = "200000000" -> 200000
         [] c.thdr = "700000000" -> 700000
         [] c.thdr = "5000000000" -> 5000000
         [] c.thdr = "20000000000" -> 20000000
         [] c.thdr = "120000000000" -> 120000000
         [] c.thdr = "0" -> 0                          \* a zero deadline: expires at once
         [] c.thdr = "18446744073709551615" -> 2000000000
         [] OTHER -> NoT                               \* garbage, overflowing: counts as absent
Chosen(default, hdr) ==
  CASE default = NoT /\ hdr = NoT -> NoT
    [] default = NoT -> hdr
    [] hdr = NoT -> default
    [] OTHER -> Min2(default, hdr)
Def(n, which) == IF n \in DOMAIN ncfg THEN ncfg[n][which] ELSE NoT

TrCall ==
  /\ Step("obs.rpc_call")
  /\ Cur.nonce \notin DOMAIN calls
  /\ calls' = With(calls, Cur.nonce,
       [from |-> N, to |-> Cur.to, route |-> Cur.route, len |-> Cur.len, digest |-> Cur.digest,
        hdigest |-> Cur.hdigest, hsize |-> Get(Cur, "hsize", 0), t0 |-> Cur.t,
        delay |-> Get(Cur, "delay", 0) * 1000,
        outT |-> IF Has(Cur, "raw") THEN NoT ELSE -2] @@     \* raw: written by an adversary endpoint, no anemo client stack
       (IF Has(Cur, "timeout_hdr") THEN [thdr |-> Cur.timeout_hdr] ELSE <<>>))
  /\ lastCall' = Cur.nonce
  /\ UNCHANGED <<ncfg, started, ended, gone, abandoned, result, faulty, pendIn, stalled>>

(* the timeout layers log what they decided: it must be min(default, header) *)
TrTmoSet ==
  /\ Step("tmo.set")
  /\ IF Cur.dir = "outbound"
     THEN /\ lastCall \in DOMAIN calls /\ calls[lastCall].outT = -2
          \* the caller's deadline runs from the instant the RPC is issued: the timeout layer is the
          \* outermost one, whatever the application's own outbound middleware does afterwards
          /\ Cur.t = calls[lastCall].t0
          /\ LET c == calls[lastCall]
                 want == Chosen(Def(c.from, "outDef"), HdrVal(c))
             IN /\ Has(Cur, "chosen_us") = (want # NoT)
                /\ want # NoT => Cur.chosen_us = want
                /\ calls' = [calls EXCEPT ![lastCall].outT = want]
          /\ UNCHANGED pendIn
     ELSE /\ pendIn' = With(pendIn, Cur.route, IF Has(Cur, "chosen_us") THEN Cur.chosen_us ELSE NoT)
          /\ UNCHANGED calls
  /\ UNCHANGED <<ncfg, started, ended, gone, abandoned, result, faulty, lastCall, stalled>>

(* the handler is given exactly the request that was sent, once, with the  *)
(* connection's authenticated identity                                      *)
TrAppStart ==
  /\ Step("app.start")
  /\ Cur.nonce \in DOMAIN calls
  /\ Cur.nonce \notin DOMAIN started                       \* AtMostOnce
  /\ LET c == calls[Cur.nonce] IN
     /\ N = c.to
     /\ Cur.peer_seen = c.from                             \* ExtLocal
     /\ Cur.direction_seen = "Direction::Inbound"
     \* the origin a handler is shown is the origin of the connection the request came in on
     /\ (N \in DOMAIN ncfg /\ ncfg[N].mesh /\ Has(Cur, "origin_seen")) =>
           Cur.origin_seen = (IF c.from < c.to THEN "ConnectionOrigin(Direction::Inbound)"
                              ELSE "ConnectionOrigin(Direction::Outbound)")
     /\ Cur.route = c.route /\ Cur.len = c.len /\ Cur.digest = c.digest /\ Cur.hdigest = c.hdigest
     /\ ReqFits(c)                                         \* an oversized request is never delivered
     (* C12: a call the caller abandoned long ago is not handed to a handler any more *)
     /\ (Cur.nonce \in DOMAIN abandoned /\ ~faulty) => Cur.t <= abandoned[Cur.nonce] + CancelBound
     /\ Cur.route \in DOMAIN pendIn
     /\ pendIn[Cur.route] = Chosen(Def(c.to, "inDef"), HdrVal(c))
     /\ started' = With(started, Cur.nonce, [t |-> Cur.t, inT |-> pendIn[Cur.route]])
  /\ UNCHANGED pendIn          \* the last decision per route stays: odd routes ("", "/") are shared by calls
  /\ UNCHANGED <<ncfg, calls, ended, gone, abandoned, result, faulty, lastCall, stalled>>

TrAppEnd ==
  /\ Step("app.end")
  /\ Cur.nonce \in DOMAIN started /\ Cur.nonce \notin DOMAIN ended /\ Cur.nonce \notin DOMAIN gone
  /\ N = calls[Cur.nonce].to
  /\ ended' = With(ended, Cur.nonce, [status |-> Cur.status, len |-> Cur.len, digest |-> Cur.digest,
                                      hdigest |-> Cur.hdigest, hsize |-> Get(Cur, "hsize", 0), t |-> Cur.t])
  /\ UNCHANGED <<ncfg, calls, started, gone, abandoned, result, faulty, pendIn, lastCall, stalled>>

TrAppDrop ==
  /\ Step("app.drop")
  /\ Cur.nonce \in DOMAIN started /\ Cur.nonce \notin DOMAIN ended /\ Cur.nonce \notin DOMAIN gone
  /\ gone' = With(gone, Cur.nonce, Cur.t)
  /\ UNCHANGED <<ncfg, calls, started, ended, abandoned, result, faulty, pendIn, lastCall, stalled>>

TrAbandon ==
  /\ Step("obs.rpc_abandon")
  /\ Cur.nonce \in DOMAIN calls /\ Cur.nonce \notin result
  /\ abandoned' = With(abandoned, Cur.nonce, Cur.t)
  /\ UNCHANGED <<ncfg, calls, started, ended, gone, result, faulty, pendIn, lastCall, stalled>>

-----------------------------------------------------------------------------
Slack == 60000         \* us of scheduling / round-trip slack in fault-free timing rules
T(us) == us            \* trace times are ms; deadlines are us
NowUs == Cur.t * 1000

TimedOutIn(q) ==       \* the serving side cut the handler off at its deadline
  /\ q \in DOMAIN started /\ started[q].inT # NoT
  /\ q \notin DOMAIN ended
  /\ q \in DOMAIN gone
  /\ Abs(gone[q] * 1000 - (started[q].t * 1000 + started[q].inT)) <= Slack

TrResult ==
  /\ Step("obs.rpc_result")
  /\ Cur.nonce \in DOMAIN calls /\ Cur.nonce \notin result /\ Cur.nonce \notin DOMAIN abandoned
  /\ LET q == Cur.nonce
         c == calls[q]
     IN
     /\ Get(Cur, "err", "-") # "HANG"                                  \* never a hang
     (* every RPC made through a network passes the outbound timeout layer (C11: the configured *)
     (* defaults take effect on every RPC)                                                       *)
     /\ c.outT # -2 \/ Get(Cur, "notconn", FALSE)
     /\ Get(Cur, "must_succeed", FALSE) => Cur.ok
     /\ IF Cur.ok
        THEN /\ ReqFits(c)
             /\ Has(Cur, "peer_seen") => Cur.peer_seen = c.to           \* ExtLocal on the response
             /\ IF q \in DOMAIN ended /\ Cur.status # 408
                THEN /\ Cur.status = ended[q].status /\ Cur.len = ended[q].len      \* Pairing
                     /\ Cur.digest = ended[q].digest /\ Cur.hdigest = ended[q].hdigest
                     /\ Get(Cur, "resp_nonce", q) = q
                     /\ RespFits(c, ended[q])
                     /\ c.outT \notin {NoT, -2} /\ ~faulty => NowUs <= c.t0 * 1000 + c.outT + Slack
                ELSE /\ Cur.status = 408 /\ Cur.len = 0                              \* RequestTimeout
                     /\ \/ TimedOutIn(q)
                        \* the runtime stalled across the deadline: the cut-off is late, not early
                        \/ /\ stalled /\ q \in DOMAIN started /\ started[q].inT # NoT /\ q \in DOMAIN gone
                           /\ gone[q] * 1000 >= started[q].t * 1000 + started[q].inT - Slack
                     (* C11: a handler needing less than the deadline is answered normally, however late *)
                     (* the serving task gets to run                                                    *)
                     /\ (~faulty /\ q \in DOMAIN started /\ started[q].inT # NoT) => c.delay + Slack >= started[q].inT
        ELSE \/ ~ReqFits(c)                                            \* refused for its size
             \/ q \in DOMAIN ended /\ ~RespFits(c, ended[q])
             \/ /\ c.outT \notin {NoT, -2}                                       \* the caller's own deadline
                /\ Abs(NowUs - (c.t0 * 1000 + c.outT)) <= Slack
             \/ faulty                                                 \* connection lost under faults
     (* C11 CannotExtend: a handler that needs longer than a deadline never gets its answer through *)
     /\ (Cur.ok /\ Cur.status # 408 /\ q \in DOMAIN started /\ started[q].inT # NoT /\ ~faulty)
           => c.delay <= started[q].inT + Slack
     /\ (Cur.ok /\ Cur.status # 408 /\ c.outT \notin {NoT, -2} /\ ~faulty) => c.delay <= c.outT + Slack
  /\ result' = result \cup {Cur.nonce}
  /\ UNCHANGED <<ncfg, calls, started, ended, gone, abandoned, faulty, pendIn, lastCall, stalled>>

(* the driver jumps the clock with calls in flight (a stalled or overloaded runtime) *)
TrStall ==
  /\ Step("obs.stall")
  /\ stalled' = TRUE
  /\ UNCHANGED <<ncfg, calls, started, ended, gone, abandoned, result, faulty, pendIn, lastCall>>

(* a line the driver replaced because it is a listed known finding: the call *)
(* counts as answered, nothing else is assumed                               *)
TrKnownFinding ==
  /\ Step("obs.known_finding")
  /\ result' = result \cup {Cur.nonce}
  /\ UNCHANGED <<ncfg, calls, started, ended, gone, abandoned, faulty, pendIn, lastCall, stalled>>

(* when everything has been quiet for a while: every call got its outcome,  *)
(* every started handler finished or was dropped                            *)
TrQuiet ==
  /\ Step("obs.rpc_quiet")
  /\ \A q \in DOMAIN calls : q \in result \/ q \in DOMAIN abandoned
  /\ \A q \in DOMAIN started : q \in DOMAIN ended \/ q \in DOMAIN gone
  /\ UNCHANGED <<ncfg, calls, started, ended, gone, abandoned, result, faulty, pendIn, lastCall, stalled>>

Other ==
  /\ l <= Len(Rec)
  /\ Cur.ev \notin {"reset", "obs.rpc_cfg", "obs.fault", "obs.rpc_call", "tmo.set", "app.start", "app.end",
                    "app.drop", "obs.rpc_abandon", "obs.rpc_result", "obs.rpc_quiet", "obs.known_finding", "obs.stall"}
  /\ l' = l + 1 /\ now' = Cur.t
  /\ UNCHANGED <<ncfg, calls, started, ended, gone, abandoned, result, faulty, pendIn, lastCall, stalled>>

Next == TrStall \/ TrReset \/ TrCfg \/ TrFault \/ TrCall \/ TrTmoSet \/ TrAppStart \/ TrAppEnd \/ TrAppDrop
        \/ TrAbandon \/ TrResult \/ TrKnownFinding \/ TrQuiet \/ Other
Spec == Init /\ [][Next]_vars

-----------------------------------------------------------------------------
(* C12 PromptCancel: an abandoned call's handler, if it started, is dropped  *)
(* (or had already finished) within a round trip                             *)
Late == {q \in DOMAIN abandoned :
           /\ q \in DOMAIN started /\ q \notin DOMAIN ended /\ q \notin DOMAIN gone
           /\ ~faulty /\ now > abandoned[q] + CancelBound}
(* ... and does not run to completion instead *)
RanOn == {q \in DOMAIN abandoned :
            q \in DOMAIN ended /\ ~faulty /\ ended[q].t > abandoned[q] + CancelBound}

Chk(name, ok, info) == ok \/ (PrintT(<<"INVARIANT-VIOLATED", name, l - 1, info>>) /\ FALSE)
TraceInvariants == Chk("PromptCancel", Late = {}, Late) /\ Chk("DroppedNotCompleted", RanOn = {}, RanOn)

TraceAccepted ==
  LET d == TLCGet("stats").diameter IN
  IF d - 1 = Len(Rec) THEN TRUE
  ELSE /\ PrintT(<<"TRACE-REJECTED at line", d, IF d <= Len(Rec) THEN Rec[d] ELSE "eof">>)
       /\ FALSE
=============================================================================
