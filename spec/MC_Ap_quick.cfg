SPECIFICATION Spec
CONSTANTS
  NoLimit <- MCNoLimit
  Own = 2
  PeerOfGid <- Gids4
  MaxSubs = 1
  Depth = 0
INVARIANT Invariants
INVARIANT StoredHasHandler
VIEW View
CHECK_DEADLOCK FALSE
PROPERTY RefinesApProof
