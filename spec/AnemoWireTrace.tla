--------------------------- MODULE AnemoWireTrace ---------------------------
(* impl -> spec: byte strings produced by the real encoders for random messages *)
(* are decoded by the specification's own decoder and must give the message.   *)
EXTENDS AnemoWire, Json, IOUtils

Rec == ndJsonDeserialize(IOEnv.TRACE)
VARIABLE l
Cur == Rec[l]

WantMap(r) == [k \in {r.entries[i][1] : i \in DOMAIN r.entries} |->
                 r.entries[CHOOSE i \in DOMAIN r.entries : r.entries[i][1] = k][2]]

Line ==
  /\ l <= Len(Rec) /\ l' = l + 1
  /\ IF Cur.kind = "req"
     THEN LET d == DecReq(Cur.bytes) IN
          d.ok /\ d.route = Cur.route /\ d.headers = WantMap(Cur) /\ d.body = Cur.body /\ d.version = 1
     ELSE LET d == DecResp(Cur.bytes) IN
          d.ok /\ d.status = Cur.status /\ d.headers = WantMap(Cur) /\ d.body = Cur.body
  \* the length of the whole message is exactly preamble + two frames: nothing else travels
  /\ LET hlen == FromBE(SubSeq(Cur.bytes, 9, 12)) IN
     Len(Cur.bytes) = 8 + 4 + hlen + 4 + Len(Cur.body)

Init == l = 1
Spec == Init /\ [][Line]_l

TraceAccepted ==
  LET d == TLCGet("stats").diameter IN
  IF d - 1 = Len(Rec) THEN TRUE
  ELSE /\ PrintT(<<"TRACE-REJECTED at line", d, IF d <= Len(Rec) THEN Rec[d] ELSE "eof">>)
       /\ FALSE
=============================================================================
