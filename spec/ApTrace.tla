------------------------------ MODULE ApTrace ------------------------------
(***************************************************************************)
(* Trace validation of the ActivePeers fragment of AnemoConn on histories  *)
(* produced by several OS threads hammering the real ActivePeers at once.  *)
(* The hook events were sorted by the sequence number each critical        *)
(* section took while holding the lock; they must form a behaviour of      *)
(* ApAdd / ApRemove / ApRemoveId, and what every subscribe() call returned *)
(* (snapshot) and later received (events) must be the snapshot and the     *)
(* event log at the subscription's own linearisation point.                *)
(***************************************************************************)
EXTENDS AnemoConn, Json, IOUtils, SequencesExt

Rec == ndJsonDeserialize(IOEnv.TRACE)
TraceNoLimit == -1

VARIABLES l, pendEv, subAt, subs, sidGid
tvars == <<l, pendEv, subAt, subs, sidGid>>
allvars == <<vars, tvars>>

Has(r, f) == f \in DOMAIN r
Get(r, f, d) == IF Has(r, f) THEN r[f] ELSE d
Cur == Rec[l]
SeqToSet(s) == {s[i] : i \in DOMAIN s}
Me == 0       \* the single active set of a run is filed under node 0

Fresh ==
  /\ active' = (Me :> <<>>) /\ evlog' = (Me :> <<>>) /\ closedL' = (Me :> {}) /\ handlers' = (Me :> {})
  /\ pendEv' = <<>> /\ subAt' = <<>> /\ subs' = <<>> /\ sidGid' = <<>>

Init ==
  /\ active = (Me :> <<>>) /\ evlog = (Me :> <<>>) /\ closedL = (Me :> {}) /\ handlers = (Me :> {})
  /\ known = <<>> /\ cfg = <<>> /\ pendingDial = <<>> /\ bgResult = <<>> /\ backoff = <<>> /\ pendingConn = <<>>
  /\ l = 1 /\ pendEv = <<>> /\ subAt = <<>> /\ subs = <<>> /\ sidGid = <<>>

Step(e) == l <= Len(Rec) /\ Cur.ev = e /\ l' = l + 1

TrReset == Step("reset") /\ Fresh /\ UNCHANGED dialVars

EvOf(r) == [kind |-> r.kind, peer |-> r.peer, reason |-> Get(r, "reason", "-")]

TrApEvent ==
  /\ Step("ap.event")
  /\ pendEv' = Append(pendEv, EvOf(Cur))
  /\ UNCHANGED <<vars, subAt, subs, sidGid>>

(* the tie-break is evaluated with the real identities' order: own is logged *)
AddResOwn(own, p, g, o) ==
  LET cur == active[Me] IN
  IF p \in DOMAIN cur
  THEN IF TieBreak(own, p, cur[p].origin, o)
       THEN [outcome |-> "replaced", evs |-> <<Lost(p, "Requested"), New(p)>>]
       ELSE [outcome |-> "rejected", evs |-> <<>>]
  ELSE [outcome |-> "new", evs |-> <<New(p)>>]

TrApAdd ==
  /\ Step("ap.add")
  /\ LET r == AddResOwn(Cur.own, Cur.peer, Cur.gid, Cur.origin) IN
     /\ Cur.outcome = r.outcome
     /\ pendEv = r.evs
     /\ IF r.outcome = "rejected"
        THEN UNCHANGED <<active, evlog>>
        ELSE /\ active' = [active EXCEPT ![Me] = With(@, Cur.peer, [gid |-> Cur.gid, origin |-> Cur.origin])]
             /\ evlog' = [evlog EXCEPT ![Me] = @ \o r.evs]
     /\ Cur.len = Cardinality(DOMAIN active'[Me])
  /\ sidGid' = With(sidGid, Cur.sid, Cur.gid)
  /\ pendEv' = <<>>
  /\ UNCHANGED <<closedL, handlers, dialVars, subAt, subs>>

TrApRemove ==
  /\ Step("ap.remove")
  /\ LET had == Cur.peer \in DOMAIN active[Me] IN
     /\ Has(Cur, "removed") = had
     /\ had => Cur.removed = active[Me][Cur.peer].gid
     /\ pendEv = (IF had THEN <<Lost(Cur.peer, Cur.reason)>> ELSE <<>>)
  /\ ApRemove(Me, Cur.peer, Cur.reason)
  /\ Cur.len = Cardinality(DOMAIN active'[Me])
  /\ pendEv' = <<>>
  /\ UNCHANGED <<dialVars, subAt, subs, sidGid>>

TrApRemoveId ==
  /\ Step("ap.remove_id")
  /\ LET g == IF Cur.sid \in DOMAIN sidGid THEN sidGid[Cur.sid] ELSE 0
         own == RemovesOwn(Me, Cur.peer, g)
     IN
     /\ Has(Cur, "removed") = own
     /\ own => Cur.removed = g
     /\ pendEv = (IF own THEN <<Lost(Cur.peer, Cur.reason)>> ELSE <<>>)
     /\ ApRemoveId(Me, Cur.peer, g, Cur.reason)
  /\ Cur.len = Cardinality(DOMAIN active'[Me])
  /\ pendEv' = <<>>
  /\ UNCHANGED <<dialVars, subAt, subs, sidGid>>

TrApSubscribe ==
  /\ Step("ap.subscribe")
  /\ pendEv = <<>>
  /\ SeqToSet(Cur.snapshot) = DOMAIN active[Me]
  /\ Len(Cur.snapshot) = Cardinality(DOMAIN active[Me])
  /\ subAt' = With(subAt, Cur.apseq, [snap |-> DOMAIN active[Me], pos |-> Len(evlog[Me])])
  /\ UNCHANGED <<vars, pendEv, subs, sidGid>>

(* what the subscribe() call returned is the listing at its own linearisation point *)
TrObsSubscribe ==
  /\ Step("obs.subscribe")
  /\ Cur.apseq \in DOMAIN subAt
  /\ SeqToSet(Cur.snapshot) = subAt[Cur.apseq].snap
  /\ Len(Cur.snapshot) = Cardinality(subAt[Cur.apseq].snap)
  /\ subs' = With(subs, Cur.sub, subAt[Cur.apseq].pos)
  /\ UNCHANGED <<vars, pendEv, subAt, sidGid>>

TrObsEvent ==
  /\ Step("obs.event")
  /\ Cur.sub \in DOMAIN subs
  /\ subs[Cur.sub] < Len(evlog[Me])
  /\ evlog[Me][subs[Cur.sub] + 1] = EvOf(Cur)
  /\ subs' = [subs EXCEPT ![Cur.sub] = @ + 1]
  /\ UNCHANGED <<vars, pendEv, subAt, sidGid>>

(* a drained subscriber has seen the whole log: snapshot + events = listing *)
TrSubEnd ==
  /\ Step("obs.sub_end")
  /\ subs[Cur.sub] = Len(evlog[Me])
  /\ UNCHANGED <<vars, pendEv, subAt, subs, sidGid>>

TrFinalPeers ==
  /\ Step("obs.final_peers")
  /\ Alternate /\ LogMatchesListing /\ DistinctConnections    \* whole-log checks once per run
  /\ SeqToSet(Cur.peers) = DOMAIN active[Me]
  /\ Len(Cur.peers) = Cardinality(DOMAIN active[Me])
  /\ UNCHANGED <<vars, pendEv, subAt, subs, sidGid>>

Next == TrReset \/ TrApEvent \/ TrApAdd \/ TrApRemove \/ TrApRemoveId \/ TrApSubscribe
        \/ TrObsSubscribe \/ TrObsEvent \/ TrSubEnd \/ TrFinalPeers
Spec == Init /\ [][Next]_allvars

Chk(name, ok) == ok \/ (PrintT(<<"INVARIANT-VIOLATED", name, l - 1, "">>) /\ FALSE)
TraceInvariants == Chk("Alternate", Alternate) /\ Chk("LogMatchesListing", LogMatchesListing)
                   /\ Chk("DistinctConnections", DistinctConnections)

TraceAccepted ==
  LET d == TLCGet("stats").diameter IN
  IF d - 1 = Len(Rec) THEN TRUE
  ELSE /\ PrintT(<<"TRACE-REJECTED at line", d, IF d <= Len(Rec) THEN Rec[d] ELSE "eof">>)
       /\ FALSE
=============================================================================
