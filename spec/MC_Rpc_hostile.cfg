SPECIFICATION Spec
CONSTANTS
  Calls = {1, 2, 3, 4}
  Credit = 3
  MayLose = FALSE
  Hangs = {}
  Hostile = {1, 2}
INVARIANT Invariants
CHECK_DEADLOCK FALSE
