--------------------------- MODULE InflightProofs ---------------------------
(* TLAPS proof of InflightProof: Spec => []Inv, for any Max, either wait mode, any schedule. *)
EXTENDS InflightProof, TLAPS

LEMMA InitInv == Init => Inv
  BY ConstAssump DEF Init, Inv, TypeOK, Bound, NoLeak, NoIdleWait

LEMMA NextInv == Inv /\ [Next]_vars => Inv'
<1> SUFFICES ASSUME Inv, [Next]_vars PROVE Inv'
  OBVIOUS
<1> USE ConstAssump DEF Inv, TypeOK, Bound, NoLeak, NoIdleWait, Release
<1>1. CASE ArriveEnter   BY <1>1 DEF ArriveEnter
<1>2. CASE ArriveRefuse  BY <1>2 DEF ArriveRefuse, vars
<1>3. CASE ArriveQueue   BY <1>3 DEF ArriveQueue
<1>4. CASE Poll          BY <1>4 DEF Poll
<1>5. CASE Leave         BY <1>5 DEF Leave
<1>6. CASE CancelQueued  BY <1>6 DEF CancelQueued
<1>7. CASE CancelGranted BY <1>7 DEF CancelGranted
<1>8. CASE UNCHANGED vars BY <1>8 DEF vars
<1> QED
  BY <1>1, <1>2, <1>3, <1>4, <1>5, <1>6, <1>7, <1>8 DEF Next

THEOREM Safety == Spec => []Inv
  BY InitInv, NextInv, PTL DEF Spec
=============================================================================
