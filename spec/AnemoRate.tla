----------------------------- MODULE AnemoRate -----------------------------
(***************************************************************************)
(* anemo-tower's RateLimit middleware (crates/anemo-tower/src/rate_limit.rs)*)
(* over governor's keyed GCRA limiter: per sender a "theoretical arrival   *)
(* time" tat; a request arriving at t is admitted iff t >= tat - (B-1)*T   *)
(* and then tat' = max(tat, t) + T; otherwise it is refused with the hint  *)
(* wait = tat - (B-1)*T - t > 0 (ReturnError) or waits that long (Block).  *)
(* Discrete time; every arrival pattern of a few requests over 2 keys.     *)
(* This is the quota as the property states it.  governor 0.6 deviates for *)
(* a key whose state has gone stale (one cell more at once): recorded as a  *)
(* known finding for C19, demonstrated by the harness' rate-stale-probe.    *)
(***************************************************************************)
EXTENDS Naturals, Integers, Sequences, FiniteSets, TLC, Json

CONSTANTS
  Keys,       \* sender identities
  T,          \* replenish period (ticks)
  B,          \* burst
  MaxTime,
  MaxArrivals,
  Fates,      \* what can become of an admitted request: "served" (the wrapped service answers) and/or
              \* "dropped" (its caller hangs up while the wrapped service is at it)
  Depth       \* > 0: emit behaviours whose arrivals all happen at time 0 (exact replay)

VARIABLES now, tat, log, hist
vars == <<now, tat, log, hist>>

Init == now = 0 /\ tat = [k \in Keys |-> 0] /\ log = <<>> /\ hist = <<>>

Earliest(k) == tat[k] - (B - 1) * T
Max2(a, b) == IF a > b THEN a ELSE b

Arrive(k) ==
  /\ Len(log) < MaxArrivals
  /\ IF now >= Earliest(k)
     THEN /\ tat' = [tat EXCEPT ![k] = Max2(@, now) + T]
          /\ log' = Append(log, [k |-> k, t |-> now, admit |-> TRUE, wait |-> 0])
     ELSE /\ UNCHANGED tat
          /\ log' = Append(log, [k |-> k, t |-> now, admit |-> FALSE, wait |-> Earliest(k) - now])
  (* what becomes of an admitted request afterwards is none of the limiter's business: a cell that *)
  (* was taken stays taken whether the request is answered or its caller hangs up half-way          *)
  /\ IF now >= Earliest(k)
     THEN \E f \in Fates : hist' = Append(hist, [k |-> k, admit |-> TRUE, fate |-> f])
     ELSE hist' = Append(hist, [k |-> k, admit |-> FALSE, fate |-> "refused"])
  /\ UNCHANGED now

Tick == now < MaxTime /\ now' = now + 1 /\ UNCHANGED <<tat, log, hist>>

Next == Tick \/ \E k \in Keys : Arrive(k)
Spec == Init /\ [][Next]_vars

Admitted(k, a, b) == Cardinality({i \in DOMAIN log : log[i].k = k /\ log[i].admit /\ a <= log[i].t /\ log[i].t <= b})

(* C19: within any window the admitted requests of a key never exceed burst + replenishment *)
WindowBound ==
  \A k \in Keys : \A a \in 0..now : \A b \in a..now :
     Admitted(k, a, b) <= B + ((b - a) \div T)

(* a refusal carries a positive hint no longer than the time to replenish everything *)
Refusal == \A i \in DOMAIN log : ~log[i].admit => (log[i].wait > 0 /\ log[i].wait <= B * T)

(* the hint is exact: one tick before it a retry is still refused, at it the retry is admitted *)
HintExact ==
  \A i \in DOMAIN log :
     (~log[i].admit /\ i = Len(log)) => (now + log[i].wait >= Earliest(log[i].k))

(* quotas are per key: a key's verdicts do not depend on the other keys' arrivals *)
RECURSIVE Project(_, _)
Project(s, k) == IF s = <<>> THEN <<>>
                 ELSE IF Head(s).k = k THEN <<Head(s)>> \o Project(Tail(s), k) ELSE Project(Tail(s), k)
RECURSIVE Solo(_, _)
Solo(s, tt) ==   \* verdicts the key would get alone, given its arrival times
  IF s = <<>> THEN <<>>
  ELSE LET ok == Head(s).t >= tt - (B - 1) * T IN
       <<ok>> \o Solo(Tail(s), IF ok THEN Max2(tt, Head(s).t) + T ELSE tt)
PerKey == \A k \in Keys :
            LET p == Project(log, k) IN [i \in DOMAIN p |-> p[i].admit] = Solo(p, 0)

Invariants == WindowBound /\ Refusal /\ HintExact /\ PerKey

(* RateProof.tla proves the window bound for any period, burst and arrival pattern (TLAPS); *)
(* every key of this model, taken alone, behaves as RateProof's limiter does               *)
RP(k) == INSTANCE RateProof WITH Tau <- (B - 1) * T, tat <- tat[k], counting <- FALSE,
                                 wstart <- 0, acc <- 0, first <- TRUE
RefinesRateProof == RP(1)!Spec /\ RP(2)!Spec

Emit == (Depth > 0 /\ now = 0 /\ Len(hist) = Depth) => PrintT(<<"REPLAY", ToJson(hist)>>)
AtZero == Depth = 0 \/ (now = 0 /\ Len(hist) <= Depth)
=============================================================================
