--------------------------- MODULE InflightProof ---------------------------
(***************************************************************************)
(* The slot accounting of C18 proved for ANY maximum, any number of        *)
(* requests and any schedule (TLAPS), as a complement to TLC's bounded     *)
(* exploration of AnemoInflight.                                           *)
(*                                                                         *)
(* One peer (limits are per peer: AnemoInflight!PerPeer), requests         *)
(* abstracted to how many are at each stage:                               *)
(*   permits  free permits of the peer's semaphore                         *)
(*   r        requests inside the wrapped service                          *)
(*   g        requests that were handed a permit and wait to be polled     *)
(*   w        requests queued for a permit (Block mode)                    *)
(* with the actions of AnemoInflight: Arrive (enter / refuse / queue),     *)
(* Poll, Leave, Cancel at each stage; a released permit goes to the        *)
(* longest waiter if there is one (tokio's fair semaphore).                *)
(*                                                                         *)
(* THEOREM Spec => []Inv (proved in InflightProofs.tla):                   *)
(*   r <= Max; permits + r + g = Max (nothing leaks, nothing is minted);   *)
(*   nobody is queued while a permit is free.                              *)
(***************************************************************************)
EXTENDS Integers

CONSTANTS Max, Block     \* Block: TRUE = WaitMode::Block, FALSE = WaitMode::ReturnError
ASSUME ConstAssump == Max \in Nat /\ Block \in BOOLEAN

VARIABLES permits, r, g, w
vars == <<permits, r, g, w>>

TypeOK == permits \in Nat /\ r \in Nat /\ g \in Nat /\ w \in Nat

Init == permits = Max /\ r = 0 /\ g = 0 /\ w = 0

(* one permit is given back: to the longest waiter, else to the pool *)
Release(r1, g1, w1) ==
  IF w1 > 0 THEN permits' = permits /\ r' = r1 /\ g' = g1 + 1 /\ w' = w1 - 1
            ELSE permits' = permits + 1 /\ r' = r1 /\ g' = g1 /\ w' = w1

ArriveEnter  == /\ permits > 0 /\ (~Block \/ w = 0)
                /\ permits' = permits - 1 /\ r' = r + 1 /\ UNCHANGED <<g, w>>
ArriveRefuse == ~Block /\ permits = 0 /\ UNCHANGED vars          \* TooManyRequests
ArriveQueue  == /\ Block /\ ~(permits > 0 /\ w = 0)
                /\ w' = w + 1 /\ UNCHANGED <<permits, r, g>>
Poll         == g > 0 /\ g' = g - 1 /\ r' = r + 1 /\ UNCHANGED <<permits, w>>
Leave        == r > 0 /\ Release(r - 1, g, w)                       \* Ok or Err, or dropped inside
CancelQueued == w > 0 /\ w' = w - 1 /\ UNCHANGED <<permits, r, g>>
CancelGranted == g > 0 /\ Release(r, g - 1, w)

Next == ArriveEnter \/ ArriveRefuse \/ ArriveQueue \/ Poll \/ Leave \/ CancelQueued \/ CancelGranted
Spec == Init /\ [][Next]_vars

-----------------------------------------------------------------------------
Bound      == r <= Max
NoLeak     == permits + r + g = Max
NoIdleWait == w > 0 => permits = 0
Inv == TypeOK /\ Bound /\ NoLeak /\ NoIdleWait
=============================================================================
