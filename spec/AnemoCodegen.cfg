
