SPECIFICATION Spec
CONSTANTS
  Reqs = {1, 2, 3, 4, 5}
  PeerOf <- PeerOfA
  Max = 0
  Mode = "ReturnError"
  Depth = 0
INVARIANT Invariants
PROPERTY PerPeer
VIEW View
CHECK_DEADLOCK FALSE
PROPERTY RefinesInflightProof
