SPECIFICATION Spec
CONSTANTS
  Reqs = {1, 2, 3}
  Depth = 6
INVARIANT Iff
INVARIANT Emit
CONSTRAINT DepthBound
CHECK_DEADLOCK FALSE
