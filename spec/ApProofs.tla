------------------------------ MODULE ApProofs ------------------------------
(* TLAPS proof of ApProof!Safety: Spec => []Inv, for any Peers, Gids, PeerOf. *)
(* Checked with: tlapm --threads 4 ApProofs.tla  (27 obligations, ~12 s)      *)
EXTENDS ApProof, TLAPS

LEMMA InitInv == Init => Inv
  BY ConstAssump DEF Init, Inv, TypeOK, Kinds, ListedIffLastNew, StoredIsOwnAndOpen

LEMMA NextInv == Inv /\ [Next]_vars => Inv'
<1> SUFFICES ASSUME Inv, [Next]_vars PROVE Inv'
  OBVIOUS
<1> USE ConstAssump DEF Inv, TypeOK, Kinds, ListedIffLastNew, StoredIsOwnAndOpen, Fresh
<1>1. ASSUME NEW g \in Gids, AddNew(g) PROVE Inv'
  BY <1>1 DEF AddNew
<1>2. ASSUME NEW g \in Gids, AddReplace(g) PROVE Inv'
  BY <1>2 DEF AddReplace
<1>3. ASSUME NEW g \in Gids, AddReject(g) PROVE Inv'
  BY <1>3 DEF AddReject
<1>4. ASSUME NEW g \in Gids, RemoveId(g) PROVE Inv'
  BY <1>4 DEF RemoveId, vars
<1>5. ASSUME NEW p \in Peers, Remove(p) PROVE Inv'
  BY <1>5 DEF Remove, vars
<1>6. CASE UNCHANGED vars
  BY <1>6 DEF vars
<1> QED
  BY <1>1, <1>2, <1>3, <1>4, <1>5, <1>6 DEF Next

THEOREM Safety == Spec => []Inv
  BY InitInv, NextInv, PTL DEF Spec
=============================================================================
