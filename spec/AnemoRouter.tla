---------------------------- MODULE AnemoRouter ----------------------------
(***************************************************************************)
(* anemo's Router (crates/anemo/src/routing/mod.rs over matchit 0.5) for   *)
(* the pattern language the property names: exact paths and wildcard tails *)
(* "/<prefix>/*rest" (which is what add_rpc_service registers for a        *)
(* service name).  A router is the sequence of its routes, each with the   *)
(* service it was registered with and the layers applied to it so far.     *)
(*   route(p, s)    adds p -> s, panics if p conflicts with a route        *)
(*   route_layer(L) wraps every route present now (not later ones) in L    *)
(*   merge(other)   re-registers other's routes with their layers          *)
(*   call(path)     exactly one route's service, through that route's      *)
(*                  layers outermost-first, or NotFound                    *)
(***************************************************************************)
EXTENDS Naturals, Sequences, FiniteSets, TLC, Json

CONSTANTS MaxOps

(* patterns: [kind |-> "exact", s |-> string] or [kind |-> "wild", s |-> prefix ending in "/"] *)
Ex(s) == [kind |-> "exact", s |-> s]
Wild(s) == [kind |-> "wild", s |-> s]
Patterns == {Ex("/a"), Ex("/b/c"), Ex("/svc/m"), Wild("/svc/"), Wild("/t/"), Ex("/")}
PatStr(p) == IF p.kind = "exact" THEN p.s ELSE p.s \o "*rest"

Paths == {"/a", "/a/", "/b/c", "/b", "/svc/m", "/svc/", "/svc", "/svc/x/y", "", "a", "//", "/t/", "/t/zz",
          "/svcx/m", "/", "/svc/*rest"}

(* string prefix test on the finite set of strings used here *)
StartsWith(s, pre) ==
  \E rest \in {"", "m", "x/y", "zz", "*rest"} : s = pre \o rest

Conflict(p, q) ==
  \/ p = q
  \/ p.kind = "wild" /\ q.kind = "wild" /\ p.s = q.s
  \/ p.kind = "wild" /\ q.kind = "exact" /\ StartsWith(q.s, p.s)
  \/ q.kind = "wild" /\ p.kind = "exact" /\ StartsWith(p.s, q.s)

(* two sub-routers that may be merged in *)
Sub1 == << [pat |-> Ex("/b/c"), svc |-> 101, layers |-> <<7>>] >>
Sub2 == << [pat |-> Wild("/t/"), svc |-> 102, layers |-> <<>>], [pat |-> Ex("/a"), svc |-> 103, layers |-> <<8, 9>>] >>
Subs == <<Sub1, Sub2>>

VARIABLES routes, panicked, ops
vars == <<routes, panicked, ops>>

Init == routes = <<>> /\ panicked = FALSE /\ ops = <<>>

Conflicts(p) == \E i \in DOMAIN routes : Conflict(p, routes[i].pat)

Route(p) ==
  /\ ~panicked /\ Len(ops) < MaxOps
  /\ LET svc == Len(ops) + 1 IN
     IF Conflicts(p)
     THEN panicked' = TRUE /\ UNCHANGED routes
     ELSE routes' = Append(routes, [pat |-> p, svc |-> svc, layers |-> <<>>]) /\ UNCHANGED panicked
  /\ ops' = Append(ops, [op |-> "route", pat |-> PatStr(p), wild |-> p.kind = "wild", prefix |-> p.s])

RouteLayer(L) ==
  /\ ~panicked /\ Len(ops) < MaxOps
  /\ routes' = [i \in DOMAIN routes |-> [routes[i] EXCEPT !.layers = Append(@, L)]]
  /\ ops' = Append(ops, [op |-> "layer", id |-> L])
  /\ UNCHANGED panicked

RECURSIVE MergeIn(_, _)
MergeIn(rs, other) ==     \* [routes, panicked]
  IF other = <<>> THEN [routes |-> rs, panicked |-> FALSE]
  ELSE IF \E i \in DOMAIN rs : Conflict(Head(other).pat, rs[i].pat)
       THEN [routes |-> rs, panicked |-> TRUE]
       ELSE MergeIn(Append(rs, Head(other)), Tail(other))

Merge(k) ==
  /\ ~panicked /\ Len(ops) < MaxOps
  /\ LET r == MergeIn(routes, Subs[k]) IN routes' = r.routes /\ panicked' = r.panicked
  /\ ops' = Append(ops, [op |-> "merge", sub |-> k])

(* a router grown from this one - a clone with one more route layer - merged back in: every    *)
(* route it holds is (under any other layering) a route of the receiver, so unless there are    *)
(* none the merge is a conflict like any other; it never quietly keeps one of the two versions  *)
MergeFork(L) ==
  /\ ~panicked /\ Len(ops) < MaxOps
  /\ LET fork == [i \in DOMAIN routes |-> [routes[i] EXCEPT !.layers = Append(@, L)]]
         r == MergeIn(routes, fork)
     IN routes' = r.routes /\ panicked' = r.panicked
  /\ ops' = Append(ops, [op |-> "mergefork", id |-> L])

Next == (\E p \in Patterns : Route(p)) \/ (\E L \in {1, 2} : RouteLayer(L)) \/ (\E k \in {1, 2} : Merge(k))
        \/ MergeFork(3)
Spec == Init /\ [][Next]_vars

Matches(p, path) == IF p.kind = "exact" THEN p.s = path ELSE StartsWith(path, p.s)
Matching(path) == {i \in DOMAIN routes : Matches(routes[i].pat, path)}

(* C16 ExactlyOne: no request path is matched by two routes *)
ExactlyOne == \A path \in Paths : Cardinality(Matching(path)) <= 1

Outcome(path) ==
  IF Matching(path) = {} THEN [svc |-> 0, layers |-> <<>>]       \* NotFound
  ELSE LET i == CHOOSE j \in Matching(path) : TRUE IN
       [svc |-> routes[i].svc,
        layers |-> [k \in 1..Len(routes[i].layers) |-> routes[i].layers[Len(routes[i].layers) + 1 - k]]]

Expected == [path \in Paths |-> Outcome(path)]

Emit == (Len(ops) = MaxOps \/ panicked) =>
          PrintT(<<"REPLAY", ToJson([ops |-> ops, panicked |-> panicked,
                                    expect |-> [p \in Paths |-> IF panicked THEN [svc |-> 0, layers |-> <<>>] ELSE Outcome(p)]])>>)
=============================================================================
