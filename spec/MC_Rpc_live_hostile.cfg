SPECIFICATION FairSpec
CONSTANTS
  Calls = {1, 2, 3}
  Credit = 2
  MayLose = FALSE
  Hangs = {}
  Hostile = {3}
PROPERTY OpenCallEnds
PROPERTY WaitingCallEnds
PROPERTY AbandonedHandlerDropped
PROPERTY CreditComesBack
CHECK_DEADLOCK FALSE
