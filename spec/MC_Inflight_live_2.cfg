SPECIFICATION FairSpec
CONSTANTS
  Reqs = {1, 2, 3, 4}
  PeerOf <- PeerOfA
  Max = 2
  Mode = "Block"
  Depth = 0
PROPERTY WaitersGetIn
PROPERTY EveryoneLeaves
PROPERTY CapacityRestored
VIEW View
CHECK_DEADLOCK FALSE
