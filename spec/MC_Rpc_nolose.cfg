SPECIFICATION Spec
CONSTANTS
  Calls = {1, 2, 3}
  Credit = 2
  MayLose = FALSE
  Hangs = {1, 2}
INVARIANT Invariants
CHECK_DEADLOCK FALSE
