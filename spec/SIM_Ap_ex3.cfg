SPECIFICATION Spec
CONSTANTS
  NoLimit <- MCNoLimit
  Own = 2
  PeerOfGid <- Gids4
  MaxSubs = 1
  Depth = 3
INVARIANT Invariants
INVARIANT Emit
CONSTRAINT DepthBound
CHECK_DEADLOCK FALSE
