-------------------------- MODULE AnemoConnTrace --------------------------
(***************************************************************************)
(* Trace validation for AnemoConn: every line of an ndjson trace recorded  *)
(* from the real code (hook events of crates/anemo built with              *)
(* --cfg bmwill_anemo_verif, plus the harness' API observations) must be   *)
(* explained by one action of the specification.  A line whose action is   *)
(* not enabled stops the search: the POSTCONDITION then reports the first  *)
(* unmatched line.  AnemoConn's invariants are evaluated in every state.   *)
(*                                                                         *)
(* Several runs are concatenated; a "reset" line re-initialises the state. *)
(***************************************************************************)
EXTENDS AnemoConn, Json, IOUtils, SequencesExt, FiniteSetsExt

Rec == ndJsonDeserialize(IOEnv.TRACE)

VARIABLES
  l,        \* next line to consume
  now,      \* time of the last consumed line (virtual ms)
  pendEv,   \* pendEv[n]: ap.event lines since the last operation on n's active set
  conns,    \* conns[g]: what is known about connection g (both ends)
  tasks,    \* tasks[id]: connecting tasks (dial_peer_task / handle_incoming_task)
  spawnQ,   \* spawnQ[n]: dial tasks spawned by n's manager that have not started yet
  nextTick, \* nextTick[n]: when the next connectivity check is due
  phase,    \* phase[n]: "down" | "starting" | "running" | "closing" | "done"
  subs,     \* subs[id]: [node, pos]: position of a subscriber in evlog[node]
  subPos,   \* subPos[n]: evlog position of the most recent ap.subscribe on n
  addrNode, \* addrNode[a]: the identity listening at address a
  lastAdd,  \* lastAdd[n]: [gid, outcome] of the most recent ap.add on n (0 if consumed)
  replies,  \* replies[n]: bag (sequence) of results sent to explicit connect calls
  closeT,   \* closeT[<<n, g>>]: when n closed / dropped connection g
  faultT,   \* time of the most recent fault-injection activity (-1: never)
  idle,     \* idle[n]: n's QUIC idle timeout (ms)
  ka,       \* ka[n]: n's keep-alive interval (0: none)
  runStart, \* line of the most recent reset
  lastSend, \* lastSend[<<n, g>>]: when n last opened a stream on connection g
  quietLen, \* quietLen[n]: length of evlog[n] at the last quiescence observation
  callListed, \* callListed[nonce]: was the callee listed when the RPC was issued
  pathOut,  \* pathOut[<<a, b>>]: when a last sent a datagram towards b (delivered or not)
  pathIn,   \* pathIn[<<a, b>>]: when a datagram from a was last let through to b
  closingH, \* closingH[n]: connection whose handler on n saw it end and has not removed it yet (0: none)
  beginT,   \* beginT[n]: when n's manager left its event loop to shut down
  shutIdle  \* shutIdle[n]: the configured shutdown_idle_timeout (ms)

tvars == <<l, now, pendEv, conns, tasks, spawnQ, nextTick, phase, subs, subPos, addrNode,
           lastAdd, replies, closeT, faultT, idle, ka, runStart, lastSend, quietLen, callListed, pathOut, pathIn, closingH, beginT, shutIdle>>
allvars == <<vars, tvars>>

TraceNoLimit == -1
Max2(a, b) == IF a > b THEN a ELSE b
Has(r, f) == f \in DOMAIN r
Get(r, f, d) == IF Has(r, f) THEN r[f] ELSE d
Slack == 50    \* ms of scheduling slack granted to timing rules
LossKey == 100000   \* pathOut[<<a + LossKey, b>>]: when a datagram from a to b was last reported lost

NodeInit(n) ==
  /\ active'      = With(active, n, <<>>)
  /\ evlog'       = With(evlog, n, <<>>)
  /\ closedL'     = With(closedL, n, {})
  /\ handlers'    = With(handlers, n, {})
  /\ known'       = With(known, n, <<>>)
  /\ pendingDial' = With(pendingDial, n, {})
  /\ bgResult'    = With(bgResult, n, <<>>)
  /\ backoff'     = With(backoff, n, <<>>)
  /\ pendingConn' = With(pendingConn, n, 0)
  /\ pendEv'      = With(pendEv, n, <<>>)
  /\ spawnQ'      = With(spawnQ, n, <<>>)
  /\ subPos'      = With(subPos, n, 0)
  /\ lastAdd'     = With(lastAdd, n, [gid |-> 0, outcome |-> "-"])
  /\ replies'     = With(replies, n, <<>>)

Empty == <<>>

TraceInit ==
  /\ active = Empty /\ evlog = Empty /\ closedL = Empty /\ handlers = Empty
  /\ known = Empty /\ cfg = Empty /\ pendingDial = Empty /\ bgResult = Empty
  /\ backoff = Empty /\ pendingConn = Empty
  /\ l = 1 /\ now = 0
  /\ pendEv = Empty /\ conns = Empty /\ tasks = Empty /\ spawnQ = Empty
  /\ nextTick = Empty /\ phase = Empty /\ subs = Empty /\ subPos = Empty
  /\ addrNode = Empty /\ lastAdd = Empty /\ replies = Empty /\ closeT = Empty
  /\ faultT = -1 /\ idle = Empty /\ ka = Empty /\ runStart = 0 /\ lastSend = Empty /\ quietLen = Empty /\ callListed = Empty /\ pathOut = Empty /\ pathIn = Empty /\ closingH = Empty /\ beginT = Empty /\ shutIdle = Empty

-----------------------------------------------------------------------------
Cur == Rec[l]
IsEvent(e) == l <= Len(Rec) /\ Cur.ev = e /\ l' = l + 1 /\ now' = Cur.t
N == Cur.node

SeqToSet(s) == {s[i] : i \in DOMAIN s}

Closes(n, S) ==   \* remember when n closed the connections in S (first time only)
  closeT' = [k \in DOMAIN closeT \cup {<<n, g>> : g \in S} |->
               IF k \in DOMAIN closeT THEN closeT[k] ELSE Cur.t]

Other(n, g) == IF conns[g].d = n THEN conns[g].l ELSE conns[g].d

-----------------------------------------------------------------------------
(* Run control and environment observations *)

TrReset ==
  /\ IsEvent("reset")
  /\ active' = Empty /\ evlog' = Empty /\ closedL' = Empty /\ handlers' = Empty
  /\ known' = Empty /\ cfg' = Empty /\ pendingDial' = Empty /\ bgResult' = Empty
  /\ backoff' = Empty /\ pendingConn' = Empty
  /\ pendEv' = Empty /\ conns' = Empty /\ tasks' = Empty /\ spawnQ' = Empty
  /\ nextTick' = Empty /\ phase' = Empty /\ subs' = Empty /\ subPos' = Empty
  /\ addrNode' = Empty /\ lastAdd' = Empty /\ replies' = Empty /\ closeT' = Empty
  /\ faultT' = -1 /\ idle' = Empty /\ ka' = Empty /\ runStart' = l /\ lastSend' = Empty /\ quietLen' = Empty /\ callListed' = Empty /\ pathOut' = Empty /\ pathIn' = Empty /\ closingH' = Empty /\ beginT' = Empty /\ shutIdle' = Empty

TrNodeStart ==
  /\ IsEvent("obs.node_start")
  /\ IF N \in DOMAIN phase THEN phase[N] = "done" ELSE TRUE
  /\ NodeInit(N)
  /\ phase' = With(phase, N, "starting")
  /\ addrNode' = With(addrNode, Cur.addr, N)
  /\ idle' = With(idle, N, Get(Cur, "idle_ms", 10000))
  /\ ka' = With(ka, N, Get(Cur, "keepalive_ms", 0))
  /\ shutIdle' = With(shutIdle, N, Get(Cur, "shutdown_idle_ms", 60000))
  /\ UNCHANGED <<runStart, lastSend, quietLen, callListed, pathOut, pathIn, closingH>>
  \* what the application configured (the harness logs the configuration it passed in, with the
  \* documented defaults for unset fields): the manager must come up with exactly these values
  /\ cfg' = With(cfg, N, [limit |-> Get(Cur, "limit", NoLimit), interval |-> Cur.cfg_interval_ms, step |-> Cur.cfg_step_ms,
                          maxb |-> Cur.cfg_max_backoff_ms, cto |-> Cur.cfg_connect_timeout_ms, cap |-> Cur.cfg_cap])
  /\ nextTick' = With(nextTick, N, 0)
  /\ UNCHANGED <<conns, tasks, subs, closeT, faultT, beginT>>

(* an address at which an adversary (or nobody) listens *)
TrAddr ==
  /\ IsEvent("obs.addr")
  /\ addrNode' = With(addrNode, Cur.addr, Cur.who)
  /\ UNCHANGED <<vars, pendEv, conns, tasks, spawnQ, nextTick, phase, subs, subPos, lastAdd,
                 replies, closeT, faultT, idle, ka, runStart, lastSend, quietLen, callListed,
                 pathOut, pathIn, closingH, beginT, shutIdle>>

TrMgrStart ==
  /\ IsEvent("mgr.start")
  /\ phase[N] = "starting"
  /\ phase' = [phase EXCEPT ![N] = "running"]
  /\ Get(Cur, "limit", NoLimit) = cfg[N].limit /\ Cur.interval_ms = cfg[N].interval /\ Cur.step_ms = cfg[N].step
  /\ Cur.max_backoff_ms = cfg[N].maxb /\ Cur.connect_timeout_ms = cfg[N].cto /\ Cur.cap = cfg[N].cap
  /\ UNCHANGED cfg
  /\ nextTick' = [nextTick EXCEPT ![N] = Cur.t]
  /\ UNCHANGED <<connVars, known, pendingDial, bgResult, backoff, pendingConn, pendEv, conns,
                 tasks, spawnQ, subs, subPos, addrNode, lastAdd, replies, closeT, faultT, idle,
                 ka, runStart, lastSend, quietLen, callListed, pathOut, pathIn, closingH, beginT,
                 shutIdle>>

TrKnownInsert ==
  /\ IsEvent("obs.known_insert")
  /\ known' = [known EXCEPT ![N] = With(@, Cur.peer, [aff |-> Cur.affinity, addrs |-> Cur.addrs])]
  /\ UNCHANGED <<connVars, cfg, pendingDial, bgResult, backoff, pendingConn, pendEv, conns,
                 tasks, spawnQ, nextTick, phase, subs, subPos, addrNode, lastAdd, replies,
                 closeT, faultT, idle, ka, runStart, lastSend, quietLen, callListed, pathOut,
                 pathIn, closingH, beginT, shutIdle>>

TrKnownRemove ==
  /\ IsEvent("obs.known_remove")
  /\ known' = [known EXCEPT ![N] = Without(@, Cur.peer)]
  /\ UNCHANGED <<connVars, cfg, pendingDial, bgResult, backoff, pendingConn, pendEv, conns,
                 tasks, spawnQ, nextTick, phase, subs, subPos, addrNode, lastAdd, replies,
                 closeT, faultT, idle, ka, runStart, lastSend, quietLen, callListed, pathOut,
                 pathIn, closingH, beginT, shutIdle>>

TrFault ==
  /\ IsEvent("obs.fault")
  /\ faultT' = Cur.t
  /\ UNCHANGED <<vars, pendEv, conns, tasks, spawnQ, nextTick, phase, subs, subPos, addrNode,
                 lastAdd, replies, closeT, idle, ka, runStart, lastSend, quietLen, callListed,
                 pathOut, pathIn, closingH, beginT, shutIdle>>

-----------------------------------------------------------------------------
(* The connectivity check *)

DialPeers == [i \in DOMAIN Cur.dials |-> Cur.dials[i].peer]

TrTick ==
  /\ IsEvent("mgr.tick")
  /\ phase[N] = "running"
  /\ LET t  == Cur.now_ms
         D  == SeqToSet(DialPeers)
         bo == BackoffAfterDrain(N, t)
     IN
     /\ t = nextTick[N]                                       \* ticks come every interval
     /\ Cur.t <= t + Slack                                    \* and are handled when due
     /\ nextTick' = [nextTick EXCEPT ![N] = t + cfg[N].interval]
     /\ {d.peer : d \in SeqToSet(Cur.drained)} = Drained(N)   \* exactly the finished dials
     /\ \A d \in SeqToSet(Cur.drained) : d.ok = (bgResult[N][d.peer] = "ok")
     /\ SeqToSet(Cur.eligible) = Eligible(N, t)               \* who may be dialed
     /\ Len(Cur.eligible) = Cardinality(Eligible(N, t))
     /\ Cur.pending_conn = pendingConn[N]
     /\ Len(Cur.dials) = NumberToDial(N, t)                   \* the cap
     /\ DialPeers = SubSeq(Cur.eligible, 1, Len(Cur.dials))   \* the first k of them
     /\ \A i \in DOMAIN Cur.dials :                            \* address rotation
          LET d == Cur.dials[i] IN
          /\ d.idx + 1 = AddrIndex(N, d.peer, bo)
          /\ d.addr = known[N][d.peer].addrs[d.idx + 1]
     /\ Tick(N, t, D)
     /\ {[peer |-> b.peer, attempts |-> b.attempts, notBefore |-> b.not_before_ms]
           : b \in SeqToSet(Cur.backoff)}
        = {[peer |-> p, attempts |-> bo[p].attempts, notBefore |-> bo[p].notBefore]
           : p \in DOMAIN bo}
     /\ spawnQ' = [spawnQ EXCEPT ![N] =
                     @ \o [i \in DOMAIN Cur.dials |->
                             [bg |-> TRUE, peer |-> Cur.dials[i].peer, addr |-> Cur.dials[i].addr]]]
  /\ UNCHANGED <<connVars, pendEv, conns, tasks, phase, subs, subPos, addrNode, lastAdd, replies,
                 closeT, faultT, idle, ka, runStart, lastSend, quietLen, callListed, pathOut,
                 pathIn, closingH, beginT, shutIdle>>

TrConnectReq ==
  /\ IsEvent("mgr.connect_req")
  /\ phase[N] = "running"
  /\ pendingConn' = [pendingConn EXCEPT ![N] = @ + 1]
  /\ spawnQ' = [spawnQ EXCEPT ![N] =
                  Append(@, [bg |-> FALSE, peer |-> Get(Cur, "expected", -1), addr |-> Cur.addr])]
  /\ UNCHANGED <<connVars, known, cfg, pendingDial, bgResult, backoff, pendEv, conns, tasks,
                 nextTick, phase, subs, subPos, addrNode, lastAdd, replies, closeT, faultT, idle,
                 ka, runStart, lastSend, quietLen, callListed, pathOut, pathIn, closingH, beginT,
                 shutIdle>>

-----------------------------------------------------------------------------
(* Outbound: dial_peer_task *)

TrDialStart ==
  /\ IsEvent("dial.start")
  /\ spawnQ[N] # <<>>
  /\ LET h == Head(spawnQ[N]) IN
     /\ h.addr = Cur.addr
     /\ h.peer = Get(Cur, "expected", -1)
     /\ tasks' = With(tasks, Cur.task,
                      [node |-> N, kind |-> "dial", bg |-> h.bg, target |-> h.peer,
                       addr |-> Cur.addr, gid |-> 0, fin |-> "no"])
  /\ spawnQ' = [spawnQ EXCEPT ![N] = Tail(@)]
  /\ UNCHANGED <<vars, pendEv, conns, nextTick, phase, subs, subPos, addrNode, lastAdd, replies,
                 closeT, faultT, idle, ka, runStart, lastSend, quietLen, callListed, pathOut,
                 pathIn, closingH, beginT, shutIdle>>

(* TLS finished on the dialer: it accepted the certificate of the party at  *)
(* the address.  PinSound / Authentic: the identity it attributes is the    *)
(* identity of the party that really listens there, and the pinned one.     *)
TrDialTls ==
  /\ IsEvent("dial.tls")
  /\ Cur.task \in DOMAIN tasks /\ tasks[Cur.task].node = N /\ tasks[Cur.task].fin = "no"
  /\ LET tk == tasks[Cur.task] IN
     /\ tk.addr \in DOMAIN addrNode
     /\ Cur.peer = addrNode[tk.addr]                \* attributed identity = who answered
     /\ tk.target # -1 => Cur.peer = tk.target       \* the pin
  /\ Cur.gid \notin DOMAIN conns
  /\ conns' = With(conns, Cur.gid,
                   [d |-> N, l |-> Cur.peer, ltls |-> FALSE, admit |-> "none",
                    ackSent |-> FALSE, ackRead |-> FALSE, ackConf |-> FALSE])
  /\ tasks' = [tasks EXCEPT ![Cur.task].gid = Cur.gid]
  /\ UNCHANGED <<vars, pendEv, spawnQ, nextTick, phase, subs, subPos, addrNode, lastAdd, replies,
                 closeT, faultT, idle, ka, runStart, lastSend, quietLen, callListed, pathOut,
                 pathIn, closingH, beginT, shutIdle>>

TrDialDone ==
  /\ IsEvent("dial.done")
  /\ Cur.task \in DOMAIN tasks /\ tasks[Cur.task].node = N /\ tasks[Cur.task].fin = "no"
  /\ LET tk == tasks[Cur.task] IN
     IF Cur.ok
     THEN /\ Cur.gid = tk.gid /\ tk.gid # 0
          /\ conns[tk.gid].ackRead                     \* only after the listener's ack
          /\ Cur.peer = conns[tk.gid].l
          /\ tk.target # -1 => Cur.peer = tk.target
          /\ tasks' = [tasks EXCEPT ![Cur.task].fin = "ok"]
          /\ UNCHANGED <<closedL, closeT>>
     ELSE /\ tasks' = [tasks EXCEPT ![Cur.task].fin = "err"]
          \* once the listener's ack has been read nothing stands between the task and success
          \* (no await follows, and a timeout polls the task first): whether anybody still
          \* waits for the result of the dial plays no part
          /\ tk.gid # 0 => ~conns[tk.gid].ackRead
          /\ IF tk.gid # 0                              \* the connection is dropped
             THEN /\ closedL' = [closedL EXCEPT ![N] = @ \cup {tk.gid}]
                  /\ Closes(N, {tk.gid})
             ELSE UNCHANGED <<closedL, closeT>>
  /\ UNCHANGED <<dialVars, active, evlog, handlers, pendEv, conns, spawnQ, nextTick, phase, subs,
                 subPos, addrNode, lastAdd, replies, faultT, idle, ka, runStart, lastSend,
                 quietLen, callListed, pathOut, pathIn, closingH, beginT, shutIdle>>

-----------------------------------------------------------------------------
(* Inbound: handle_incoming / handle_incoming_task *)

(* an adversary endpoint (raw QUIC, valid certificate of its own) finished TLS as a dialer *)
TrAdvDialTls ==
  /\ IsEvent("adv.dial_tls")
  /\ Cur.gid \notin DOMAIN conns
  /\ conns' = With(conns, Cur.gid,
                   [d |-> N, l |-> Cur.to, ltls |-> FALSE, admit |-> "none",
                    ackSent |-> FALSE, ackRead |-> FALSE, ackConf |-> FALSE])
  /\ UNCHANGED <<vars, pendEv, tasks, spawnQ, nextTick, phase, subs, subPos, addrNode, lastAdd,
                 replies, closeT, faultT, idle, ka, runStart, lastSend, quietLen, callListed,
                 pathOut, pathIn, closingH, beginT, shutIdle>>

TrInAccepted ==
  /\ IsEvent("in.accepted")
  /\ phase[N] = "running"
  /\ Cur.pending = pendingConn[N]
  /\ pendingConn' = [pendingConn EXCEPT ![N] = @ + 1]
  /\ UNCHANGED <<connVars, known, cfg, pendingDial, bgResult, backoff, pendEv, conns, tasks,
                 spawnQ, nextTick, phase, subs, subPos, addrNode, lastAdd, replies, closeT,
                 faultT, idle, ka, runStart, lastSend, quietLen, callListed, pathOut, pathIn,
                 closingH, beginT, shutIdle>>

TrInStart ==
  /\ IsEvent("in.start")
  /\ Cur.task \notin DOMAIN tasks
  /\ tasks' = With(tasks, Cur.task,
                   [node |-> N, kind |-> "in", bg |-> FALSE, target |-> -1, addr |-> "-",
                    gid |-> 0, fin |-> "no"])
  /\ UNCHANGED <<vars, pendEv, conns, spawnQ, nextTick, phase, subs, subPos, addrNode, lastAdd,
                 replies, closeT, faultT, idle, ka, runStart, lastSend, quietLen, callListed,
                 pathOut, pathIn, closingH, beginT, shutIdle>>

(* TLS finished on the listener.  In TLS 1.3 the client finishes first, so  *)
(* the connection is already known from its dialer; the identity the        *)
(* listener attributes must be the dialer's (Authentic).                    *)
TrInTls ==
  /\ IsEvent("in.tls")
  /\ Cur.task \in DOMAIN tasks /\ tasks[Cur.task].node = N /\ tasks[Cur.task].fin = "no"
  /\ Cur.gid \in DOMAIN conns
  /\ ~conns[Cur.gid].ltls
  /\ conns[Cur.gid].l = N
  /\ Cur.peer = conns[Cur.gid].d
  /\ conns' = [conns EXCEPT ![Cur.gid].ltls = TRUE]
  /\ tasks' = [tasks EXCEPT ![Cur.task].gid = Cur.gid]
  /\ UNCHANGED <<vars, pendEv, spawnQ, nextTick, phase, subs, subPos, addrNode, lastAdd, replies,
                 closeT, faultT, idle, ka, runStart, lastSend, quietLen, callListed, pathOut,
                 pathIn, closingH, beginT, shutIdle>>

TrAdmission ==
  /\ IsEvent("in.admission")
  /\ Cur.task \in DOMAIN tasks /\ tasks[Cur.task].gid = Cur.gid
  /\ conns[Cur.gid].ltls /\ conns[Cur.gid].admit = "none"
  /\ Cur.peer = conns[Cur.gid].d
  /\ Cur.active_len = Cardinality(DOMAIN active[N])
  /\ Get(Cur, "limit", NoLimit) = cfg[N].limit
  /\ Get(Cur, "affinity", "None") = Aff(N, Cur.peer)
  /\ Cur.verdict = (IF Admitted(N, Cur.peer) THEN "admit" ELSE "reject")
  /\ conns' = [conns EXCEPT ![Cur.gid].admit = Cur.verdict]
  /\ IF Cur.verdict = "reject"
     THEN /\ closedL' = [closedL EXCEPT ![N] = @ \cup {Cur.gid}]
          /\ Closes(N, {Cur.gid})
     ELSE UNCHANGED <<closedL, closeT>>
  /\ UNCHANGED <<dialVars, active, evlog, handlers, pendEv, tasks, spawnQ, nextTick, phase, subs,
                 subPos, addrNode, lastAdd, replies, faultT, idle, ka, runStart, lastSend,
                 quietLen, callListed, pathOut, pathIn, closingH, beginT, shutIdle>>

TrAckSent ==
  /\ IsEvent("hs.ack_sent")
  /\ conns[Cur.gid].l = N /\ conns[Cur.gid].admit = "admit" /\ ~conns[Cur.gid].ackSent
  /\ conns' = [conns EXCEPT ![Cur.gid].ackSent = TRUE]
  /\ UNCHANGED <<vars, pendEv, tasks, spawnQ, nextTick, phase, subs, subPos, addrNode, lastAdd,
                 replies, closeT, faultT, idle, ka, runStart, lastSend, quietLen, callListed,
                 pathOut, pathIn, closingH, beginT, shutIdle>>

TrAckRead ==
  /\ IsEvent("hs.ack_read")
  /\ conns[Cur.gid].d = N /\ ~conns[Cur.gid].ackRead
  /\ IF conns[Cur.gid].l \in DOMAIN phase THEN conns[Cur.gid].ackSent
     ELSE TRUE                                  \* an adversary listener logs nothing
  /\ conns' = [conns EXCEPT ![Cur.gid].ackRead = TRUE]
  /\ UNCHANGED <<vars, pendEv, tasks, spawnQ, nextTick, phase, subs, subPos, addrNode, lastAdd,
                 replies, closeT, faultT, idle, ka, runStart, lastSend, quietLen, callListed,
                 pathOut, pathIn, closingH, beginT, shutIdle>>

TrAckConfirmed ==
  /\ IsEvent("hs.ack_confirmed")
  /\ conns[Cur.gid].l = N /\ conns[Cur.gid].ackSent /\ ~conns[Cur.gid].ackConf
  /\ conns' = [conns EXCEPT ![Cur.gid].ackConf = TRUE]
  /\ UNCHANGED <<vars, pendEv, tasks, spawnQ, nextTick, phase, subs, subPos, addrNode, lastAdd,
                 replies, closeT, faultT, idle, ka, runStart, lastSend, quietLen, callListed,
                 pathOut, pathIn, closingH, beginT, shutIdle>>

TrInDone ==
  /\ IsEvent("in.done")
  /\ Cur.task \in DOMAIN tasks /\ tasks[Cur.task].node = N /\ tasks[Cur.task].fin = "no"
  /\ LET tk == tasks[Cur.task] IN
     IF Cur.ok
     THEN /\ Cur.gid = tk.gid /\ tk.gid # 0
          /\ conns[tk.gid].ackConf
          /\ Cur.peer = conns[tk.gid].d
          /\ tasks' = [tasks EXCEPT ![Cur.task].fin = "ok"]
          /\ UNCHANGED <<closedL, closeT>>
     ELSE /\ tasks' = [tasks EXCEPT ![Cur.task].fin = "err"]
          /\ tk.gid # 0 => ~conns[tk.gid].ackConf     \* a confirmed ack leaves nothing that can fail
          /\ IF tk.gid # 0
             THEN /\ closedL' = [closedL EXCEPT ![N] = @ \cup {tk.gid}]
                  /\ Closes(N, {tk.gid})
             ELSE UNCHANGED <<closedL, closeT>>
  /\ UNCHANGED <<dialVars, active, evlog, handlers, pendEv, conns, spawnQ, nextTick, phase, subs,
                 subPos, addrNode, lastAdd, replies, faultT, idle, ka, runStart, lastSend,
                 quietLen, callListed, pathOut, pathIn, closingH, beginT, shutIdle>>

-----------------------------------------------------------------------------
(* The active set: every operation logs while holding the write lock *)

EvOf(r) == [kind |-> r.kind, peer |-> r.peer, reason |-> Get(r, "reason", "-")]

TrApEvent ==
  /\ IsEvent("ap.event")
  /\ pendEv' = [pendEv EXCEPT ![N] = Append(@, EvOf(Cur))]
  /\ UNCHANGED <<vars, conns, tasks, spawnQ, nextTick, phase, subs, subPos, addrNode, lastAdd,
                 replies, closeT, faultT, idle, ka, runStart, lastSend, quietLen, callListed,
                 pathOut, pathIn, closingH, beginT, shutIdle>>

(* add_peer: only for a connecting task of this node that finished Ok       *)
TrApAdd ==
  /\ IsEvent("ap.add")
  /\ Cur.own = N
  /\ Cur.gid \in DOMAIN conns
  /\ Cur.origin \in (IF conns[Cur.gid].d = N THEN {"out"} ELSE {}) \cup
                    (IF conns[Cur.gid].l = N THEN {"in"} ELSE {})     \* both for a self-dial
  /\ Cur.peer = Other(N, Cur.gid)
  /\ \E id \in DOMAIN tasks : tasks[id].node = N /\ tasks[id].gid = Cur.gid /\ tasks[id].fin = "ok"
  /\ LET r == AddRes(N, Cur.peer, Cur.gid, Cur.origin) IN
     /\ Cur.outcome = r.outcome
     /\ pendEv[N] = r.evs                                  \* events sent inside the lock
     /\ Cur.len = Cardinality(DOMAIN r.act)
     /\ Closes(N, r.closes)
  /\ ApAdd(N, Cur.peer, Cur.gid, Cur.origin)
  /\ pendEv' = [pendEv EXCEPT ![N] = <<>>]
  /\ lastAdd' = [lastAdd EXCEPT ![N] = [gid |-> Cur.gid, outcome |-> Cur.outcome]]
  /\ UNCHANGED <<dialVars, conns, tasks, spawnQ, nextTick, phase, subs, subPos, addrNode,
                 replies, faultT, idle, ka, runStart, lastSend, quietLen, callListed, pathOut,
                 pathIn, closingH, beginT, shutIdle>>

(* handle_connecting_result, after add_peer and before the reply            *)
TrMgrResult ==
  /\ IsEvent("mgr.result")
  /\ Cur.task \in DOMAIN tasks /\ tasks[Cur.task].node = N
  /\ LET tk == tasks[Cur.task] IN
     /\ tk.fin = (IF Cur.ok THEN "ok" ELSE "err")
     /\ Cur.replied = (tk.kind = "dial")
     /\ Cur.ok => /\ lastAdd[N].gid = Cur.gid /\ Cur.gid = tk.gid
                  /\ Cur.peer \in DOMAIN active[N]        \* ReturnedIsListed
     /\ IF tk.bg
        THEN /\ BgDialResult(N, tk.target, Cur.ok)
             /\ UNCHANGED replies
        ELSE /\ UNCHANGED bgResult
             /\ replies' = IF tk.kind = "dial"
                           THEN [replies EXCEPT ![N] =
                                   Append(@, [ok |-> Cur.ok, peer |-> Get(Cur, "peer", -1)])]
                           ELSE replies
  /\ tasks' = [tasks EXCEPT ![Cur.task].fin = "consumed"]
  /\ pendingConn' = [pendingConn EXCEPT ![N] = @ - 1]
  /\ lastAdd' = [lastAdd EXCEPT ![N] = [gid |-> 0, outcome |-> "-"]]
  /\ UNCHANGED <<connVars, known, cfg, pendingDial, backoff, pendEv, conns, spawnQ, nextTick,
                 phase, subs, subPos, addrNode, closeT, faultT, idle, ka, runStart, lastSend,
                 quietLen, callListed, pathOut, pathIn, closingH, beginT, shutIdle>>

(* ActivePeers::remove is what Network::disconnect does (and what shutdown does for what  *)
(* cancelled handlers left behind): while a network runs, a removal by peer is the         *)
(* application's own disconnect() call - the harness logs obs.disconnect as soon as the    *)
(* call returns, so it is the next record after the removal's events.  The library never   *)
(* disconnects a peer by itself.                                                           *)
RECURSIVE SkipApEvents(_)
SkipApEvents(i) == IF i <= Len(Rec) /\ Rec[i].ev = "ap.event" THEN SkipApEvents(i + 1) ELSE i
RemoveRequested ==
  \/ phase[N] # "running"
  \/ LET j == SkipApEvents(l + 1) IN
       j <= Len(Rec) /\ Rec[j].ev = "obs.disconnect" /\ Rec[j].node = N /\ Rec[j].peer = Cur.peer

TrApRemove ==
  /\ IsEvent("ap.remove")
  /\ RemoveRequested
  /\ LET had == Cur.peer \in DOMAIN active[N] IN
     /\ Has(Cur, "removed") = had
     /\ had => Cur.removed = active[N][Cur.peer].gid
     /\ pendEv[N] = (IF had THEN <<Lost(Cur.peer, Cur.reason)>> ELSE <<>>)
     /\ IF had THEN Closes(N, {active[N][Cur.peer].gid}) ELSE UNCHANGED closeT
  /\ ApRemove(N, Cur.peer, Cur.reason)
  /\ Cur.len = Cardinality(DOMAIN active'[N])
  /\ pendEv' = [pendEv EXCEPT ![N] = <<>>]
  /\ UNCHANGED <<dialVars, conns, tasks, spawnQ, nextTick, phase, subs, subPos, addrNode,
                 lastAdd, replies, faultT, idle, ka, runStart, lastSend, quietLen, callListed,
                 pathOut, pathIn, closingH, beginT, shutIdle>>

(* The handler of connection hgid ends.  Why it may end (the environment    *)
(* must have been able to cause it) is checked on the preceding h.closing.  *)
TrApRemoveId ==
  /\ IsEvent("ap.remove_id")
  /\ Cur.hgid \in handlers[N]
  /\ Cur.hgid \in DOMAIN conns /\ Cur.peer = Other(N, Cur.hgid)
  /\ LET own == RemovesOwn(N, Cur.peer, Cur.hgid) IN
     /\ Has(Cur, "removed") = own                       \* StaleExitHarmless
     /\ own => Cur.removed = Cur.hgid
     /\ pendEv[N] = (IF own THEN <<Lost(Cur.peer, Cur.reason)>> ELSE <<>>)
     /\ IF own THEN Closes(N, {Cur.hgid}) ELSE UNCHANGED closeT
  /\ ApRemoveId(N, Cur.peer, Cur.hgid, Cur.reason)
  /\ Cur.len = Cardinality(DOMAIN active'[N])
  /\ pendEv' = [pendEv EXCEPT ![N] = <<>>]
  /\ closingH' = With(closingH, N, 0)
  /\ UNCHANGED <<dialVars, conns, tasks, spawnQ, nextTick, phase, subs, subPos, addrNode,
                 lastAdd, replies, faultT, idle, ka, runStart, lastSend, quietLen, callListed,
                 pathOut, pathIn, beginT, shutIdle>>

TrHStart ==
  /\ IsEvent("h.start")
  /\ Cur.gid \in handlers[N]
  /\ UNCHANGED <<vars, pendEv, conns, tasks, spawnQ, nextTick, phase, subs, subPos, addrNode,
                 lastAdd, replies, closeT, faultT, idle, ka, runStart, lastSend, quietLen,
                 callListed, pathOut, pathIn, closingH, beginT, shutIdle>>

(* the handler saw its connection end: who can have caused that?            *)
PeerGone(n, g) ==
  LET o == Other(n, g) IN
  IF o \notin DOMAIN phase THEN TRUE      \* an adversary endpoint: may do anything
  ELSE <<o, g>> \in DOMAIN closeT \/ phase[o] \in {"closing", "done"}

Faulty(n) == faultT >= 0 /\ Cur.t - faultT <= 2 * idle[n] + 1000

(* idle expiry is behaviour, not a fault: without keep-alives a quiet       *)
(* connection expires on both sides after the idle timeout                  *)
(* events that witness a datagram of connection g received by n at that very moment *)
NetEv == {"dial.tls", "in.tls", "hs.ack_read", "hs.ack_confirmed", "rpc.recv", "srv.accept", "srv.decoded"}
LastActivity(n, g) ==
  LET S == {i \in (runStart + 1)..(l - 1) :
              Has(Rec[i], "gid") /\ Rec[i].gid = g /\ Rec[i].ev \in NetEv /\ Rec[i].node = n} IN
  IF S = {} THEN 0 ELSE Rec[Max(S)].t

(* a keep-alive keeps a connection up only if it comes more often than the connection's idle  *)
(* timeout (the smaller of the two ends'): one configured at or above it never gets to fire      *)
KeepsUp(x, n, o) == ka[x] > 0 /\ ka[x] < (IF o \in DOMAIN idle THEN Min2(idle[n], idle[o]) ELSE idle[n])
(* ... so only a keep-alive that does fire can push a survivor's idle timer out *)
EffKa(n, o) == IF KeepsUp(n, n, o) THEN ka[n] ELSE 0
QuietExpiry(n, g) ==
  LET o == Other(n, g) IN
  /\ ~KeepsUp(n, n, o)
  /\ IF o \in DOMAIN ka THEN ~KeepsUp(o, n, o) ELSE TRUE
  \* QUIC: the smaller of the two ends' timeouts, counted from n's last exchange on g
  /\ Cur.t + 500 >= LastActivity(n, g) + (IF o \in DOMAIN idle THEN Min2(idle[n], idle[o]) ELSE 0)

TrHClosing ==
  /\ IsEvent("h.closing")
  /\ Cur.gid \in handlers[N]
  /\ CASE Cur.reason = "LocallyClosed" ->
            \/ Cur.gid \in closedL[N]
            \/ phase[N] \in {"closing", "done"}
       [] Cur.reason \in {"ApplicationClosed", "ConnectionClosed", "Reset"} -> PeerGone(N, Cur.gid)
       [] Cur.reason = "TimedOut" ->
            Faulty(N) \/ PeerGone(N, Cur.gid) \/ QuietExpiry(N, Cur.gid)
       [] OTHER -> Other(N, Cur.gid) \notin DOMAIN phase    \* TransportError etc.: adversary only
  /\ closingH' = With(closingH, N, Cur.gid)
  /\ UNCHANGED <<vars, pendEv, conns, tasks, spawnQ, nextTick, phase, subs, subPos, addrNode,
                 lastAdd, replies, closeT, faultT, idle, ka, runStart, lastSend, quietLen,
                 callListed, pathOut, pathIn, beginT, shutIdle>>

-----------------------------------------------------------------------------
(* Subscriptions and listings as the application sees them *)

TrApSubscribe ==
  /\ IsEvent("ap.subscribe")
  /\ SeqToSet(Cur.snapshot) = DOMAIN active[N]
  /\ Len(Cur.snapshot) = Cardinality(DOMAIN active[N])      \* no duplicates
  /\ subPos' = [subPos EXCEPT ![N] = Len(evlog[N])]
  /\ UNCHANGED <<vars, pendEv, conns, tasks, spawnQ, nextTick, phase, subs, addrNode, lastAdd,
                 replies, closeT, faultT, idle, ka, runStart, lastSend, quietLen, callListed,
                 pathOut, pathIn, closingH, beginT, shutIdle>>

TrObsSubscribe ==
  /\ IsEvent("obs.subscribe")
  /\ SeqToSet(Cur.snapshot) = DOMAIN active[N]
  /\ subs' = With(subs, Cur.sub, [node |-> N, pos |-> subPos[N]])
  /\ UNCHANGED <<vars, pendEv, conns, tasks, spawnQ, nextTick, phase, subPos, addrNode, lastAdd,
                 replies, closeT, faultT, idle, ka, runStart, lastSend, quietLen, callListed,
                 pathOut, pathIn, closingH, beginT, shutIdle>>

(* a subscriber receives exactly the log, in order, from its position       *)
TrObsEvent ==
  /\ IsEvent("obs.event")
  /\ Cur.sub \in DOMAIN subs /\ subs[Cur.sub].node = N
  /\ subs[Cur.sub].pos < Len(evlog[N])
  /\ evlog[N][subs[Cur.sub].pos + 1] = EvOf(Cur)
  /\ subs' = [subs EXCEPT ![Cur.sub].pos = @ + 1]
  /\ UNCHANGED <<vars, pendEv, conns, tasks, spawnQ, nextTick, phase, subPos, addrNode, lastAdd,
                 replies, closeT, faultT, idle, ka, runStart, lastSend, quietLen, callListed,
                 pathOut, pathIn, closingH, beginT, shutIdle>>

(* end of stream: only after shutdown, and nothing was withheld             *)
TrSubClosed ==
  /\ IsEvent("obs.sub_closed")
  /\ Cur.sub \in DOMAIN subs
  /\ phase[N] = "done"
  /\ subs[Cur.sub].pos = Len(evlog[N])
  /\ subs' = Without(subs, Cur.sub)
  /\ UNCHANGED <<vars, pendEv, conns, tasks, spawnQ, nextTick, phase, subPos, addrNode, lastAdd,
                 replies, closeT, faultT, idle, ka, runStart, lastSend, quietLen, callListed,
                 pathOut, pathIn, closingH, beginT, shutIdle>>

TrObsPeers ==
  /\ IsEvent("obs.peers")
  /\ SeqToSet(Cur.peers) = (IF phase[N] = "done" THEN {} ELSE DOMAIN active[N])
  /\ Len(Cur.peers) = Cardinality(SeqToSet(Cur.peers))
  /\ UNCHANGED <<vars, pendEv, conns, tasks, spawnQ, nextTick, phase, subs, subPos, addrNode,
                 lastAdd, replies, closeT, faultT, idle, ka, runStart, lastSend, quietLen,
                 callListed, pathOut, pathIn, closingH, beginT, shutIdle>>

(* the result an application got from connect(): one of the replies sent    *)
TrConnectResult ==
  /\ IsEvent("obs.connect_result")
  \* replies are a multiset: which of several equal pending replies this call consumed is
  \* immaterial, so the first matching one is taken (keeps the validation linear)
  /\ LET S == {i \in DOMAIN replies[N] : replies[N][i].ok = Cur.ok /\ (Cur.ok => replies[N][i].peer = Cur.peer)} IN
        /\ S # {}
        /\ replies' = [replies EXCEPT ![N] = RemoveAt(@, Min(S))]
  /\ Cur.ok /\ Has(Cur, "expected") => Cur.peer = Cur.expected
  /\ UNCHANGED <<vars, pendEv, conns, tasks, spawnQ, nextTick, phase, subs, subPos, addrNode,
                 lastAdd, closeT, faultT, idle, ka, runStart, lastSend, quietLen, callListed,
                 pathOut, pathIn, closingH, beginT, shutIdle>>

(* connect() on a network that is shut down fails without reaching the manager *)
TrConnectRefused ==
  /\ IsEvent("obs.connect_refused")
  /\ phase[N] \in {"closing", "done"}
  /\ UNCHANGED <<vars, pendEv, conns, tasks, spawnQ, nextTick, phase, subs, subPos, addrNode,
                 lastAdd, replies, closeT, faultT, idle, ka, runStart, lastSend, quietLen,
                 callListed, pathOut, pathIn, closingH, beginT, shutIdle>>

(* a connect() whose dial task was aborted by shutdown: the caller gets an error *)
TrConnectAborted ==
  /\ IsEvent("obs.connect_aborted")
  /\ phase[N] \in {"closing", "done"}
  /\ UNCHANGED <<vars, pendEv, conns, tasks, spawnQ, nextTick, phase, subs, subPos, addrNode,
                 lastAdd, replies, closeT, faultT, idle, ka, runStart, lastSend, quietLen,
                 callListed, pathOut, pathIn, closingH, beginT, shutIdle>>

-----------------------------------------------------------------------------
(* Shutdown *)

ConnsOf(n) == {g \in DOMAIN conns : conns[g].d = n \/ conns[g].l = n}

TrShutBegin ==
  /\ IsEvent("shut.begin")
  /\ phase[N] = "running"
  /\ phase' = [phase EXCEPT ![N] = "closing"]
  /\ beginT' = With(beginT, N, Cur.t)
  /\ UNCHANGED <<vars, pendEv, conns, tasks, spawnQ, nextTick, subs, subPos, addrNode, lastAdd,
                 replies, closeT, faultT, idle, ka, runStart, lastSend, quietLen, callListed,
                 pathOut, pathIn, closingH, shutIdle>>

(* endpoint.close(): every connection of this endpoint is closed            *)
TrShutClosed ==
  /\ IsEvent("shut.closed")
  /\ phase[N] = "closing"
  /\ Cur.handlers >= Cardinality(handlers[N])   \* the JoinSet may still hold finished, unjoined tasks
  /\ closedL' = [closedL EXCEPT ![N] = @ \cup ConnsOf(N)]
  /\ Closes(N, ConnsOf(N))
  /\ UNCHANGED <<dialVars, active, evlog, handlers, pendEv, conns, tasks, spawnQ, nextTick,
                 phase, subs, subPos, addrNode, lastAdd, replies, faultT, idle, ka, runStart,
                 lastSend, quietLen, callListed, pathOut, pathIn, closingH, beginT, shutIdle>>

(* pending connecting tasks are aborted: their results are never consumed   *)
TrShutAborted ==
  /\ IsEvent("shut.aborted")
  /\ phase[N] = "closing"
  /\ pendingConn' = [pendingConn EXCEPT ![N] = 0]
  /\ UNCHANGED <<connVars, known, cfg, pendingDial, bgResult, backoff, pendEv, conns, tasks,
                 spawnQ, nextTick, phase, subs, subPos, addrNode, lastAdd, replies, closeT,
                 faultT, idle, ka, runStart, lastSend, quietLen, callListed, pathOut, pathIn,
                 closingH, beginT, shutIdle>>

(* all handlers joined: the active set must be empty (the code asserts it)  *)
TrShutJoined ==
  /\ IsEvent("shut.joined")
  /\ phase[N] = "closing"
  /\ handlers[N] = {}
  /\ Cur.active_len = 0
  /\ DOMAIN active[N] = {}
  /\ UNCHANGED <<vars, pendEv, conns, tasks, spawnQ, nextTick, phase, subs, subPos, addrNode,
                 lastAdd, replies, closeT, faultT, idle, ka, runStart, lastSend, quietLen,
                 callListed, pathOut, pathIn, closingH, beginT, shutIdle>>

(* C08 Bounded: the wait for the endpoint to drain respects the configured bound, and the    *)
(* whole sequence from leaving the event loop to here is not longer than that (+ slack)       *)
TrShutIdle ==
  /\ IsEvent("shut.idle")
  /\ phase[N] = "closing"
  /\ Cur.bound_ms = shutIdle[N]                    \* the configured bound is the one applied
  /\ Cur.t - beginT[N] <= shutIdle[N] + 100
  /\ UNCHANGED <<vars, pendEv, conns, tasks, spawnQ, nextTick, phase, subs, subPos, addrNode,
                 lastAdd, replies, closeT, faultT, idle, ka, runStart, lastSend, quietLen,
                 callListed, pathOut, pathIn, closingH, beginT, shutIdle>>

(* what the application observes once shutdown has returned (or all handles were dropped) *)
TrShutdownResult ==
  /\ IsEvent("obs.shutdown_result")
  /\ phase[N] = "done"
  /\ \A i \in DOMAIN Cur.results : ~Cur.results[i].hang
  /\ \E i \in DOMAIN Cur.results : Cur.results[i].ok
  /\ Cur.took_ms <= Cur.bound_ms + 300
  /\ Cur.closed /\ Cur.peers = 0
  /\ Cur.live_services = 0              \* every clone of the user's service has been dropped
  /\ ~Cur.upgrade                       \* weak references no longer upgrade
  /\ Cur.rebind                         \* the socket address can be bound again at once
  /\ \A id \in DOMAIN subs : subs[id].node # N    \* subscribers have seen end-of-stream
  /\ UNCHANGED <<vars, pendEv, conns, tasks, spawnQ, nextTick, phase, subs, subPos, addrNode,
                 lastAdd, replies, closeT, faultT, idle, ka, runStart, lastSend, quietLen,
                 callListed, pathOut, pathIn, closingH, beginT, shutIdle>>

(* what one caller of shutdown() finds at the instant its own call returns: Ok means the    *)
(* whole sequence is over - for every caller, also one whose request was queued behind       *)
(* another's - so the network is closed, lists nobody, its address is free and no clone of   *)
(* the service is left; a caller that gets an error was not the one being answered           *)
TrShutdownReturn ==
  /\ IsEvent("obs.shutdown_return")
  /\ ~Cur.hang
  /\ Cur.ok => /\ phase[N] = "done"
               /\ Cur.closed /\ Cur.peers = 0 /\ Cur.rebind /\ Cur.live_services = 0
  /\ UNCHANGED <<vars, pendEv, conns, tasks, spawnQ, nextTick, phase, subs, subPos, addrNode,
                 lastAdd, replies, closeT, faultT, idle, ka, runStart, lastSend, quietLen,
                 callListed, pathOut, pathIn, closingH, beginT, shutIdle>>

(* API calls issued after shutdown fail, they do not hang *)
TrApiAfter ==
  /\ IsEvent("obs.api_after")
  /\ phase[N] = "done"
  /\ ~Cur.hang /\ ~Cur.ok
  /\ UNCHANGED <<vars, pendEv, conns, tasks, spawnQ, nextTick, phase, subs, subPos, addrNode,
                 lastAdd, replies, closeT, faultT, idle, ka, runStart, lastSend, quietLen,
                 callListed, pathOut, pathIn, closingH, beginT, shutIdle>>

TrShutDone ==
  /\ IsEvent("shut.done")
  /\ phase[N] = "closing"
  /\ phase' = [phase EXCEPT ![N] = "done"]
  /\ UNCHANGED <<vars, pendEv, conns, tasks, spawnQ, nextTick, subs, subPos, addrNode, lastAdd,
                 replies, closeT, faultT, idle, ka, runStart, lastSend, quietLen, callListed,
                 pathOut, pathIn, closingH, beginT, shutIdle>>

-----------------------------------------------------------------------------
(* Quiescence: connectivity has been fault-free for longer than the idle    *)
(* timeout and the harness has let every pending step finish.               *)
Listed(a, b) == a \in DOMAIN phase /\ phase[a] = "running" /\ b \in DOMAIN active[a]

Mutual ==
  \A a, b \in DOMAIN active :
     (phase[a] = "running" /\ phase[b] = "running") =>
        /\ Listed(a, b) <=> Listed(b, a)
        /\ Listed(a, b) => active[a][b].gid = active[b][a].gid

(* every connection handler still alive belongs to the stored connection: the handler of a   *)
(* connection that lost a tie-break or was replaced has ended (the connection was closed, not *)
(* merely forgotten)                                                                          *)
NoOrphanHandlers(n) ==
  phase[n] = "running" => handlers[n] = {active[n][p].gid : p \in DOMAIN active[n]}

TrQuiesce ==
  /\ IsEvent("obs.quiesce")
  /\ Mutual
  /\ \A n \in DOMAIN phase : NoOrphanHandlers(n)
  /\ \A n \in DOMAIN phase : phase[n] = "running" =>
        \A p \in DOMAIN active[n] : p \in DOMAIN phase => phase[p] = "running"
  /\ quietLen' = [n \in DOMAIN evlog |-> Len(evlog[n])]
  /\ UNCHANGED <<vars, pendEv, conns, tasks, spawnQ, nextTick, phase, subs, subPos, addrNode,
                 lastAdd, replies, closeT, faultT, idle, ka, runStart, lastSend, callListed,
                 pathOut, pathIn, closingH, beginT, shutIdle>>

(* C05 Converge: after a mutual dial both sides hold the same connection,   *)
(* the one dialed by the greater identity                                   *)
TrConverged ==
  /\ IsEvent("obs.converged")
  /\ LET a == Cur.a  b == Cur.b  hi == Max2(a, b) IN
     /\ b \in DOMAIN active[a] /\ a \in DOMAIN active[b]
     /\ active[a][b].gid = active[b][a].gid
     \* which one survives is decided by the tie-break alone - unless a connection limit let the
     \* admission rule (C10) refuse the later arrival before it came to a tie-break
     /\ (cfg[a].limit = NoLimit /\ cfg[b].limit = NoLimit) => conns[active[a][b].gid].d = hi
     /\ NoOrphanHandlers(a) /\ NoOrphanHandlers(b)       \* "... and drop the other"
  /\ UNCHANGED <<vars, pendEv, conns, tasks, spawnQ, nextTick, phase, subs, subPos, addrNode,
                 lastAdd, replies, closeT, faultT, idle, ka, runStart, lastSend, quietLen,
                 callListed, pathOut, pathIn, closingH, beginT, shutIdle>>

(* C05 Settled: no further connect / disconnect events since quiescence     *)
TrSettled ==
  /\ IsEvent("obs.settled")
  /\ \A n \in DOMAIN quietLen : Len(evlog[n]) = quietLen[n]
  /\ UNCHANGED <<vars, pendEv, conns, tasks, spawnQ, nextTick, phase, subs, subPos, addrNode,
                 lastAdd, replies, closeT, faultT, idle, ka, runStart, lastSend, quietLen,
                 callListed, pathOut, pathIn, closingH, beginT, shutIdle>>

-----------------------------------------------------------------------------
(* Events of other layers (RPC path, timeouts, raw observations) do not    *)
(* change connection state.                                                *)
(* C09: an RPC reaches a peer only through a registered connection: it is   *)
(* refused while the peer is not listed (after a disconnect, until a new    *)
(* connection is established), and at quiescence every listed peer answers  *)
TrRpcCall ==
  /\ IsEvent("obs.rpc_call")
  /\ callListed' = With(callListed, Cur.nonce,
                         [listed |-> IF N \in DOMAIN phase
                                     THEN phase[N] # "done" /\ Cur.to \in DOMAIN active[N]
                                     ELSE TRUE,        \* a raw call written by an adversary endpoint
                          to |-> Cur.to])
  /\ UNCHANGED <<vars, pendEv, conns, tasks, spawnQ, nextTick, phase, subs, subPos, addrNode,
                 lastAdd, replies, closeT, faultT, idle, ka, runStart, lastSend, quietLen,
                 pathOut, pathIn, closingH, beginT, shutIdle>>

TrRpcResult ==
  /\ IsEvent("obs.rpc_result")
  /\ Cur.nonce \in DOMAIN callListed
  /\ Cur.ok => callListed[Cur.nonce].listed
  /\ (Cur.ok /\ Has(Cur, "peer_seen")) => Cur.peer_seen = callListed[Cur.nonce].to
  /\ Get(Cur, "must_succeed", FALSE) => Cur.ok
  /\ callListed' = Without(callListed, Cur.nonce)
  /\ UNCHANGED <<vars, pendEv, conns, tasks, spawnQ, nextTick, phase, subs, subPos, addrNode,
                 lastAdd, replies, closeT, faultT, idle, ka, runStart, lastSend, quietLen,
                 pathOut, pathIn, closingH, beginT, shutIdle>>

(* endpoint.accept() yielded None: the incoming connection attempt could not *)
(* be accepted (or the endpoint is closed); the manager just loops           *)
TrAcceptNone ==
  /\ IsEvent("mgr.accept_none")
  /\ UNCHANGED <<vars, pendEv, conns, tasks, spawnQ, nextTick, phase, subs, subPos, addrNode,
                 lastAdd, replies, closeT, faultT, idle, ka, runStart, lastSend, quietLen,
                 callListed, pathOut, pathIn, closingH, beginT, shutIdle>>

(* datagram activity between two addresses, reported by the fabric (rate limited) *)
TrPath ==
  /\ IsEvent("obs.path")
  /\ IF Cur.src \in DOMAIN addrNode /\ Cur.dst \in DOMAIN addrNode
     THEN LET a == addrNode[Cur.src]  b == addrNode[Cur.dst] IN
          \* (a datagram that was lost is remembered under the key <<a + LossKey, b>> as well)
          /\ pathOut' = IF Cur.lost THEN With(With(pathOut, <<a, b>>, Cur.t), <<a + LossKey, b>>, Cur.t)
                        ELSE With(pathOut, <<a, b>>, Cur.t)
          /\ pathIn' = IF Cur.lost THEN pathIn ELSE With(pathIn, <<a, b>>, Cur.t)
     ELSE UNCHANGED <<pathOut, pathIn>>
  /\ UNCHANGED <<vars, pendEv, conns, tasks, spawnQ, nextTick, phase, subs, subPos, addrNode,
                 lastAdd, replies, closeT, faultT, idle, ka, runStart, lastSend, quietLen,
                 callListed, closingH, beginT, shutIdle>>

(* The handler of a connection that ended removes the peer first and only   *)
(* then shuts its in-flight request tasks down (that order is what makes the *)
(* loss visible at once, whatever the request handlers are doing): no        *)
(* request task of that connection ends between "saw it end" and the removal *)
TrSrvEnd ==
  /\ l <= Len(Rec) /\ Cur.ev \in {"srv.drop", "srv.err"} /\ l' = l + 1 /\ now' = Cur.t
  /\ IF N \in DOMAIN closingH THEN closingH[N] # Cur.gid ELSE TRUE
  /\ UNCHANGED <<vars, pendEv, conns, tasks, spawnQ, nextTick, phase, subs, subPos, addrNode,
                 lastAdd, replies, closeT, faultT, idle, ka, runStart, lastSend, quietLen,
                 callListed, pathOut, pathIn, closingH, beginT, shutIdle>>

TrRpcOpen ==
  /\ IsEvent("rpc.open")
  /\ lastSend' = With(lastSend, <<N, Cur.gid>>, Cur.t)
  /\ UNCHANGED <<vars, pendEv, conns, tasks, spawnQ, nextTick, phase, subs, subPos, addrNode,
                 lastAdd, replies, closeT, faultT, idle, ka, runStart, quietLen, callListed,
                 pathOut, pathIn, closingH, beginT, shutIdle>>

Ignored == {"conn.new", "tmo.set", "tmo.fire", "rpc.finish", "rpc.recv", "rpc.drop",
            "srv.accept", "srv.decoded", "srv.ret", "srv.end",
            "app.start", "app.end", "app.drop",
            "obs.connect_call", "obs.disconnect", "h.exit", "shut.rebound",
            "obs.note", "obs.sub_lagged", "obs.known_finding", "adv.stream", "app.hostile",
            "app.hostile_end", "obs.alive", "obs.rpc_quiet", "obs.rpc_cfg", "obs.rpc_abandon"}

(* C09: a connection lost without a word (both directions cut) is reported lost no later than  *)
(* the node's own idle timeout (+ one keep-alive interval: the first ping after the last      *)
(* receipt restarts the timer once)                                                            *)
(* The survivor's idle timer restarts once more when it sends its first ack-eliciting packet  *)
(* after the last receipt (RFC 9000 10.1) - a keep-alive, a request, a probe - and then runs   *)
(* out: the deadline counts from the first datagram the node sent towards the peer after the   *)
(* cut (path reports, at most one per 200 ms), or from the cut if it sent nothing.             *)
FirstSendAfter(n, o, since) ==
  LET S == {i \in (runStart + 1)..(l - 1) :
              /\ Rec[i].ev = "obs.path" /\ Rec[i].t > since
              /\ Rec[i].src \in DOMAIN addrNode /\ Rec[i].dst \in DOMAIN addrNode
              /\ addrNode[Rec[i].src] = n /\ addrNode[Rec[i].dst] = o}
  IN IF S = {} THEN since ELSE Rec[Min(S)].t
TrSilentEnd ==
  /\ IsEvent("obs.silent_end")
  \* (both ways of counting must have run out: the cut + one effective keep-alive + idle, and the first
  \* send after the cut + idle; where probes went unanswered shortly before, QUIC stretches the period
  \* to three probe timeouts - see Late - which the first bound's keep-alive term has so far covered)
  /\ (/\ Cur.t - FirstSendAfter(N, Cur.other, Cur.since) >= idle[N] + 2000
      /\ Cur.t - Cur.since >= idle[N] + EffKa(N, Cur.other) + 2000) => ~Cur.listed
  /\ UNCHANGED <<vars, pendEv, conns, tasks, spawnQ, nextTick, phase, subs, subPos, addrNode,
                 lastAdd, replies, closeT, faultT, idle, ka, runStart, lastSend, quietLen,
                 callListed, pathOut, pathIn, closingH, beginT, shutIdle>>

TrIgnored ==
  /\ l <= Len(Rec) /\ Cur.ev \in Ignored /\ l' = l + 1 /\ now' = Cur.t
  /\ UNCHANGED <<vars, pendEv, conns, tasks, spawnQ, nextTick, phase, subs, subPos, addrNode,
                 lastAdd, replies, closeT, faultT, idle, ka, runStart, lastSend, quietLen,
                 callListed, pathOut, pathIn, closingH, beginT, shutIdle>>

TraceNext ==
  \/ TrReset \/ TrNodeStart \/ TrAddr \/ TrMgrStart \/ TrKnownInsert \/ TrKnownRemove \/ TrFault
  \/ TrTick \/ TrConnectReq
  \/ TrDialStart \/ TrDialTls \/ TrDialDone \/ TrAdvDialTls
  \/ TrInAccepted \/ TrInStart \/ TrInTls \/ TrAdmission
  \/ TrAckSent \/ TrAckRead \/ TrAckConfirmed \/ TrInDone
  \/ TrApEvent \/ TrApAdd \/ TrMgrResult \/ TrApRemove \/ TrApRemoveId \/ TrHStart \/ TrHClosing
  \/ TrApSubscribe \/ TrObsSubscribe \/ TrObsEvent \/ TrSubClosed \/ TrObsPeers
  \/ TrConnectResult \/ TrConnectRefused \/ TrConnectAborted
  \/ TrShutBegin \/ TrShutClosed \/ TrShutAborted \/ TrShutJoined \/ TrShutIdle \/ TrShutDone
  \/ TrShutdownResult \/ TrShutdownReturn \/ TrApiAfter
  \/ TrQuiesce \/ TrConverged \/ TrSettled \/ TrAcceptNone \/ TrSrvEnd \/ TrPath \/ TrRpcCall \/ TrRpcResult \/ TrRpcOpen \/ TrSilentEnd \/ TrIgnored

TraceSpec == TraceInit /\ [][TraceNext]_allvars

-----------------------------------------------------------------------------
(* Invariants evaluated at every step of the recorded execution *)

(* a connection that one side closed, rejected or lost is reported lost by  *)
(* the other side no later than the idle timeout (C09 CloseObservedBy).     *)
(* "The idle timeout" is read as QUIC's rule (RFC 9000, 10.1): the timer    *)
(* restarts when something is received and when the first ack-eliciting     *)
(* packet after that is sent, so a survivor that still sends - keep-alive   *)
(* pings or a new RPC on the connection - detects the loss up to one send   *)
(* later.                                                                   *)
LastSend(n, g) == IF <<n, g>> \in DOMAIN lastSend THEN lastSend[<<n, g>>] ELSE 0
At(f, k) == IF k \in DOMAIN f THEN f[k] ELSE 0
Max3(a, b, c) == Max2(a, Max2(b, c))

(* the survivor's idle timer runs from the last datagram it received from   *)
(* the peer's address or sent towards it                                    *)
LastPathActivity(n, o) == Max2(At(pathOut, <<n, o>>), At(pathIn, <<o, n>>))

(* QUIC never lets the idle period be shorter than three times the current probe timeout   *)
(* (RFC 9000 10.1), and the probe timeout doubles with every probe that goes unanswered: on   *)
(* a path that lost datagrams shortly before, the survivor's timer may legitimately run for   *)
(* longer than the configured idle timeout (seen: 10.2 s for a configured 4 s after a loss    *)
(* burst). The deadline is therefore not required where loss was reported on the path in the  *)
(* minute before the peer's close and before the survivor last heard from the peer.          *)
LastLoss(n, o) == Max2(At(pathOut, <<n + LossKey, o>>), At(pathOut, <<o + LossKey, n>>))
Late ==
  {<<n, g>> \in {<<m, h>> \in (DOMAIN handlers) \X (DOMAIN conns) : h \in handlers[m]} :
     LET o == Other(n, g) IN
     /\ <<o, g>> \in DOMAIN closeT
     \* (the timer is armed with the probe timeout of the moment: what matters is loss that came
     \* before the survivor last heard from the peer - path reports come at most every 200 ms)
     /\ ~(LastLoss(n, o) > 0 /\ LastLoss(n, o) + 60000 >= closeT[<<o, g>>]
            /\ LastLoss(n, o) <= At(pathIn, <<o, n>>) + 250)
     /\ now > Max3(closeT[<<o, g>>], LastSend(n, g), LastPathActivity(n, o)) + idle[n] + EffKa(n, o) + 2000}

CloseObservedBy == Late = {}

(* a running manager never misses a connectivity check                      *)
TicksOnTime ==
  \A n \in DOMAIN phase : phase[n] = "running" => now <= nextTick[n] + Slack

Chk(name, ok, info) == ok \/ (PrintT(<<"INVARIANT-VIOLATED", name, l - 1, info>>) /\ FALSE)

TraceInvariants ==
  /\ Chk("Alternate", Alternate, "")
  /\ Chk("LogMatchesListing", LogMatchesListing, "")
  /\ Chk("DistinctConnections", DistinctConnections, "")
  /\ Chk("CloseObservedBy", CloseObservedBy, Late)
  /\ Chk("TicksOnTime", TicksOnTime, "")

TraceAccepted ==
  LET d == TLCGet("stats").diameter IN
  IF d - 1 = Len(Rec) THEN TRUE
  ELSE /\ PrintT(<<"TRACE-REJECTED at line", d, IF d <= Len(Rec) THEN Rec[d] ELSE "eof">>)
       /\ FALSE

=============================================================================
