SPECIFICATION Spec
CONSTANTS
  NoLimit = NoLimit
  Me = 1
  Peers = {1, 2, 3, 4}
  KnownTable <- KT1
  Interval = 3
  Step = 3
  MaxB = 6
  Cto = 2
  Cap = 100
  MaxTime = 18
  MaxFlips = 3
INVARIANT Invariants
INVARIANT ConnectsWithin
PROPERTY NoDialWhileConnectedOrPending
CHECK_DEADLOCK FALSE
