----------------------------- MODULE AnemoConn -----------------------------
(***************************************************************************)
(* Connection management of an anemo network, written to be bound to the   *)
(* code: one action per critical section of                                *)
(*   crates/anemo/src/network/connection_manager.rs                        *)
(*   crates/anemo/src/network/request_handler.rs (connection handler)      *)
(*   crates/anemo/src/network/wire.rs (handshake)                          *)
(*                                                                         *)
(* This module holds the state and the *parameterised* actions. Two kinds  *)
(* of module instantiate it:                                               *)
(*   - MC_Conn*, MC_Dial*, MC_Shut*: add the environment (who dials whom,  *)
(*     message delivery, timeouts, clock) and let TLC explore every        *)
(*     interleaving for small constants;                                   *)
(*   - AnemoConnTrace: binds every action to one event recorded from the   *)
(*     real code (hooks + API observations) and checks that a recorded     *)
(*     execution is a behaviour of this specification.                     *)
(*                                                                         *)
(* Identities are natural numbers ordered like the PeerIds they stand for  *)
(* (the harness sorts keys), so "a < b" is the PeerId comparison of the    *)
(* tie-break. A connection is identified by a global id shared by both     *)
(* ends (the TLS exporter value in the implementation).                    *)
(***************************************************************************)
EXTENDS Naturals, Integers, Sequences, FiniteSets, TLC

CONSTANT NoLimit      \* "no max_concurrent_connections configured"

VARIABLES
  active,     \* active[n]: function  peer |-> [gid, origin]   (ActivePeersInner.connections)
  evlog,      \* evlog[n]: sequence of peer events sent so far  (peer_event_sender)
  closedL,    \* closedL[n]: connections n has closed or dropped (close(), implicit close on drop)
  handlers,   \* handlers[n]: connections whose InboundRequestHandler task is alive on n
  known,      \* known[n]: function peer |-> [aff, addrs]       (KnownPeers)
  cfg,        \* cfg[n]: [limit, interval, step, maxb, cto, cap]
  pendingDial,\* pendingDial[n]: peers with an unfinished/undrained background dial
  bgResult,   \* bgResult[n]: function peer |-> "pending" | "ok" | "err"  (the oneshot of a bg dial)
  backoff,    \* backoff[n]: function peer |-> [attempts, notBefore]   (dial_backoff_states)
  pendingConn \* pendingConn[n]: number of tasks in pending_connections

connVars == <<active, evlog, closedL, handlers>>
dialVars == <<known, cfg, pendingDial, bgResult, backoff, pendingConn>>
vars == <<connVars, dialVars>>

-----------------------------------------------------------------------------
(* Helpers *)

Min2(a, b) == IF a < b THEN a ELSE b
Max0(a) == IF a < 0 THEN 0 ELSE a
Dom(f) == DOMAIN f
RestrictF(f, S) == [x \in S |-> f[x]]
Without(f, x) == RestrictF(f, DOMAIN f \ {x})
With(f, x, v) == [y \in DOMAIN f \cup {x} |-> IF y = x THEN v ELSE f[y]]
RangeS(s) == {s[i] : i \in DOMAIN s}

New(p) == [kind |-> "new", peer |-> p, reason |-> "-"]
Lost(p, r) == [kind |-> "lost", peer |-> p, reason |-> r]

-----------------------------------------------------------------------------
(* ActivePeersInner::simultaneous_dial_tie_breaking.  TRUE = drop the       *)
(* existing connection and keep the new one.                                *)
TieBreak(own, remote, existing, new) ==
  CASE existing = "in"  /\ new = "in"  -> TRUE
    [] existing = "out" /\ new = "out" -> TRUE
    [] existing = "in"  /\ new = "out" -> remote < own
    [] existing = "out" /\ new = "in"  -> own < remote

(* ActivePeersInner::add as a function of the current map.                  *)
AddRes(n, p, g, o) ==
  LET cur == active[n] IN
  IF p \in DOMAIN cur
  THEN IF TieBreak(n, p, cur[p].origin, o)
       THEN [outcome |-> "replaced",
             act     |-> With(cur, p, [gid |-> g, origin |-> o]),
             evs     |-> <<Lost(p, "Requested"), New(p)>>,
             closes  |-> {cur[p].gid},
             kept    |-> TRUE]
       ELSE [outcome |-> "rejected",
             act     |-> cur,
             evs     |-> <<>>,
             closes  |-> {g},
             kept    |-> FALSE]
  ELSE [outcome |-> "new",
        act     |-> With(cur, p, [gid |-> g, origin |-> o]),
        evs     |-> <<New(p)>>,
        closes  |-> {},
        kept    |-> TRUE]

(* ConnectionManager::add_peer: ActivePeers::add under the write lock, then *)
(* a handler task is spawned iff the new connection was kept.               *)
ApAdd(n, p, g, o) ==
  LET r == AddRes(n, p, g, o) IN
  /\ active'   = [active   EXCEPT ![n] = r.act]
  /\ evlog'    = [evlog    EXCEPT ![n] = @ \o r.evs]
  /\ closedL'  = [closedL  EXCEPT ![n] = @ \cup r.closes]
  /\ handlers' = [handlers EXCEPT ![n] = IF r.kept THEN @ \cup {g} ELSE @]

(* ActivePeersInner::remove (Network::disconnect).                          *)
ApRemove(n, p, reason) ==
  IF p \in DOMAIN active[n]
  THEN /\ active'  = [active  EXCEPT ![n] = Without(@, p)]
       /\ evlog'   = [evlog   EXCEPT ![n] = Append(@, Lost(p, reason))]
       /\ closedL' = [closedL EXCEPT ![n] = @ \cup {active[n][p].gid}]
       /\ UNCHANGED handlers
  ELSE UNCHANGED connVars

(* ActivePeersInner::remove_with_stable_id, called by the handler of        *)
(* connection g with peer p when it ends: removes only its own connection.  *)
RemovesOwn(n, p, g) == p \in DOMAIN active[n] /\ active[n][p].gid = g

ApRemoveId(n, p, g, reason) ==
  /\ IF RemovesOwn(n, p, g)
     THEN /\ active'  = [active  EXCEPT ![n] = Without(@, p)]
          /\ evlog'   = [evlog   EXCEPT ![n] = Append(@, Lost(p, reason))]
          /\ closedL' = [closedL EXCEPT ![n] = @ \cup {g}]
     ELSE UNCHANGED <<active, evlog, closedL>>
  /\ handlers' = [handlers EXCEPT ![n] = @ \ {g}]

-----------------------------------------------------------------------------
(* handle_incoming_task: admission after TLS, before the ack.               *)
Aff(n, p) == IF p \in DOMAIN known[n] THEN known[n][p].aff ELSE "None"

Admitted(n, p) ==
  CASE Aff(n, p) \in {"High", "Allowed"} -> TRUE
    [] Aff(n, p) = "Never"               -> FALSE
    [] OTHER -> IF cfg[n].limit = NoLimit THEN TRUE
                ELSE Cardinality(DOMAIN active[n]) < cfg[n].limit

-----------------------------------------------------------------------------
(* Background dialing: handle_connectivity_check.                           *)
BackoffAfter(n, k) == Min2(cfg[n].maxb, k * cfg[n].step)

Attempts(n, p) == IF p \in DOMAIN backoff[n] THEN backoff[n][p].attempts ELSE 0

(* step 1: drain finished dials, update the back-off table                  *)
Drained(n) == {p \in pendingDial[n] : bgResult[n][p] # "pending"}

BackoffAfterDrain(n, t) ==
  LET failed == {p \in Drained(n) : bgResult[n][p] = "err"}
      okd    == {p \in Drained(n) : bgResult[n][p] = "ok"}
      dom    == (DOMAIN backoff[n] \cup failed) \ okd
  IN [p \in dom |->
        IF p \in failed
        THEN [attempts  |-> Attempts(n, p) + 1,
              notBefore |-> t + BackoffAfter(n, Attempts(n, p) + 1)]
        ELSE backoff[n][p]]

(* step 2: who may be dialed now                                            *)
Eligible(n, t) ==
  LET bo == BackoffAfterDrain(n, t)
      pd == pendingDial[n] \ Drained(n)
  IN {p \in DOMAIN known[n] :
        /\ known[n][p].aff = "High"
        /\ p # n
        /\ known[n][p].addrs # <<>>
        /\ p \notin DOMAIN active[n]
        /\ p \notin pd
        /\ (p \in DOMAIN bo => t > bo[p].notBefore)}

NumberToDial(n, t) == Min2(Cardinality(Eligible(n, t)), Max0(cfg[n].cap - pendingConn[n]))

AddrIndex(n, p, bo) ==
  ((IF p \in DOMAIN bo THEN bo[p].attempts ELSE 0) % Len(known[n][p].addrs)) + 1

(* The whole tick for a chosen set D of peers to dial (any NumberToDial of  *)
(* the eligible ones: the code iterates a HashMap).                         *)
Tick(n, t, D) ==
  /\ D \subseteq Eligible(n, t)
  /\ Cardinality(D) = NumberToDial(n, t)
  /\ backoff'     = [backoff     EXCEPT ![n] = BackoffAfterDrain(n, t)]
  /\ pendingDial' = [pendingDial EXCEPT ![n] = (@ \ Drained(n)) \cup D]
  /\ bgResult'    = [bgResult    EXCEPT ![n] =
                       [p \in (DOMAIN @ \ Drained(n)) \cup D |->
                          IF p \in D THEN "pending" ELSE @[p]]]
  /\ pendingConn' = [pendingConn EXCEPT ![n] = @ + Cardinality(D)]
  /\ UNCHANGED <<known, cfg>>

(* A background dial's oneshot is filled by handle_connecting_result.       *)
BgDialResult(n, p, ok) ==
  /\ p \in pendingDial[n] /\ bgResult[n][p] = "pending"
  /\ bgResult' = [bgResult EXCEPT ![n][p] = IF ok THEN "ok" ELSE "err"]

-----------------------------------------------------------------------------
(* Properties of the connection state (C04).                                *)

(* per peer the event log alternates New, Lost, New, ...                    *)
PeerEvents(n, p) == SelectSeq(evlog[n], LAMBDA e : e.peer = p)

Alternates(s) ==
  \A i \in 1..Len(s) : s[i].kind = (IF i % 2 = 1 THEN "new" ELSE "lost")

Alternate == \A n \in DOMAIN evlog : \A p \in {e.peer : e \in RangeS(evlog[n])} :
               Alternates(PeerEvents(n, p))

(* replaying the log from the empty listing yields the current listing      *)
RECURSIVE Replay(_, _)
Replay(S, s) ==
  IF s = <<>> THEN S
  ELSE Replay(IF Head(s).kind = "new" THEN S \cup {Head(s).peer} ELSE S \ {Head(s).peer}, Tail(s))

LogMatchesListing == \A n \in DOMAIN evlog : Replay({}, evlog[n]) = DOMAIN active[n]

(* the stored connection has not been closed locally                        *)
NoDeadEntry == \A n \in DOMAIN active : \A p \in DOMAIN active[n] :
                 active[n][p].gid \notin closedL[n]

(* every stored connection has a live handler (it is what removes it)       *)
StoredHasHandler == \A n \in DOMAIN active : \A p \in DOMAIN active[n] :
                      active[n][p].gid \in handlers[n]

(* at most one connection per peer is structural (active[n] is a function); *)
(* what is checked is that distinct peers never share a connection          *)
DistinctConnections == \A n \in DOMAIN active : \A p, q \in DOMAIN active[n] :
                         p # q => active[n][p].gid # active[n][q].gid

=============================================================================
