------------------------------ MODULE MC_Conn ------------------------------
(***************************************************************************)
(* Exhaustive exploration of connection establishment, registration,       *)
(* tie-breaking, closing and handler exit between a few networks:          *)
(* AnemoConn's actions plus the environment (who dials whom, delivery of   *)
(* the handshake ack and of close notifications, connect timeouts,         *)
(* disconnect calls, subscriptions).                                       *)
(*                                                                         *)
(* Three fidelity points (DESIGN 3.1): the manager consumes finished       *)
(* connecting tasks in completion order (done[n] is a FIFO); "the ack      *)
(* reached the dialer" and "the listener learnt it" are separate steps;    *)
(* tokio::time::timeout polls the task first, so a dialer whose ack has    *)
(* arrived cannot time out any more (both are one step here).              *)
(***************************************************************************)
EXTENDS AnemoConn

CONSTANTS
  Nodes,          \* set of identities (naturals, ordered like PeerIds)
  Pairs,          \* set of <<dialer, listener>> that may be dialed
  MaxAtt,         \* number of connection attempts
  MaxDisc,        \* number of disconnect() calls
  MaxSubs,        \* number of subscribe() calls
  Timeouts,       \* BOOLEAN: connect timeouts may fire
  Sequential,     \* BOOLEAN: a new dial starts only when nothing is in flight (C10's premise)
  Abandons,       \* BOOLEAN: the application may drop a connect() call whose dial is under way
  Limits,         \* Limits[n]: max_concurrent_connections or NoLimit
  Affs            \* Affs[n][p]: affinity n has configured for p ("None" if unknown)

VARIABLES
  att,       \* att[k]: [d, l, ds, ls]
  done,      \* done[n]: FIFO of finished connecting tasks [g, side, ok]
  replies,   \* replies sent to dial callers: [n, g, ok, listed]
  subs,      \* subscriptions: [n, snap, pos]
  nDisc      \* disconnect calls so far

mvars == <<att, done, replies, subs, nDisc>>

(* values for the function-valued constants, selected in the .cfg files *)
NoLimits == [n \in Nodes |-> NoLimit]
NoAffs == [n \in Nodes |-> [p \in Nodes |-> "None"]]
(* C10: node 1 limits itself to one connection, allows 2 explicitly, knows nothing of 3; *)
(* node 2 refuses node 3; node 3 has no limit                                            *)
C10Limits == [n \in Nodes |-> IF n = 1 THEN 1 ELSE NoLimit]
C10Affs == [n \in Nodes |-> [p \in Nodes |->
              CASE n = 1 /\ p = 2 -> "Allowed"
                [] n = 2 /\ p = 3 -> "Never"
                [] n = 3 /\ p = 1 -> "High"
                [] OTHER -> "None"]]
AllPairs == {pr \in Nodes \X Nodes : pr[1] # pr[2]}
allvars == <<vars, mvars>>

Init ==
  /\ active      = [n \in Nodes |-> <<>>]
  /\ evlog       = [n \in Nodes |-> <<>>]
  /\ closedL     = [n \in Nodes |-> {}]
  /\ handlers    = [n \in Nodes |-> {}]
  /\ known       = [n \in Nodes |->
                      [p \in {q \in Nodes : Affs[n][q] # "None"} |->
                         [aff |-> Affs[n][p], addrs |-> <<"a">>]]]
  /\ cfg         = [n \in Nodes |-> [limit |-> Limits[n], interval |-> 5, step |-> 1,
                                      maxb |-> 3, cto |-> 2, cap |-> 100]]
  /\ pendingDial = [n \in Nodes |-> {}]
  /\ bgResult    = [n \in Nodes |-> <<>>]
  /\ backoff     = [n \in Nodes |-> <<>>]
  /\ pendingConn = [n \in Nodes |-> 0]
  /\ att = <<>> /\ done = [n \in Nodes |-> <<>>] /\ replies = {} /\ subs = {} /\ nDisc = 0

Gids == DOMAIN att
OtherOf(n, k) == IF att[k].d = n THEN att[k].l ELSE att[k].d
Push(n, r) == done' = [done EXCEPT ![n] = Append(@, r)]

(* dial_peer_task starts; TLS succeeds on the dialer (honest identities)   *)
Final(k) == att[k].ds \in {"done", "failed"} /\ att[k].ls \in {"done", "failed"}
Settled ==
  /\ \A k \in DOMAIN att : Final(k)
  /\ \A n \in Nodes : done[n] = <<>>
  /\ \A n \in Nodes : \A k \in handlers[n] :
        k \notin closedL[n] /\ k \notin closedL[IF att[k].d = n THEN att[k].l ELSE att[k].d]

Dial(d, l) ==
  /\ Len(att) < MaxAtt
  /\ Sequential => Settled
  /\ att' = Append(att, [d |-> d, l |-> l, ds |-> "tls", ls |-> "none", cnt |-> -1, v |-> "none", ab |-> FALSE])
  /\ UNCHANGED <<vars, done, replies, subs, nDisc>>

(* the application loses interest in a connect() call (drops the future) before it was      *)
(* answered: the dial is the network's business and goes on regardless - nothing changes but *)
(* that nobody is told the result                                                            *)
AbandonCall(k) ==
  /\ Abandons /\ ~att[k].ab
  /\ \A r \in replies : r.g # k
  /\ att' = [att EXCEPT ![k].ab = TRUE]
  /\ UNCHANGED <<vars, done, replies, subs, nDisc>>

(* handle_incoming_task: TLS finished on the listener (the dialer finished  *)
(* first and has not dropped the connection)                                *)
ListenerTls(k) ==
  /\ att[k].ls = "none" /\ att[k].ds \in {"tls", "done"} /\ k \notin closedL[att[k].d]
  /\ att' = [att EXCEPT ![k].ls = "tls"]
  /\ UNCHANGED <<vars, done, replies, subs, nDisc>>

(* admission, then the ack is written and finished (no await in between)   *)
Admit(k) ==
  /\ att[k].ls = "tls"
  /\ Admitted(att[k].l, att[k].d)
  /\ att' = [att EXCEPT ![k].ls = "ackSent", ![k].v = "admit",
                       ![k].cnt = Cardinality(DOMAIN active[att[k].l])]
  /\ UNCHANGED <<vars, done, replies, subs, nDisc>>

Reject(k) ==
  /\ att[k].ls = "tls"
  /\ ~Admitted(att[k].l, att[k].d)
  /\ att' = [att EXCEPT ![k].ls = "failed", ![k].v = "reject",
                       ![k].cnt = Cardinality(DOMAIN active[att[k].l])]
  /\ closedL' = [closedL EXCEPT ![att[k].l] = @ \cup {k}]      \* connection dropped
  /\ Push(att[k].l, [g |-> k, side |-> "in", ok |-> FALSE])
  /\ UNCHANGED <<active, evlog, handlers, dialVars, replies, subs, nDisc>>

(* the ack reaches the dialer, whose task completes at that instant        *)
DialerGetsAck(k) ==
  /\ att[k].ds = "tls" /\ att[k].ls \in {"ackSent", "done"}
  /\ att' = [att EXCEPT ![k].ds = "done"]
  /\ Push(att[k].d, [g |-> k, side |-> "out", ok |-> TRUE])
  /\ UNCHANGED <<vars, replies, subs, nDisc>>

(* the dialer's stack acknowledged the ack stream: stopped() resolves      *)
ListenerConfirmed(k) ==
  /\ att[k].ls = "ackSent" /\ att[k].ds = "done" /\ k \notin closedL[att[k].d]
  /\ att' = [att EXCEPT ![k].ls = "done"]
  /\ Push(att[k].l, [g |-> k, side |-> "in", ok |-> TRUE])
  /\ UNCHANGED <<vars, replies, subs, nDisc>>

(* a side whose task is still waiting sees the other side close / drop     *)
DialerSeesClose(k) ==
  /\ att[k].ds = "tls" /\ k \in closedL[att[k].l]
  /\ att' = [att EXCEPT ![k].ds = "failed"]
  /\ closedL' = [closedL EXCEPT ![att[k].d] = @ \cup {k}]
  /\ Push(att[k].d, [g |-> k, side |-> "out", ok |-> FALSE])
  /\ UNCHANGED <<active, evlog, handlers, dialVars, replies, subs, nDisc>>

ListenerSeesClose(k) ==
  /\ att[k].ls = "ackSent" /\ k \in closedL[att[k].d]
  /\ att' = [att EXCEPT ![k].ls = "failed"]
  /\ closedL' = [closedL EXCEPT ![att[k].l] = @ \cup {k}]
  /\ Push(att[k].l, [g |-> k, side |-> "in", ok |-> FALSE])
  /\ UNCHANGED <<active, evlog, handlers, dialVars, replies, subs, nDisc>>

(* connect_timeout elapses on a task that has not completed                *)
DialerTimeout(k) ==
  /\ Timeouts /\ att[k].ds = "tls"
  /\ att' = [att EXCEPT ![k].ds = "failed"]
  /\ closedL' = [closedL EXCEPT ![att[k].d] = @ \cup {k}]
  /\ Push(att[k].d, [g |-> k, side |-> "out", ok |-> FALSE])
  /\ UNCHANGED <<active, evlog, handlers, dialVars, replies, subs, nDisc>>

ListenerTimeout(k) ==
  /\ Timeouts /\ att[k].ls = "ackSent"
  /\ att' = [att EXCEPT ![k].ls = "failed"]
  /\ closedL' = [closedL EXCEPT ![att[k].l] = @ \cup {k}]
  /\ Push(att[k].l, [g |-> k, side |-> "in", ok |-> FALSE])
  /\ UNCHANGED <<active, evlog, handlers, dialVars, replies, subs, nDisc>>

(* handle_connecting_result: head of the queue; add_peer; reply            *)
MgrConsume(n) ==
  /\ done[n] # <<>>
  /\ LET r == Head(done[n])
         p == OtherOf(n, r.g)
     IN
     /\ IF r.ok
        THEN ApAdd(n, p, r.g, r.side)
        ELSE UNCHANGED connVars
     /\ replies' = IF r.side = "out" /\ ~att[r.g].ab
                   THEN replies \cup {[n |-> n, g |-> r.g, ok |-> r.ok,
                                       listed |-> r.ok /\ p \in DOMAIN active'[n]]}
                   ELSE replies
  /\ done' = [done EXCEPT ![n] = Tail(@)]
  /\ UNCHANGED <<dialVars, att, subs, nDisc>>

(* the handler of a registered connection notices that it ended            *)
HandlerExit(n, k) ==
  /\ k \in handlers[n]
  /\ k \in closedL[n] \/ k \in closedL[OtherOf(n, k)]
  /\ ApRemoveId(n, OtherOf(n, k), k,
                IF k \in closedL[n] THEN "LocallyClosed" ELSE "ApplicationClosed")
  /\ UNCHANGED <<dialVars, mvars>>

Disconnect(n, p) ==
  /\ nDisc < MaxDisc
  /\ p \in DOMAIN active[n]
  /\ ApRemove(n, p, "Requested")
  /\ nDisc' = nDisc + 1
  /\ UNCHANGED <<dialVars, att, done, replies, subs>>

Subscribe(n) ==
  /\ Cardinality(subs) < MaxSubs
  /\ subs' = subs \cup {[n |-> n, snap |-> DOMAIN active[n], pos |-> Len(evlog[n])]}
  /\ UNCHANGED <<vars, att, done, replies, nDisc>>

Next ==
  \/ \E pr \in Pairs : Dial(pr[1], pr[2])
  \/ \E k \in Gids :
        \/ ListenerTls(k) \/ Admit(k) \/ Reject(k) \/ DialerGetsAck(k) \/ ListenerConfirmed(k)
        \/ DialerSeesClose(k) \/ ListenerSeesClose(k) \/ DialerTimeout(k) \/ ListenerTimeout(k)
        \/ AbandonCall(k)
  \/ \E n \in Nodes :
        \/ MgrConsume(n)
        \/ \E k \in Gids : HandlerExit(n, k)
        \/ \E p \in Nodes : Disconnect(n, p)
        \/ Subscribe(n)

Spec == Init /\ [][Next]_allvars

-----------------------------------------------------------------------------
(* Properties *)

(* C04: the snapshot of a subscription plus all later events is the listing *)
ReplayHolds ==
  \A s \in subs :
     Replay(s.snap, SubSeq(evlog[s.n], s.pos + 1, Len(evlog[s.n]))) = DOMAIN active[s.n]

(* C04: the end of an older, replaced connection never disturbs its replacement *)
StaleExitHarmless ==
  [][\A n \in Nodes :
       (handlers'[n] # handlers[n] /\ handlers'[n] \subseteq handlers[n] /\ active'[n] # active[n])
         => \E p \in DOMAIN active[n] :
               /\ active[n][p].gid \in handlers[n] \ handlers'[n]
               /\ active'[n] = Without(active[n], p)]_allvars

(* C03: a dial that returned Ok found its peer listed before the reply     *)
ReturnedIsListed == \A r \in replies : r.ok => r.listed

(* C03/C10: a dial only succeeds for a connection the listener admitted    *)
DialerLearns == \A r \in replies : r.ok => att[r.g].ls \in {"ackSent", "done", "failed"}

(* C10, stated over the history of admissions (v = verdict, cnt = connections  *)
(* established at the listener when the arrival was judged)                    *)
AdmissionTable ==
  \A k \in DOMAIN att : att[k].v # "none" =>
     LET l == att[k].l  a == Affs[l][att[k].d] IN
     /\ a = "Never" => att[k].v = "reject"
     /\ a \in {"High", "Allowed"} => att[k].v = "admit"
     /\ a = "None" => (att[k].v = "admit") = (IF Limits[l] = NoLimit THEN TRUE ELSE att[k].cnt < Limits[l])
(* a rejected dialer never sees its connect succeed *)
RejectedDialerFails == \A r \in replies : r.ok => att[r.g].v = "admit"

Quiescent == ~ ENABLED Next

(* C09: when nothing more can happen, views are mutual and on the same connection *)
MutualAtQuiescence ==
  Quiescent =>
    \A a, b \in Nodes :
       /\ (b \in DOMAIN active[a]) <=> (a \in DOMAIN active[b])
       /\ b \in DOMAIN active[a] => active[a][b].gid = active[b][a].gid

(* C05: exactly one dial in each direction, no faults: both keep the       *)
(* connection dialed by the greater identity.                               *)
Converge ==
  (Quiescent /\ Len(att) = 2 /\ att[1].d = att[2].l /\ att[1].l = att[2].d /\ att[1].d # att[2].d)
    => LET hi == IF att[1].d > att[1].l THEN att[1].d ELSE att[1].l
           lo == IF att[1].d > att[1].l THEN att[1].l ELSE att[1].d
           w  == IF att[1].d = hi THEN 1 ELSE 2
       IN /\ lo \in DOMAIN active[hi] /\ active[hi][lo] = [gid |-> w, origin |-> "out"]
          /\ hi \in DOMAIN active[lo] /\ active[lo][hi] = [gid |-> w, origin |-> "in"]

(* no further events once quiet is implied by Quiescent (no action enabled) *)

Invariants ==
  /\ Alternate /\ LogMatchesListing /\ NoDeadEntry /\ StoredHasHandler /\ DistinctConnections
  /\ ReplayHolds /\ ReturnedIsListed

-----------------------------------------------------------------------------
(* Liveness (C05 / C09 "eventually").  The environment (who dials, who      *)
(* disconnects, who subscribes, whether a connect timeout fires) is free;   *)
(* what the networks and the transport must do is weakly fair: a delivered  *)
(* handshake step, the manager consuming a finished connecting task, a      *)
(* handler noticing that its connection ended.  Under that fairness every   *)
(* behaviour settles: from some point on nothing changes any more, views    *)
(* are mutual and on the same connection, and no further peer events occur. *)
(* (The "Quiescent => ..." invariants only look at states without a         *)
(* successor; this also rules out cycles that never reach one.)             *)
Att == 1..MaxAtt
On(k, A) == k \in DOMAIN att /\ A
Fairness ==
  /\ \A k \in Att :
        /\ WF_allvars(On(k, ListenerTls(k)))      /\ WF_allvars(On(k, Admit(k)))
        /\ WF_allvars(On(k, Reject(k)))           /\ WF_allvars(On(k, DialerGetsAck(k)))
        /\ WF_allvars(On(k, ListenerConfirmed(k))) /\ WF_allvars(On(k, DialerSeesClose(k)))
        /\ WF_allvars(On(k, ListenerSeesClose(k)))
        /\ \A n \in Nodes : WF_allvars(On(k, HandlerExit(n, k)))
  /\ \A n \in Nodes : WF_allvars(MgrConsume(n))
FairSpec == Spec /\ Fairness

MutualNow ==
  \A a, b \in Nodes :
     /\ (b \in DOMAIN active[a]) <=> (a \in DOMAIN active[b])
     /\ b \in DOMAIN active[a] => active[a][b].gid = active[b][a].gid
NoOrphanNow == \A n \in Nodes : \A k \in handlers[n] :
                 \E p \in DOMAIN active[n] : active[n][p].gid = k
(* eventually for ever: mutual views, no handler without a listed connection *)
EventuallyMutual == <>[](MutualNow /\ NoOrphanNow)
(* and the event streams fall silent *)
EventsCease == <>[][evlog' = evlog]_allvars
(* C05: one dial each way, nothing else: both end on the connection dialed by the greater id *)
ConvergedNow ==
  (Len(att) = 2 /\ att[1].d = att[2].l /\ att[1].l = att[2].d /\ att[1].d # att[2].d)
    => LET hi == IF att[1].d > att[1].l THEN att[1].d ELSE att[1].l
           lo == IF att[1].d > att[1].l THEN att[1].l ELSE att[1].d
           w  == IF att[1].d = hi THEN 1 ELSE 2
       IN /\ lo \in DOMAIN active[hi] /\ active[hi][lo] = [gid |-> w, origin |-> "out"]
          /\ hi \in DOMAIN active[lo] /\ active[lo][hi] = [gid |-> w, origin |-> "in"]
MutualDialDone == Len(att) = 2 /\ att[1].d = att[2].l /\ att[1].l = att[2].d /\ att[1].d # att[2].d
EventuallyConverged == [](MutualDialDone => <>[]ConvergedNow)

=============================================================================
