SPECIFICATION FairSpec
CONSTANTS
  NoLimit = NoLimit
  Nodes = {1, 2}
  Pairs <- AllPairs
  MaxAtt = 2
  MaxDisc = 0
  MaxSubs = 0
  Sequential = FALSE
  Abandons = FALSE
  Timeouts = FALSE
  Limits <- NoLimits
  Affs <- NoAffs
PROPERTY EventuallyMutual
PROPERTY EventsCease
PROPERTY EventuallyConverged
CHECK_DEADLOCK FALSE
