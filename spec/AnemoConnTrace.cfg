SPECIFICATION TraceSpec
CONSTANT NoLimit <- TraceNoLimit
CONSTRAINT TraceInvariants
POSTCONDITION TraceAccepted
CHECK_DEADLOCK FALSE
