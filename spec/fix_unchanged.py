#!/usr/bin/env python3
"""Regenerate the trailing UNCHANGED conjunct of every Tr* action of AnemoConnTrace.tla so that it
lists exactly the variables the action does not assign (the module has ~35 variables; keeping the
frame conditions by hand is error-prone)."""
import re, sys
path = sys.argv[1] if len(sys.argv) > 1 else "/verif/spec/AnemoConnTrace.tla"
src = open(path).read()
CONN = ["active", "evlog", "closedL", "handlers"]
DIAL = ["known", "cfg", "pendingDial", "bgResult", "backoff", "pendingConn"]
m = re.search(r"tvars == <<(.*?)>>", src, re.S)
TV = [v.strip() for v in m.group(1).replace("\n", " ").split(",")]
ALL = CONN + DIAL + TV
HELPERS = {
    "ApAdd(": CONN, "ApRemove(": CONN, "ApRemoveId(": CONN, "Closes(": ["closeT"],
    "NodeInit(": CONN + ["known", "pendingDial", "bgResult", "backoff", "pendingConn", "pendEv", "spawnQ", "subPos", "lastAdd", "replies"],
    "Tick(": DIAL, "BgDialResult(": ["bgResult"], "IsEvent(": ["l", "now"],
}
GROUPS = {"vars": CONN + DIAL, "connVars": CONN, "dialVars": DIAL}
parts = re.split(r"(?m)^(?=Tr\w+ ==)", src)
out = [parts[0]]
for part in parts[1:]:
    name = part.split(" ==")[0]
    # the action body ends at the first blank line or comment/section line
    mend = re.search(r"\n\s*\n|\n\(\*|\n-----", part)
    body, rest = (part[:mend.start()], part[mend.start():]) if mend else (part, "")
    # locate trailing UNCHANGED conjunct at indent 2
    mu = None
    for mu_ in re.finditer(r"\n  /\\ UNCHANGED <<.*?>>", body, re.S):
        mu = mu_
    if mu is None or mu.end() != len(body):
        out.append(part)
        continue
    head = body[:mu.start()]
    assigned = set()
    for v in ALL:
        if re.search(r"(?<![\w.])%s'" % re.escape(v), head):
            assigned.add(v)
    for h, vs in HELPERS.items():
        if re.search(r"(?<!\w)" + re.escape(h), head):
            assigned.update(vs)
    for mi in re.finditer(r"UNCHANGED (<<.*?>>|\w+)", head, re.S):
        for v in re.findall(r"\w+", mi.group(1)):
            assigned.update(GROUPS.get(v, [v]))
    if "l' = l + 1" in head:
        assigned.update(["l"])
    rem = [v for v in ALL if v not in assigned]
    # compress groups
    items = []
    if all(v in rem for v in CONN + DIAL):
        items.append("vars"); rem = [v for v in rem if v not in CONN + DIAL]
    else:
        if all(v in rem for v in CONN):
            items.append("connVars"); rem = [v for v in rem if v not in CONN]
        if all(v in rem for v in DIAL):
            items.append("dialVars"); rem = [v for v in rem if v not in DIAL]
    items += rem
    lines, cur = [], "  /\\ UNCHANGED <<"
    for i, it in enumerate(items):
        tok = it + (", " if i < len(items) - 1 else ">>")
        if len(cur) + len(tok) > 98:
            lines.append(cur.rstrip()); cur = "                 "
        cur += tok
    lines.append(cur)
    out.append(head + "\n" + "\n".join(lines) + rest)
open(path, "w").write("".join(out))
print("rewrote frame conditions of", len(parts) - 1, "actions")
