----------------------------- MODULE AnemoWire -----------------------------
(***************************************************************************)
(* anemo's wire format (crates/anemo/src/network/wire.rs, types/request.rs,*)
(* types/response.rs), as byte sequences:                                  *)
(*                                                                         *)
(*   message  = preamble  frame(header)  frame(body)                       *)
(*   preamble = "anemo" (5 bytes)  version (u16 big endian)  0             *)
(*   frame(x) = length of x (u32 big endian)  x                            *)
(*   request header  = bincode: str(route) map(headers)                    *)
(*   response header = bincode: status (u16 little endian) map(headers)    *)
(*   str(s)  = length (u64 little endian)  utf-8 bytes                     *)
(*   map(h)  = number of entries (u64 little endian) then str(k) str(v)    *)
(*             per entry, in any order                                     *)
(*                                                                         *)
(* The decoder is written as the code runs: read 8 bytes, check them, read *)
(* a frame head, the frame, decode the header, read the second frame.      *)
(* Strings are modelled as their utf-8 byte sequences.                     *)
(***************************************************************************)
EXTENDS Naturals, Sequences, FiniteSets, TLC

ANEMO == <<97, 110, 101, 109, 111>>
ValidStatus == {200, 400, 404, 408, 429, 500, 505, 520}

RECURSIVE LE(_, _)
LE(n, width) == IF width = 0 THEN <<>> ELSE <<n % 256>> \o LE(n \div 256, width - 1)
RECURSIVE BE(_, _)
BE(n, width) == IF width = 0 THEN <<>> ELSE BE(n \div 256, width - 1) \o <<n % 256>>

Preamble(version) == ANEMO \o BE(version, 2) \o <<0>>
Frame(x) == BE(Len(x), 4) \o x
Str(s) == LE(Len(s), 8) \o s

RECURSIVE Concat(_)
Concat(ss) == IF ss = <<>> THEN <<>> ELSE Head(ss) \o Concat(Tail(ss))

(* entries: a sequence of <<key, value>> pairs in the order they are written *)
MapBytes(entries) ==
  LE(Len(entries), 8) \o Concat([i \in 1..Len(entries) |-> Str(entries[i][1]) \o Str(entries[i][2])])

ReqHeader(route, entries) == Str(route) \o MapBytes(entries)
RespHeader(status, entries) == LE(status, 2) \o MapBytes(entries)

EncReq(version, route, entries, body) == Preamble(version) \o Frame(ReqHeader(route, entries)) \o Frame(body)
EncResp(version, status, entries, body) == Preamble(version) \o Frame(RespHeader(status, entries)) \o Frame(body)

-----------------------------------------------------------------------------
(* Decoder.  Results: [ok |-> TRUE, ...fields] or [ok |-> FALSE, why |-> class] *)

Err(why) == [ok |-> FALSE, why |-> why]
RECURSIVE FromLE0(_)
FromLE0(b) == IF b = <<>> THEN 0 ELSE b[1] + 256 * FromLE0(Tail(b))
(* lengths on the wire are 64-bit; anything that does not fit 31 bits is "larger than any message"  *)
(* (TLC's integers are 32-bit: the decoder must stay total on arbitrary bytes)                       *)
Huge == 2147483647
FromLE(b) ==
  IF Len(b) <= 3 THEN FromLE0(b)
  ELSE IF (\E i \in 5..Len(b) : b[i] # 0) \/ b[4] >= 128 THEN Huge
  ELSE FromLE0(SubSeq(b, 1, 4))
RECURSIVE FromBE0(_)
FromBE0(b) == IF b = <<>> THEN 0 ELSE FromBE0(SubSeq(b, 1, Len(b) - 1)) * 256 + b[Len(b)]
FromBE(b) == IF Len(b) = 4 /\ b[1] >= 128 THEN Huge ELSE FromBE0(b)
Drop(b, n) == SubSeq(b, n + 1, Len(b))
Take(b, n) == SubSeq(b, 1, n)

(* UTF-8 validity (RFC 3629), as String::from_utf8 decides it *)
Cont(x) == x >= 128 /\ x <= 191
RECURSIVE Utf8Ok(_)
Utf8Ok(b) ==
  IF b = <<>> THEN TRUE
  ELSE LET x == b[1] n == Len(b) IN
       IF x < 128 THEN Utf8Ok(Tail(b))
       ELSE IF x >= 194 /\ x <= 223 THEN n >= 2 /\ Cont(b[2]) /\ Utf8Ok(Drop(b, 2))
       ELSE IF x = 224 THEN n >= 3 /\ b[2] >= 160 /\ b[2] <= 191 /\ Cont(b[3]) /\ Utf8Ok(Drop(b, 3))
       ELSE IF (x >= 225 /\ x <= 236) \/ x = 238 \/ x = 239
            THEN n >= 3 /\ Cont(b[2]) /\ Cont(b[3]) /\ Utf8Ok(Drop(b, 3))
       ELSE IF x = 237 THEN n >= 3 /\ b[2] >= 128 /\ b[2] <= 159 /\ Cont(b[3]) /\ Utf8Ok(Drop(b, 3))
       ELSE IF x = 240 THEN n >= 4 /\ b[2] >= 144 /\ b[2] <= 191 /\ Cont(b[3]) /\ Cont(b[4]) /\ Utf8Ok(Drop(b, 4))
       ELSE IF x >= 241 /\ x <= 243 THEN n >= 4 /\ Cont(b[2]) /\ Cont(b[3]) /\ Cont(b[4]) /\ Utf8Ok(Drop(b, 4))
       ELSE IF x = 244 THEN n >= 4 /\ b[2] >= 128 /\ b[2] <= 143 /\ Cont(b[3]) /\ Cont(b[4]) /\ Utf8Ok(Drop(b, 4))
       ELSE FALSE

(* [ok, val, rest] *)
ReadStr(b) ==
  IF Len(b) < 8 THEN [ok |-> FALSE]
  ELSE LET n == FromLE(Take(b, 8)) IN
       IF Len(b) - 8 < n THEN [ok |-> FALSE]
       ELSE IF ~Utf8Ok(SubSeq(b, 9, 8 + n)) THEN [ok |-> FALSE]
       ELSE [ok |-> TRUE, val |-> SubSeq(b, 9, 8 + n), rest |-> Drop(b, 8 + n)]

RECURSIVE ReadEntries(_, _, _)
ReadEntries(b, n, acc) ==
  IF n = 0 THEN [ok |-> TRUE, val |-> acc, rest |-> b]
  ELSE LET k == ReadStr(b) IN
       IF ~k.ok THEN [ok |-> FALSE]
       ELSE LET v == ReadStr(k.rest) IN
            IF ~v.ok THEN [ok |-> FALSE]
            ELSE ReadEntries(v.rest, n - 1, Append(acc, <<k.val, v.val>>))

ReadMap(b) ==
  IF Len(b) < 8 THEN [ok |-> FALSE]
  ELSE LET n == FromLE(Take(b, 8)) IN
       IF n > Len(b) THEN [ok |-> FALSE]                 \* cannot possibly fit
       ELSE ReadEntries(Drop(b, 8), n, <<>>)

(* as a map: later duplicates of a key win (HashMap insertion) *)
AsMap(entries) ==
  [k \in {entries[i][1] : i \in DOMAIN entries} |->
     entries[CHOOSE i \in DOMAIN entries :
               entries[i][1] = k /\ \A j \in DOMAIN entries : entries[j][1] = k => j <= i][2]]

ReadPreamble(b) ==
  IF Len(b) < 8 THEN Err("short")
  ELSE IF Take(b, 5) # ANEMO \/ b[8] # 0 THEN Err("magic")
  ELSE IF FromBE(SubSeq(b, 6, 7)) # 1 THEN Err("version")
  ELSE [ok |-> TRUE, version |-> 1, rest |-> Drop(b, 8)]

ReadFrame(b, maxlen) ==
  IF Len(b) < 4 THEN Err("short")
  ELSE LET n == FromBE(Take(b, 4)) IN
       IF n > maxlen THEN Err("toobig")
       ELSE IF Len(b) - 4 < n THEN Err("short")
       ELSE [ok |-> TRUE, val |-> SubSeq(b, 5, 4 + n), rest |-> Drop(b, 4 + n)]

MaxFrame == 8388608

DecReq(b) ==
  LET p == ReadPreamble(b) IN
  IF ~p.ok THEN p
  ELSE LET h == ReadFrame(p.rest, MaxFrame) IN
       IF ~h.ok THEN h
       ELSE LET r == ReadStr(h.val) IN
            IF ~r.ok THEN Err("header")
            ELSE LET m == ReadMap(r.rest) IN
                 IF ~m.ok THEN Err("header")
                 ELSE LET bd == ReadFrame(h.rest, MaxFrame) IN
                      IF ~bd.ok THEN bd
                      ELSE [ok |-> TRUE, version |-> 1, route |-> r.val, headers |-> AsMap(m.val), body |-> bd.val]

DecResp(b) ==
  LET p == ReadPreamble(b) IN
  IF ~p.ok THEN p
  ELSE LET h == ReadFrame(p.rest, MaxFrame) IN
       IF ~h.ok THEN h
       ELSE IF Len(h.val) < 2 THEN Err("header")
       ELSE LET st == FromLE(Take(h.val, 2))
                m == ReadMap(Drop(h.val, 2))
            IN
            IF ~m.ok THEN Err("header")
            ELSE IF st \notin ValidStatus THEN Err("status")
            ELSE LET bd == ReadFrame(h.rest, MaxFrame) IN
                 IF ~bd.ok THEN bd
                 ELSE [ok |-> TRUE, version |-> 1, status |-> st, headers |-> AsMap(m.val), body |-> bd.val]
=============================================================================
