SPECIFICATION Spec
CONSTANT MaxOps = 4
INVARIANT ExactlyOne
INVARIANT Emit
CHECK_DEADLOCK FALSE
