------------------------------ MODULE MC_Dial ------------------------------
(***************************************************************************)
(* Background dialing (C13): AnemoConn's Tick, driven by a discrete clock, *)
(* with peers that become reachable and unreachable.  One dialing network  *)
(* n; the dial tasks are abstracted to "succeeds one time unit after it    *)
(* started if the address dialed answers then, otherwise fails when the    *)
(* connect timeout elapses"; a registered connection is lost when its peer *)
(* becomes unreachable.                                                    *)
(*                                                                         *)
(* History variables record every dial (who, when, which address, after    *)
(* how many failures) and when each failure was noticed, so the properties *)
(* are stated over what happened rather than over the guard that produced  *)
(* it.                                                                     *)
(***************************************************************************)
EXTENDS AnemoConn, SequencesExt

CONSTANTS
  Me,            \* the dialing network
  Peers,         \* every identity that may appear in the known-peer table (may include Me)
  KnownTable,    \* KnownTable[p] = [aff, addrs]: addrs is a sequence of "live" / "dead"
  Interval, Step, MaxB, Cto, Cap,
  MaxTime,
  MaxFlips       \* how often reachability may change

VARIABLES
  now,
  nextTick,
  reach,        \* reach[p]: does p answer on its live addresses
  dialing,      \* dialing[p]: [t0, live]: a dial in progress
  dialLog,      \* history: sequence of [p, t, idx, k]
  noticed,      \* noticed[p]: [t, k]: when the k-th consecutive failure was noticed
  reachSince,   \* reachSince[p]: since when p has been continuously reachable and not connected
                \*   with no attempt in flight (-1: n/a)
  flips

mvars == <<now, nextTick, reach, dialing, dialLog, noticed, reachSince, flips>>
allvars == <<vars, mvars>>

N == Me

(* known-peer tables selected in the .cfg files *)
KT1 == [p \in Peers |->
          CASE p = 1 -> [aff |-> "High", addrs |-> <<"live">>]            \* the node itself
            [] p = 2 -> [aff |-> "High", addrs |-> <<"dead", "live">>]
            [] p = 3 -> [aff |-> "Allowed", addrs |-> <<"live">>]
            [] OTHER -> [aff |-> "High", addrs |-> <<>>]]                  \* no address
KT2 == [p \in Peers |->
          CASE p = 1 -> [aff |-> "Never", addrs |-> <<"live">>]
            [] p = 2 -> [aff |-> "High", addrs |-> <<"live", "dead">>]
            [] OTHER -> [aff |-> "High", addrs |-> <<"live">>]]

Init ==
  /\ active      = (N :> <<>>)
  /\ evlog       = (N :> <<>>)
  /\ closedL     = (N :> {})
  /\ handlers    = (N :> {})
  /\ known       = (N :> [p \in {q \in Peers : KnownTable[q].aff # "None"} |-> KnownTable[p]])
  /\ cfg         = (N :> [limit |-> NoLimit, interval |-> Interval, step |-> Step, maxb |-> MaxB,
                          cto |-> Cto, cap |-> Cap])
  /\ pendingDial = (N :> {})
  /\ bgResult    = (N :> <<>>)
  /\ backoff     = (N :> <<>>)
  /\ pendingConn = (N :> 0)
  /\ now = 0 /\ nextTick = 0
  /\ reach \in [Peers \ {N} -> BOOLEAN]
  /\ dialing = <<>> /\ dialLog = <<>> /\ noticed = <<>> /\ flips = 0
  /\ reachSince = [p \in Peers \ {N} |-> -1]

Connected(p) == p \in DOMAIN active[N]

(* the address the next dial to p would use answers *)
NextAddrLive(p) ==
  /\ p \in DOMAIN known[N] /\ known[N][p].addrs # <<>>
  /\ known[N][p].addrs[AddrIndex(N, p, backoff[N])] = "live"

UpdateReachSince ==
  reachSince' = [p \in Peers \ {N} |->
     IF /\ p \in DOMAIN known'[N] /\ known'[N][p].aff = "High" /\ known'[N][p].addrs # <<>>
        /\ reach'[p] /\ p \notin DOMAIN active'[N] /\ p \notin DOMAIN dialing'
        /\ known'[N][p].addrs[AddrIndex(N, p, backoff'[N])] = "live"
     THEN (IF reachSince[p] >= 0 THEN reachSince[p] ELSE now')
     ELSE -1]

(* the connectivity check fires when due *)
TickFire ==
  /\ now = nextTick
  /\ \E D \in SUBSET Eligible(N, now) :
       /\ Tick(N, now, D)
       /\ dialing' = [p \in DOMAIN dialing \cup D |->
                        IF p \in D
                        THEN [t0 |-> now,
                              live |-> known[N][p].addrs[AddrIndex(N, p, BackoffAfterDrain(N, now))] = "live"]
                        ELSE dialing[p]]
       /\ dialLog' = dialLog \o
            SetToSeq({[p |-> p, t |-> now,
                       idx |-> AddrIndex(N, p, BackoffAfterDrain(N, now)),
                       k |-> IF p \in DOMAIN BackoffAfterDrain(N, now)
                             THEN BackoffAfterDrain(N, now)[p].attempts ELSE 0] : p \in D})
  /\ noticed' = [p \in (DOMAIN noticed \cup {q \in Drained(N) : bgResult[N][q] = "err"})
                      \ {q \in Drained(N) : bgResult[N][q] = "ok"} |->
                   IF p \in Drained(N) /\ bgResult[N][p] = "err"
                   THEN [t |-> now, k |-> Attempts(N, p) + 1]
                   ELSE noticed[p]]
  /\ nextTick' = nextTick + Interval
  /\ UNCHANGED <<connVars, now, reach, flips>>
  /\ UpdateReachSince

(* a dial succeeds: handshake done, the manager registers the connection and fills the oneshot *)
DialOk(p) ==
  /\ p \in DOMAIN dialing /\ dialing[p].live /\ reach[p] /\ now >= dialing[p].t0 + 1
  /\ ApAdd(N, p, Len(dialLog) * 10 + p, "out")
  /\ BgDialResult(N, p, TRUE)
  /\ pendingConn' = [pendingConn EXCEPT ![N] = @ - 1]
  /\ dialing' = Without(dialing, p)
  /\ UNCHANGED <<known, cfg, pendingDial, backoff, now, nextTick, reach, dialLog, noticed, flips>>
  /\ UpdateReachSince

(* a dial fails when the connect timeout elapses *)
DialFail(p) ==
  /\ p \in DOMAIN dialing /\ now >= dialing[p].t0 + Cto
  /\ ~(dialing[p].live /\ reach[p])
  /\ BgDialResult(N, p, FALSE)
  /\ pendingConn' = [pendingConn EXCEPT ![N] = @ - 1]
  /\ dialing' = Without(dialing, p)
  /\ UNCHANGED <<connVars, known, cfg, pendingDial, backoff, now, nextTick, reach, dialLog, noticed, flips>>
  /\ UpdateReachSince

(* reachability changes; a registered connection to a peer that went away is lost *)
Flip(p) ==
  /\ flips < MaxFlips
  /\ reach' = [reach EXCEPT ![p] = ~@]
  /\ flips' = flips + 1
  /\ IF reach[p] /\ Connected(p)
     THEN ApRemoveId(N, p, active[N][p].gid, "TimedOut")
     ELSE UNCHANGED connVars
  /\ UNCHANGED <<dialVars, now, nextTick, dialing, dialLog, noticed>>
  /\ UpdateReachSince

(* time passes, but never past a due tick or a due dial completion *)
Advance ==
  /\ now < MaxTime
  /\ now < nextTick
  /\ \A p \in DOMAIN dialing :
        /\ (dialing[p].live /\ reach[p]) => now < dialing[p].t0 + 1
        /\ ~(dialing[p].live /\ reach[p]) => now < dialing[p].t0 + Cto
  /\ now' = now + 1
  /\ UNCHANGED <<vars, nextTick, reach, dialing, dialLog, noticed, flips>>
  /\ UpdateReachSince

Next ==
  \/ TickFire \/ Advance
  \/ \E p \in Peers \ {N} : DialOk(p) \/ DialFail(p) \/ Flip(p)

Spec == Init /\ [][Next]_allvars

-----------------------------------------------------------------------------
(* Properties (C13) *)

Dials == {dialLog[i] : i \in DOMAIN dialLog}

(* never itself, Allowed / Never peers, peers without addresses *)
NeverDialed ==
  \A d \in Dials :
     /\ d.p # N
     /\ KnownTable[d.p].aff = "High"
     /\ KnownTable[d.p].addrs # <<>>

(* nor peers already connected or already being dialed (checked when the dial starts) *)
NoDialWhileConnectedOrPending ==
  [][\A p \in Peers \ {N} :
       (p \in DOMAIN dialing' /\ p \notin DOMAIN dialing) =>
          (p \notin DOMAIN active[N] /\ p \notin pendingDial[N] \ Drained(N))]_allvars

(* after k consecutive failures the next attempt comes later than noticed + min(max, k*step) *)
BackoffOf(k) == IF k * Step < MaxB THEN k * Step ELSE MaxB

Spacing ==
  \A i \in DOMAIN dialLog :
     LET d == dialLog[i] IN
     d.k > 0 =>
        \E j \in 1..(i - 1) :
           /\ dialLog[j].p = d.p
           /\ dialLog[j].k = d.k - 1
           /\ d.t > dialLog[j].t + BackoffOf(d.k)   \* noticed no earlier than the failed dial started

(* stronger form, using when the failure was noticed *)
SpacingFromNotice ==
  \A p \in DOMAIN noticed : \A d \in Dials :
     (d.p = p /\ d.k = noticed[p].k /\ d.t >= noticed[p].t) => d.t > noticed[p].t + BackoffOf(noticed[p].k)

(* attempts rotate through the addresses in order *)
Rotation == \A d \in Dials : d.idx = (d.k % Len(KnownTable[d.p].addrs)) + 1

(* no dial is started while the number of connections being established is at the cap *)
CapRespected == pendingConn[N] <= (IF Cap > 0 THEN Cap ELSE 0)

(* a reachable peer is connected within one interval + connect time when there were no
   failures, and within min(max, k*step) + 2 intervals after k failures *)
ConnectsWithin ==
  \A p \in Peers \ {N} :
     reachSince[p] >= 0 =>
        LET k == Attempts(N, p)
            bound == IF k = 0 THEN Interval + 1 ELSE BackoffOf(k) + 2 * Interval + 1
        IN now - reachSince[p] <= bound

Invariants == NeverDialed /\ Spacing /\ SpacingFromNotice /\ Rotation /\ CapRespected /\ Alternate
              /\ LogMatchesListing

=============================================================================
