--------------------------- MODULE TieBreakTable ---------------------------
(* Decision table of the simultaneous-dial tie-break, emitted for replay into *)
(* the real function, plus the order-independence lemma checked by TLC:       *)
(* whatever order the two connections of a mutual dial are registered in,     *)
(* each side keeps the one dialed by the greater identity.                    *)
EXTENDS Naturals, TLC, Json, Sequences

Ids == 1..3
Origins == {"in", "out"}

TieBreak(own, remote, existing, new) ==
  CASE existing = "in"  /\ new = "in"  -> TRUE
    [] existing = "out" /\ new = "out" -> TRUE
    [] existing = "in"  /\ new = "out" -> remote < own
    [] existing = "out" /\ new = "in"  -> own < remote

Rows == {[own |-> p[1], remote |-> p[2], existing |-> e, new |-> n,
          drop_existing |-> TieBreak(p[1], p[2], e, n)] :
           p \in {q \in Ids \X Ids : q[1] # q[2]}, e \in Origins, n \in Origins}

(* the connection a side keeps after seeing first f then s *)
Kept(own, remote, f, s) == IF TieBreak(own, remote, f, s) THEN s ELSE f

(* "out" on the greater side and "in" on the lesser side denote the same connection *)
OrderIndependent ==
  \A a \in Ids : \A b \in Ids \ {a} :
     /\ Kept(a, b, "in", "out") = Kept(a, b, "out", "in")
     /\ Kept(a, b, "in", "out") = (IF a > b THEN "out" ELSE "in")

ASSUME OrderIndependent
ASSUME PrintT(<<"TABLE", "tiebreak", ToJson(Rows)>>)
=============================================================================
