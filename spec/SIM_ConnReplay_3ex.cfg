SPECIFICATION SpecR
CONSTANTS
  NoLimit = NoLimit
  Nodes = {1, 2, 3}
  Pairs <- AllPairs
  MaxAtt = 2
  MaxDisc = 0
  MaxSubs = 0
  Sequential = FALSE
  Abandons = FALSE
  Timeouts = FALSE
  Limits <- NoLimits
  Affs <- NoAffs
  Depth = 40
INVARIANT Invariants
INVARIANT Emit
CONSTRAINT DepthBound
CHECK_DEADLOCK FALSE
