SPECIFICATION Spec
CONSTRAINT TraceInvariants
POSTCONDITION TraceAccepted
CHECK_DEADLOCK FALSE
