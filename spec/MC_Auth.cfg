SPECIFICATION Spec
CONSTANTS
  Reqs = {1, 2, 3}
  Depth = 0
INVARIANT Iff
INVARIANT RefusedNeverInside
VIEW View
CHECK_DEADLOCK FALSE
