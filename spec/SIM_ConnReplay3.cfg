SPECIFICATION SpecR
CONSTANTS
  NoLimit = NoLimit
  Nodes = {1, 2, 3}
  Pairs <- AllPairs
  MaxAtt = 4
  MaxDisc = 2
  MaxSubs = 1
  Sequential = FALSE
  Abandons = TRUE
  Timeouts = FALSE
  Limits <- C10Limits
  Affs <- C10Affs
  Depth = 80
INVARIANT Invariants
INVARIANT Emit
CONSTRAINT DepthBound
CHECK_DEADLOCK FALSE
