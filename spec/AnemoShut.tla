------------------------------ MODULE AnemoShut ------------------------------
(***************************************************************************)
(* The shutdown sequence of the connection manager                          *)
(* (crates/anemo/src/network/connection_manager.rs, shutdown()) together    *)
(* with the teardown of the async runtime at any moment: tokio drops tasks  *)
(* in any order; a task that is dropped never runs its remaining code.      *)
(*                                                                          *)
(*   close endpoint -> abort pending connecting tasks -> join the           *)
(*   connection handlers -> deregister what cancelled handlers left behind  *)
(*   -> bounded wait for the endpoint to drain -> rebind -> the manager's   *)
(*   state is dropped (mailbox first, its clone of the service last)        *)
(*   -> reply                                                               *)
(*                                                                          *)
(* A handler that sees its connection end deregisters its peer (and sends   *)
(* LostPeer); a handler that is cancelled does not.                         *)
(***************************************************************************)
EXTENDS Naturals, FiniteSets, TLC

CONSTANTS Handlers, Teardown     \* Teardown: may the runtime be torn down

Mgr == 0      \* the manager as a holder of a service clone (0 is not a handler)

VARIABLES mgr, hs, act, rt, panicked, replied, lostSent,
          svc,    \* who holds a clone of the user's service: Mgr and handlers (for their in-flight requests)
          mbox    \* the manager's mailbox: "open" | "closed" (what Sender::closed() observes)
vars == <<mgr, hs, act, rt, panicked, replied, lostSent, svc, mbox>>

Init == /\ mgr = "running" /\ hs = [h \in Handlers |-> "alive"] /\ act = Handlers /\ rt = "up"
        /\ panicked = FALSE /\ replied = FALSE /\ lostSent = {}
        /\ svc = Handlers \cup {Mgr} /\ mbox = "open"

Up == rt = "up"

ShutBegin == Up /\ mgr = "running" /\ mgr' = "closed" /\ UNCHANGED <<hs, act, rt, panicked, replied, lostSent, svc, mbox>>
AbortPending == Up /\ mgr = "closed" /\ mgr' = "joining" /\ UNCHANGED <<hs, act, rt, panicked, replied, lostSent, svc, mbox>>

(* the endpoint is closed: the handler's accept calls fail with LocallyClosed *)
HandlerExit(h) ==
  /\ Up /\ hs[h] = "alive" /\ mgr # "running"
  /\ hs' = [hs EXCEPT ![h] = "exited"] /\ act' = act \ {h} /\ lostSent' = lostSent \cup {h}
  /\ svc' = svc \ {h}          \* its in-flight request tasks were aborted and awaited
  /\ UNCHANGED <<mgr, rt, panicked, replied, mbox>>

Joined ==
  /\ Up /\ mgr = "joining" /\ \A h \in Handlers : hs[h] # "alive"
  /\ mgr' = "cleanup"
  /\ UNCHANGED <<hs, act, rt, panicked, replied, lostSent, svc, mbox>>

(* deregister what cancelled handlers left behind *)
Cleanup ==
  /\ mgr = "cleanup"
  /\ lostSent' = lostSent \cup act /\ act' = {} /\ mgr' = "draining"
  /\ UNCHANGED <<hs, rt, panicked, replied, svc, mbox>>

(* shutdown(self) returns: the manager's fields are dropped in declaration order - the mailbox *)
(* early, the clone of the service last - and only then is the caller of shutdown() answered   *)
Drained == Up /\ mgr = "draining" /\ mgr' = "dropping" /\ mbox' = "closed"
           /\ UNCHANGED <<hs, act, rt, panicked, replied, lostSent, svc>>
DropState == mgr = "dropping" /\ mgr' = "dropped" /\ svc' = svc \ {Mgr}
           /\ UNCHANGED <<hs, act, rt, panicked, replied, lostSent, mbox>>
Reply == Up /\ mgr = "dropped" /\ mgr' = "done" /\ replied' = TRUE
           /\ UNCHANGED <<hs, act, rt, panicked, lostSent, svc, mbox>>

(* the runtime goes away: tasks are dropped in any order; joining a cancelled handler *)
(* completes (with a cancellation error), so the manager may still get to run a step  *)
RuntimeDown == Teardown /\ Up /\ rt' = "down" /\ UNCHANGED <<mgr, hs, act, panicked, replied, lostSent, svc, mbox>>
HandlerCancelled(h) == rt = "down" /\ hs[h] = "alive" /\ hs' = [hs EXCEPT ![h] = "cancelled"] /\ svc' = svc \ {h}
                       /\ UNCHANGED <<mgr, act, rt, panicked, replied, lostSent, mbox>>
MgrCancelled == rt = "down" /\ mgr \in {"running", "closed", "joining", "draining"} /\ mgr' = "cancelled"
                /\ UNCHANGED <<hs, act, rt, panicked, replied, lostSent, svc, mbox>>
(* the manager is mid-poll on another worker while the runtime shuts down: it observes the *)
(* cancelled handlers through join_next and carries on synchronously                       *)
JoinedDuringTeardown ==
  /\ rt = "down" /\ mgr = "joining" /\ \A h \in Handlers : hs[h] # "alive"
  /\ mgr' = "cleanup"
  /\ UNCHANGED <<hs, act, rt, panicked, replied, lostSent, svc, mbox>>

Next == ShutBegin \/ AbortPending \/ Joined \/ Cleanup \/ Drained \/ DropState \/ Reply \/ RuntimeDown \/ MgrCancelled \/ JoinedDuringTeardown
        \/ \E h \in Handlers : HandlerExit(h) \/ HandlerCancelled(h)
Spec == Init /\ [][Next]_vars

NoPanic == ~panicked
(* once the manager has passed the join, nothing is registered any more, and every peer that *)
(* was registered had its LostPeer sent                                                       *)
Released == mgr \in {"draining", "dropping", "dropped", "done"} => (act = {} /\ lostSent = Handlers)
RepliedOnlyWhenDone == replied => mgr = "done"
(* when shutdown() returns no clone of the user's service is left and the mailbox is closed *)
ServiceReleased == replied => (svc = {} /\ mbox = "closed")
Invariants == NoPanic /\ Released /\ RepliedOnlyWhenDone /\ ServiceReleased
-----------------------------------------------------------------------------
(* Liveness (C08 "always completes ... neither panics nor hangs").  Every   *)
(* step of the manager and of the handlers is weakly fair; whether and when *)
(* shutdown is requested and the runtime is torn down is up to the          *)
(* environment.  Once shutdown was requested it is answered unless the      *)
(* runtime goes away first, and once the runtime is gone every task comes   *)
(* to rest (nothing is left waiting for something that cannot happen).      *)
Fairness ==
  /\ WF_vars(AbortPending) /\ WF_vars(Joined) /\ WF_vars(Cleanup) /\ WF_vars(Drained)
  /\ WF_vars(DropState) /\ WF_vars(Reply) /\ WF_vars(MgrCancelled) /\ WF_vars(JoinedDuringTeardown)
  /\ \A h \in Handlers : WF_vars(HandlerExit(h)) /\ WF_vars(HandlerCancelled(h))
FairSpec == Spec /\ Fairness

ShutdownCompletes == (mgr # "running") ~> (replied \/ rt = "down")
AtRest == /\ mgr \in {"done", "cancelled", "dropped"}
          /\ \A h \in Handlers : hs[h] # "alive"
          /\ svc \subseteq {Mgr}
TeardownComesToRest == (rt = "down") ~> []AtRest
ShutdownComesToRest == (mgr # "running") ~> [](AtRest /\ (rt = "up" => act = {} /\ svc = {}))
=============================================================================
