------------------------------ MODULE AnemoShut ------------------------------
(***************************************************************************)
(* The shutdown sequence of the connection manager                          *)
(* (crates/anemo/src/network/connection_manager.rs, shutdown()) together    *)
(* with the teardown of the async runtime at any moment: tokio drops tasks  *)
(* in any order; a task that is dropped never runs its remaining code.      *)
(*                                                                          *)
(*   close endpoint -> abort pending connecting tasks -> join the           *)
(*   connection handlers -> deregister what cancelled handlers left behind  *)
(*   -> bounded wait for the endpoint to drain -> rebind -> reply           *)
(*                                                                          *)
(* A handler that sees its connection end deregisters its peer (and sends   *)
(* LostPeer); a handler that is cancelled does not.                         *)
(***************************************************************************)
EXTENDS Naturals, FiniteSets, TLC

CONSTANTS Handlers, Teardown     \* Teardown: may the runtime be torn down

VARIABLES mgr, hs, act, rt, panicked, replied, lostSent
vars == <<mgr, hs, act, rt, panicked, replied, lostSent>>

Init == /\ mgr = "running" /\ hs = [h \in Handlers |-> "alive"] /\ act = Handlers /\ rt = "up"
        /\ panicked = FALSE /\ replied = FALSE /\ lostSent = {}

Up == rt = "up"

ShutBegin == Up /\ mgr = "running" /\ mgr' = "closed" /\ UNCHANGED <<hs, act, rt, panicked, replied, lostSent>>
AbortPending == Up /\ mgr = "closed" /\ mgr' = "joining" /\ UNCHANGED <<hs, act, rt, panicked, replied, lostSent>>

(* the endpoint is closed: the handler's accept calls fail with LocallyClosed *)
HandlerExit(h) ==
  /\ Up /\ hs[h] = "alive" /\ mgr # "running"
  /\ hs' = [hs EXCEPT ![h] = "exited"] /\ act' = act \ {h} /\ lostSent' = lostSent \cup {h}
  /\ UNCHANGED <<mgr, rt, panicked, replied>>

Joined ==
  /\ Up /\ mgr = "joining" /\ \A h \in Handlers : hs[h] # "alive"
  /\ mgr' = "cleanup"
  /\ UNCHANGED <<hs, act, rt, panicked, replied, lostSent>>

(* deregister what cancelled handlers left behind *)
Cleanup ==
  /\ mgr = "cleanup"
  /\ lostSent' = lostSent \cup act /\ act' = {} /\ mgr' = "draining"
  /\ UNCHANGED <<hs, rt, panicked, replied>>

Drained == Up /\ mgr = "draining" /\ mgr' = "done" /\ replied' = TRUE
           /\ UNCHANGED <<hs, act, rt, panicked, lostSent>>

(* the runtime goes away: tasks are dropped in any order; joining a cancelled handler *)
(* completes (with a cancellation error), so the manager may still get to run a step  *)
RuntimeDown == Teardown /\ Up /\ rt' = "down" /\ UNCHANGED <<mgr, hs, act, panicked, replied, lostSent>>
HandlerCancelled(h) == rt = "down" /\ hs[h] = "alive" /\ hs' = [hs EXCEPT ![h] = "cancelled"]
                       /\ UNCHANGED <<mgr, act, rt, panicked, replied, lostSent>>
MgrCancelled == rt = "down" /\ mgr \in {"running", "closed", "joining", "draining"} /\ mgr' = "cancelled"
                /\ UNCHANGED <<hs, act, rt, panicked, replied, lostSent>>
(* the manager is mid-poll on another worker while the runtime shuts down: it observes the *)
(* cancelled handlers through join_next and carries on synchronously                       *)
JoinedDuringTeardown ==
  /\ rt = "down" /\ mgr = "joining" /\ \A h \in Handlers : hs[h] # "alive"
  /\ mgr' = "cleanup"
  /\ UNCHANGED <<hs, act, rt, panicked, replied, lostSent>>

Next == ShutBegin \/ AbortPending \/ Joined \/ Cleanup \/ Drained \/ RuntimeDown \/ MgrCancelled \/ JoinedDuringTeardown
        \/ \E h \in Handlers : HandlerExit(h) \/ HandlerCancelled(h)
Spec == Init /\ [][Next]_vars

NoPanic == ~panicked
(* once the manager has passed the join, nothing is registered any more, and every peer that *)
(* was registered had its LostPeer sent                                                       *)
Released == mgr \in {"draining", "done"} => (act = {} /\ lostSent = Handlers)
RepliedOnlyWhenDone == replied => mgr = "done"
Invariants == NoPanic /\ Released /\ RepliedOnlyWhenDone
=============================================================================
