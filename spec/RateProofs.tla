----------------------------- MODULE RateProofs -----------------------------
(* TLAPS proof of RateProof: Spec => []WindowBound, for any T >= 1, Tau, clock and arrivals. *)
EXTENDS RateProof, TLAPS

LEMMA InitInv == Init => Inv
  BY ConstAssump DEF Init, Inv, TypeOK, Ahead, WindowBound

LEMMA NextInv == Inv /\ [Next]_vars => Inv'
<1> SUFFICES ASSUME Inv, [Next]_vars PROVE Inv'
  OBVIOUS
<1> USE ConstAssump DEF Inv, TypeOK, Ahead, WindowBound, Max2
<1>1. CASE Tick
  BY <1>1 DEF Tick
<1>2. CASE StartWindow
  BY <1>2 DEF StartWindow
<1>3. CASE Admit
  BY <1>3 DEF Admit
<1>4. CASE Refuse
  BY <1>4 DEF Refuse, vars
<1>5. CASE UNCHANGED vars
  BY <1>5 DEF vars
<1> QED
  BY <1>1, <1>2, <1>3, <1>4, <1>5 DEF Next

THEOREM Safety == Spec => []WindowBound
<1>1. Inv => WindowBound
  BY DEF Inv
<1> QED
  BY InitInv, NextInv, <1>1, PTL DEF Spec
=============================================================================
