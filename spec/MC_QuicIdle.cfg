SPECIFICATION Spec
CONSTANTS
  Idle = 6
  KeepAlive = 0
  BasePto = 1
  MaxBackoff = 2
  Cut = 5
  MaxTime = 30
INVARIANT Bound1
INVARIANT Bound2
INVARIANT KeepAliveBound
CHECK_DEADLOCK FALSE
