
