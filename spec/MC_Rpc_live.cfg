SPECIFICATION FairSpec
CONSTANTS
  Calls = {1, 2, 3}
  Credit = 2
  MayLose = TRUE
  Hangs = {1}
  Hostile = {}
PROPERTY OpenCallEnds
PROPERTY WaitingCallEnds
PROPERTY AbandonedHandlerDropped
PROPERTY CreditComesBack
CHECK_DEADLOCK FALSE
