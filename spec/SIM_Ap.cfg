SPECIFICATION Spec
CONSTANTS
  NoLimit <- MCNoLimit
  Own = 2
  PeerOfGid <- Gids8
  MaxSubs = 2
  Depth = 16
INVARIANT Invariants
INVARIANT Emit
CONSTRAINT DepthBound
CHECK_DEADLOCK FALSE
