--------------------------- MODULE AnemoIdentity ---------------------------
(***************************************************************************)
(* Symbolic model of how anemo authenticates peers (crates/anemo/src/      *)
(* crypto.rs, config.rs, connection.rs): TLS 1.3 with mandatory client     *)
(* certificates; every certificate is self-signed with an Ed25519 key and  *)
(* carries the network name as its subject alternative name; the PeerId is *)
(* the public key of the first certificate of the chain.                   *)
(*                                                                         *)
(* Perfect cryptography (Dolev-Yao): a signature by key k can only be made *)
(* by a party holding k.  A certificate is a record                         *)
(*   [subj: key in the SPKI, signer: key that signed it,                   *)
(*    san: a network name, or "absent" (no SAN extension), "iponly" (an IP *)
(*         address and no DNS name), "garbled" (a SAN extension that does  *)
(*         not parse as names),                                            *)
(*    alg: "ed25519" | "other", validity: "ok" | "expired" | "notyet",     *)
(*    wf: well-formed DER,                                                  *)
(*    decoy: "none" or a key whose complete SubjectPublicKeyInfo encoding  *)
(*         is planted elsewhere in the certificate (serial number, private *)
(*         extension) - bytes are free, only the SPKI field is the key]    *)
(* and a handshake presents a chain (first element = end entity) plus a    *)
(* proof: the key that signed the TLS CertificateVerify message.           *)
(***************************************************************************)
EXTENDS Naturals, FiniteSets, Sequences, TLC, Json

Keys == {"X", "Y", "E"}           \* honest X, honest Y, adversary E
Names == {"n1", "n2", "n3"}
AdvHolds == {"E"}

Algs == {"ed25519", "other"}
Validities == {"ok", "expired", "notyet"}

SanKinds == Names \cup {"absent", "iponly", "garbled"}
Certs == [subj : Keys, signer : Keys, san : SanKinds, alg : Algs, validity : Validities, wf : BOOLEAN,
          decoy : Keys \cup {"none"}]

(* what webpki + anemo's verifiers accept as an end-entity certificate *)
CertOk(c) ==
  /\ c.wf /\ c.alg = "ed25519" /\ c.validity = "ok"
  /\ c.signer = c.subj                      \* the end entity is its own trust anchor

(* the TLS signature check: CertificateVerify must verify under the end entity's key.  A proof *)
(* is the key that really signed it, or "junk": bytes that are not a signature by any key,      *)
(* whatever signature scheme they are labelled with                                              *)
Proofs == Keys \cup {"junk"}
SigOk(c, proof) == c.alg = "ed25519" /\ proof = c.subj

(* the dialer's verifier (CertVerifier::verify_server_cert, optionally pinned) *)
ServerAccept(dialerNames, pin, c, dialled, proof) ==
  /\ (pin # "none" => c.wf /\ c.alg = "ed25519" /\ c.subj = pin)    \* the pin is compared first
  /\ CertOk(c)
  /\ dialled \in dialerNames
  /\ c.san = dialled
  /\ SigOk(c, proof)

(* the listener: the certificate it serves is selected by the SNI; the client's certificate  *)
(* must be valid for any name the listener accepts                                            *)
ClientAccept(listenerNames, sni, c, proof) ==
  /\ sni \in listenerNames
  /\ CertOk(c)
  /\ c.san \in listenerNames
  /\ SigOk(c, proof)

Attributed(c) == c.subj

(* which certificates / proofs can the adversary present?  Any certificate signed by a key it  *)
(* holds (over any subject key - public keys are public), and any honest party's certificate   *)
(* replayed; proofs only with keys it holds.                                                    *)
HonestCert(k, n) == [subj |-> k, signer |-> k, san |-> n, alg |-> "ed25519", validity |-> "ok", wf |-> TRUE, decoy |-> "none"]
AdvCerts == {c \in Certs : c.signer \in AdvHolds} \cup {HonestCert(k, n) : k \in Keys \ AdvHolds, n \in Names}
AdvProofs == AdvHolds \cup {"junk"}

(* C01 Authentic: whatever the adversary presents, as dialer or as listener, whatever the      *)
(* honest side's configuration, an accepted handshake attributes an identity whose key the     *)
(* adversary holds                                                                              *)
AuthenticAsDialer ==
  \A names \in SUBSET Names \ {{}} : \A sni \in Names : \A c \in AdvCerts : \A p \in AdvProofs :
     ClientAccept(names, sni, c, p) => Attributed(c) \in AdvHolds
AuthenticAsListener ==
  \A n \in Names : \A pin \in Keys \cup {"none"} : \A c \in AdvCerts : \A p \in AdvProofs :
     ServerAccept({n}, pin, c, n, p) => (Attributed(c) \in AdvHolds /\ (pin # "none" => pin \in AdvHolds))

(* C14: honest endpoints connect iff the dialer's primary name is one the listener accepts *)
Connectable(dPrimary, lNames) == dPrimary \in lNames
HonestConnects ==
  \A d \in Names : \A lnames \in SUBSET Names \ {{}} : \A sni \in {d} :
     LET dc == HonestCert("X", d) IN
     \* the listener serves the certificate for the SNI it was asked for, when it has one
     (ClientAccept(lnames, sni, dc, "X") /\ ServerAccept({d}, "none", HonestCert("Y", sni), d, "Y"))
        <=> Connectable(d, lnames)

(* C14: a dialer that claims an accepted network name in the TLS hello while presenting a  *)
(* certificate issued for a name the listener does not accept is rejected                  *)
NameMismatchRejected ==
  \A lnames \in SUBSET Names \ {{}, Names} : \A sni \in lnames : \A k \in Keys : \A n \in Names \ lnames :
     ~ClientAccept(lnames, sni, HonestCert(k, n), k)

ASSUME NameMismatchRejected
ASSUME AuthenticAsDialer
ASSUME AuthenticAsListener
ASSUME HonestConnects

-----------------------------------------------------------------------------
(* Tables for replay into the real verifiers / real handshakes *)

(* verifier level: every certificate record x proof x configuration *)
ClientRows ==
  {[names |-> names, cert |-> c, expect |-> (CertOk(c) /\ c.san \in names)] :
     names \in {{"n1"}, {"n1", "n2"}},
     c \in {x \in Certs : x.subj \in {"X", "E"} /\ x.signer \in {"X", "E"} /\ x.san \in {"n1", "n2", "n3", "absent", "iponly", "garbled"}
                           /\ x.decoy \in {"none", "X", "Y"} /\ (x.decoy # "none" => x.wf /\ x.alg = "ed25519" /\ x.validity = "ok")}}
ServerRows ==
  {[name |-> "n1", pin |-> pin, dialled |-> dn, cert |-> c,
    expect |-> ((pin # "none" => c.wf /\ c.alg = "ed25519" /\ c.subj = pin) /\ CertOk(c) /\ dn = "n1" /\ c.san = dn)] :
     pin \in {"none", "X", "E"}, dn \in {"n1", "n2"},
     c \in {x \in Certs : x.subj \in {"X", "E"} /\ x.signer \in {"X", "E"} /\ x.san \in {"n1", "n2", "absent", "iponly", "garbled"}
                           /\ x.decoy \in {"none", "X", "Y"} /\ (x.decoy # "none" => x.wf /\ x.alg = "ed25519" /\ x.validity = "ok")}}

(* handshake level, adversary as dialer against a real listener *)
AdvDialRows ==
  {[lnames |-> lnames, sni |-> sni, cert |-> c, proof |-> p, extra |-> extra,
    expect |-> ClientAccept(lnames, sni, c, p)] :        \* further certificates in the chain change nothing
     \* sni "none": a hello that names no network at all (a client dialing by IP address)
     lnames \in {{"n1"}, {"n1", "n2"}}, sni \in {"n1", "n2", "n3", "none"}, p \in {"E", "X"}, extra \in {"none", "X", "Y"},
     c \in {x \in Certs : x.wf /\ x.validity = "ok" /\ x.alg = "ed25519" /\ x.san \in {"n1", "n2", "n3"}
                           /\ x.subj \in {"X", "E"} /\ x.signer \in {"X", "E"} /\ x.decoy = "none"}}

(* handshake level, certificate shapes and proofs a party without the key can always produce: *)
(* the adversary E with its own or X's replayed certificate, odd SAN shapes, X's key planted   *)
(* as a decoy, and junk proofs under several signature-scheme labels; as dialer against a      *)
(* listener for n1 and as listener dialed by an honest node (no pin / pinned to E / to X)      *)
Schemes == {"ed25519", "ed448", "ecdsa", "unknown"}
ShapeCerts == {x \in Certs : x.wf /\ x.validity = "ok" /\ x.alg = "ed25519" /\ x.signer = x.subj /\ x.subj \in {"E", "X"}
                              /\ x.san \in {"n1", "absent", "iponly", "garbled"} /\ x.decoy \in {"none", "X"}
                              /\ (x.subj = "X" => x.san = "n1" /\ x.decoy = "none")}      \* X's certificate can only be replayed as it is
ShapeProofs == {[proof |-> "E", scheme |-> "ed25519"]} \cup {[proof |-> "junk", scheme |-> s] : s \in Schemes}
AdvShapeRows ==
  {[dir |-> "dial", pin |-> "none", cert |-> c, proof |-> pr.proof, scheme |-> pr.scheme,
    expect |-> ClientAccept({"n1"}, "n1", c, pr.proof), attributed |-> Attributed(c)] : c \in ShapeCerts, pr \in ShapeProofs}
  \cup
  {[dir |-> "listen", pin |-> pin, cert |-> c, proof |-> pr.proof, scheme |-> pr.scheme,
    expect |-> ServerAccept({"n1"}, pin, c, "n1", pr.proof), attributed |-> Attributed(c)] :
       c \in ShapeCerts, pr \in ShapeProofs, pin \in {"none", "E", "X"}}
(* whatever the shape, an accepted handshake is attributed to a key the adversary holds *)
ASSUME \A r \in AdvShapeRows : r.expect => r.attributed \in AdvHolds

(* honest pairs: (primary, alternate) configurations, both directions *)
Cfgs == {[primary |-> p, alt |-> a] : p \in Names, a \in Names \cup {"none"}}
NamesOf(c) == {c.primary} \cup (IF c.alt = "none" THEN {} ELSE {c.alt})
PairRows == {[d |-> d, l |-> lc, expect |-> Connectable(d.primary, NamesOf(lc))] : d \in Cfgs, lc \in Cfgs}

ASSUME PrintT(<<"TABLE", "id_client", ToJson(ClientRows)>>)
ASSUME PrintT(<<"TABLE", "id_server", ToJson(ServerRows)>>)
ASSUME PrintT(<<"TABLE", "id_advdial", ToJson(AdvDialRows)>>)
ASSUME PrintT(<<"TABLE", "id_pairs", ToJson(PairRows)>>)
ASSUME PrintT(<<"TABLE", "id_advshape", ToJson(AdvShapeRows)>>)
=============================================================================
