------------------------------- MODULE MC_Ap -------------------------------
(***************************************************************************)
(* The ActivePeers fragment of AnemoConn as a closed system of one node:   *)
(* every sequence of add / remove / remove_with_stable_id / subscribe over *)
(* a few connections.  Two uses:                                           *)
(*   - TLC checks the C04 invariants of AnemoConn plus what a subscriber   *)
(*     can reconstruct (SubscriberTracksListing) in every reachable state; *)
(*   - every behaviour up to Depth steps (exhaustively, or random walks in *)
(*     simulation mode) is printed with the state it must produce after    *)
(*     each step, and the harness executes it on the real ActivePeers with *)
(*     real QUIC connections (spec -> implementation direction).           *)
(***************************************************************************)
EXTENDS AnemoConn, Json, SequencesExt

CONSTANTS Own,        \* identity of the node (ordered like PeerIds)
          PeerOfGid,  \* function  connection id |-> peer it is with
          MaxSubs,    \* subscribe() calls per behaviour
          Depth

MCNoLimit == 0
Gids4 == <<1, 1, 3, 3>>
Gids6 == <<1, 1, 1, 3, 3, 3>>
Gids8 == <<1, 1, 1, 1, 3, 3, 3, 3>>
Gids == DOMAIN PeerOfGid
Peers == {PeerOfGid[g] : g \in Gids}

VARIABLES subs,   \* subs[i]: [snap, pos] of the i-th subscribe() call
          hist

mcvars == <<vars, subs, hist>>

Init ==
  /\ active = (Own :> <<>>) /\ evlog = (Own :> <<>>) /\ closedL = (Own :> {}) /\ handlers = (Own :> {})
  /\ known = <<>> /\ cfg = <<>> /\ pendingDial = <<>> /\ bgResult = <<>> /\ backoff = <<>> /\ pendingConn = <<>>
  /\ subs = <<>> /\ hist = <<>>

SetSeq(S) == SetToSortSeq(S, <)

(* the state every step must leave behind, in a form the harness can compare *)
Post ==
  [listing |-> SetSeq(DOMAIN active'[Own]),
   stored  |-> [i \in 1..Cardinality(DOMAIN active'[Own]) |->
                  LET p == SetSeq(DOMAIN active'[Own])[i] IN
                  [peer |-> p, gid |-> active'[Own][p].gid, origin |-> active'[Own][p].origin]],
   closed  |-> SetSeq(closedL'[Own]),
   evs     |-> SubSeq(evlog'[Own], Len(evlog[Own]) + 1, Len(evlog'[Own])),
   nev     |-> Len(evlog'[Own])]

Log(op, p, g, o, ret) ==
  hist' = Append(hist, [op |-> op, peer |-> p, gid |-> g, origin |-> o, ret |-> ret, post |-> Post])

Add(g, o) ==
  LET p == PeerOfGid[g] IN
  /\ g \notin closedL[Own]                    \* a closed connection is not handed to add() again
  /\ \A q \in DOMAIN active[Own] : active[Own][q].gid # g
  /\ ApAdd(Own, p, g, o)
  /\ Log("add", p, g, o, AddRes(Own, p, g, o).outcome)
  /\ UNCHANGED <<dialVars, subs>>

RemovePeer(p) ==
  /\ ApRemove(Own, p, "Requested")
  /\ Log("remove", p, 0, "-", IF p \in DOMAIN active[Own] THEN "removed" ELSE "absent")
  /\ UNCHANGED <<dialVars, subs>>

RemoveId(g) ==
  LET p == PeerOfGid[g] IN
  /\ ApRemoveId(Own, p, g, "ConnectionClosed")
  /\ Log("remove_id", p, g, "-", IF RemovesOwn(Own, p, g) THEN "removed" ELSE "absent")
  /\ UNCHANGED <<dialVars, subs>>

Subscribe ==
  /\ Len(subs) < MaxSubs
  /\ subs' = Append(subs, [snap |-> DOMAIN active[Own], pos |-> Len(evlog[Own])])
  /\ UNCHANGED vars
  /\ Log("subscribe", 0, 0, "-", "ok")

Next ==
  \/ \E g \in Gids, o \in {"in", "out"} : Add(g, o)
  \/ \E p \in Peers : RemovePeer(p)
  \/ \E g \in Gids : RemoveId(g)
  \/ Subscribe

Spec == Init /\ [][Next]_mcvars

-----------------------------------------------------------------------------
(* C04 as seen by a subscriber: snapshot + events received so far = listing *)
SubscriberTracksListing ==
  \A i \in DOMAIN subs :
    Replay(subs[i].snap, SubSeq(evlog[Own], subs[i].pos + 1, Len(evlog[Own]))) = DOMAIN active[Own]

(* ... and per peer the events a subscriber receives alternate, starting    *)
(* with Lost for a peer of the snapshot and New for any other               *)
SubscriberAlternates ==
  \A i \in DOMAIN subs : \A p \in Peers :
    LET s == SelectSeq(SubSeq(evlog[Own], subs[i].pos + 1, Len(evlog[Own])), LAMBDA e : e.peer = p)
        first == IF p \in subs[i].snap THEN "lost" ELSE "new"
        other == IF first = "new" THEN "lost" ELSE "new"
    IN \A k \in 1..Len(s) : s[k].kind = (IF k % 2 = 1 THEN first ELSE other)

(* the connection replaced or refused by add() is closed, never the kept one *)
ClosedNotStored == NoDeadEntry

Invariants == Alternate /\ LogMatchesListing /\ NoDeadEntry /\ DistinctConnections
              /\ SubscriberTracksListing /\ SubscriberAlternates

(* MC_Ap refines the abstract model ApProof, whose invariant is proved by TLAPS for any  *)
(* number of peers and connections: TLC checks the refinement mapping on this instance. *)
LastKind(p) == LET s == PeerEvents(Own, p) IN IF s = <<>> THEN "none" ELSE s[Len(s)].kind
AP == INSTANCE ApProof WITH
        Peers <- Peers, Gids <- Gids, PeerOf <- PeerOfGid, None <- 0,
        stored <- [p \in Peers |-> IF p \in DOMAIN active[Own] THEN active[Own][p].gid ELSE 0],
        last <- [p \in Peers |-> LastKind(p)],
        closed <- closedL[Own],
        ok <- Alternate
RefinesApProof == AP!Spec

Emit == (Depth > 0 /\ Len(hist) = Depth) =>
          PrintT(<<"REPLAY", ToJson([own |-> Own, steps |-> hist])>>)
DepthBound == Depth = 0 \/ Len(hist) <= Depth
(* model checking proper: the history is not part of the state *)
View == <<vars, subs>>
=============================================================================
