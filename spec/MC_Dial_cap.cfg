SPECIFICATION Spec
CONSTANTS
  NoLimit = NoLimit
  Me = 1
  Peers = {1, 2, 3, 4}
  KnownTable <- KT2
  Interval = 3
  Step = 3
  MaxB = 6
  Cto = 2
  Cap = 1
  MaxTime = 14
  MaxFlips = 2
INVARIANT Invariants
PROPERTY NoDialWhileConnectedOrPending
CHECK_DEADLOCK FALSE
