--------------------------- MODULE AnemoInflight ---------------------------
(***************************************************************************)
(* anemo-tower's InflightLimit middleware (crates/anemo-tower/src/         *)
(* inflight_limit.rs): one fair semaphore of Max permits per remote peer.  *)
(*                                                                         *)
(* A request is a future; the harness drives it with an explicit executor, *)
(* so the steps are: Arrive (create + first poll), Poll (a later poll of a *)
(* request that was waiting), Leave (the wrapped service finishes, Ok or   *)
(* Err), Cancel (the future is dropped, at any stage).  tokio's semaphore  *)
(* is FIFO-fair: a released permit is handed to the longest waiter at once *)
(* ("granted"), who enters the service when it is next polled.             *)
(*                                                                         *)
(* hist records every step together with the state it must produce; TLC    *)
(* prints complete behaviours (REPLAY lines) that the harness replays      *)
(* against the real layer, comparing after each step.                      *)
(***************************************************************************)
EXTENDS Naturals, Sequences, FiniteSets, TLC, Json

CONSTANTS
  Reqs,        \* request ids (naturals)
  PeerOf,      \* PeerOf[r]: the sender of r, or 0 for "no PeerId attached"
  Max,         \* permits per peer
  Mode,        \* "Block" | "ReturnError"
  Depth        \* length of the behaviours to print (0: do not print)

VARIABLES
  st,          \* st[r]: "new" | "waiting" | "granted" | "running" | "ok" | "err" | "refused" |
               \*         "internal" | "cancelled"
  queue,       \* queue[p]: FIFO of waiting requests of peer p (not yet granted)
  permits,     \* permits[p]: free permits
  hist

vars == <<st, queue, permits, hist>>

(* request -> sender maps selected in the .cfg files (0 = no PeerId attached) *)
PeerOfA == [r \in Reqs |-> CASE r = 4 -> 2 [] r = 5 -> 0 [] OTHER -> 1]
PeerOfB == [r \in Reqs |-> IF r % 2 = 0 THEN 2 ELSE 1]
Peers == {PeerOf[r] : r \in Reqs} \ {0}

Running(p) == {r \in Reqs : PeerOf[r] = p /\ st[r] = "running"}
Granted(p) == {r \in Reqs : PeerOf[r] = p /\ st[r] = "granted"}

Init ==
  /\ st = [r \in Reqs |-> "new"]
  /\ queue = [p \in Peers |-> <<>>]
  /\ permits = [p \in Peers |-> Max]
  /\ hist = <<>>

Snapshot(s, q, pm) ==
  [running |-> [p \in Peers |-> Cardinality({r \in Reqs : PeerOf[r] = p /\ s[r] = "running"})],
   st |-> s]

Log(act, r, arg, s, q, pm) ==
  hist' = Append(hist, [act |-> act, r |-> r, arg |-> arg, post |-> Snapshot(s, q, pm)])

(* release one permit of p: hand it to the longest waiter, if any *)
Release(p, s, q, pm) ==
  IF q[p] # <<>>
  THEN [s |-> [s EXCEPT ![Head(q[p])] = "granted"], q |-> [q EXCEPT ![p] = Tail(@)], pm |-> pm]
  ELSE [s |-> s, q |-> q, pm |-> [pm EXCEPT ![p] = @ + 1]]

Arrive(r) ==
  /\ st[r] = "new"
  /\ LET p == PeerOf[r] IN
     IF p = 0
     THEN /\ st' = [st EXCEPT ![r] = "internal"]          \* no sender: internal error
          /\ UNCHANGED <<queue, permits>>
          /\ Log("arrive", r, "-", st', queue, permits)
     ELSE IF permits[p] > 0 /\ (Mode = "ReturnError" \/ queue[p] = <<>>)
     THEN /\ st' = [st EXCEPT ![r] = "running"]
          /\ permits' = [permits EXCEPT ![p] = @ - 1]
          /\ UNCHANGED queue
          /\ Log("arrive", r, "-", st', queue, permits')
     ELSE IF Mode = "ReturnError"
     THEN /\ st' = [st EXCEPT ![r] = "refused"]           \* TooManyRequests
          /\ UNCHANGED <<queue, permits>>
          /\ Log("arrive", r, "-", st', queue, permits)
     ELSE /\ st' = [st EXCEPT ![r] = "waiting"]
          /\ queue' = [queue EXCEPT ![p] = Append(@, r)]
          /\ UNCHANGED permits
          /\ Log("arrive", r, "-", st', queue', permits)

(* a waiting request that was granted a permit is polled: it enters the service *)
Poll(r) ==
  /\ st[r] = "granted"
  /\ st' = [st EXCEPT ![r] = "running"]
  /\ UNCHANGED <<queue, permits>>
  /\ Log("poll", r, "-", st', queue, permits)

Leave(r, how) ==
  /\ st[r] = "running"
  /\ LET res == Release(PeerOf[r], [st EXCEPT ![r] = how], queue, permits) IN
     /\ st' = res.s /\ queue' = res.q /\ permits' = res.pm
     /\ Log("leave", r, how, res.s, res.q, res.pm)

Cancel(r) ==
  /\ st[r] \in {"waiting", "granted", "running"}
  /\ LET p == PeerOf[r]
         s1 == [st EXCEPT ![r] = "cancelled"]
     IN
     IF st[r] = "waiting"
     THEN /\ st' = s1
          /\ queue' = [queue EXCEPT ![p] = SelectSeq(@, LAMBDA x : x # r)]
          /\ UNCHANGED permits
          /\ Log("cancel", r, "-", st', queue', permits)
     ELSE LET res == Release(p, s1, queue, permits) IN
          /\ st' = res.s /\ queue' = res.q /\ permits' = res.pm
          /\ Log("cancel", r, "-", res.s, res.q, res.pm)

Next ==
  \E r \in Reqs : Arrive(r) \/ Poll(r) \/ Cancel(r) \/ \E how \in {"ok", "err"} : Leave(r, how)

Spec == Init /\ [][Next]_vars

-----------------------------------------------------------------------------
(* C18 *)
Bound == \A p \in Peers : Cardinality(Running(p)) <= Max
NoLeak == \A p \in Peers : permits[p] + Cardinality(Running(p)) + Cardinality(Granted(p)) = Max
FullAtRest ==
  (\A r \in Reqs : st[r] \notin {"waiting", "granted", "running"}) => \A p \in Peers : permits[p] = Max
(* nobody waits while a permit is free (work conserving) *)
NoIdleWait == \A p \in Peers : queue[p] # <<>> => permits[p] = 0
(* one peer's requests never change another peer's accounting *)
PerPeer ==
  [][\A p \in Peers :
       (permits'[p] # permits[p] \/ queue'[p] # queue[p]) =>
          \E r \in Reqs : PeerOf[r] = p /\ st'[r] # st[r]]_vars
NoSenderNeverEnters == \A r \in Reqs : PeerOf[r] = 0 => st[r] \in {"new", "internal"}

Invariants == Bound /\ NoLeak /\ FullAtRest /\ NoIdleWait /\ NoSenderNeverEnters

(* InflightProof.tla proves the accounting for any maximum, any number of requests and any      *)
(* schedule (TLAPS); every peer of this model, its requests counted by stage, behaves like it  *)
IP(p) == INSTANCE InflightProof WITH Block <- (Mode = "Block"), permits <- permits[p],
                                     r <- Cardinality(Running(p)), g <- Cardinality(Granted(p)),
                                     w <- Len(queue[p])
RefinesInflightProof == IP(1)!Spec /\ IP(2)!Spec

(* behaviours for replay: printed when complete *)
Terminal == \A r \in Reqs : st[r] \notin {"new", "waiting", "granted", "running"}
Emit == (Depth > 0 /\ (Len(hist) = Depth \/ Terminal)) => PrintT(<<"REPLAY", ToJson(hist)>>)
DepthBound == Depth = 0 \/ Len(hist) <= Depth
View == <<st, queue, permits>>
-----------------------------------------------------------------------------
(* Liveness (C18 "excess requests wait ... a slot is freed whenever a       *)
(* request finishes ... capacity never leaks").  The wrapped service         *)
(* finishes every request it was given (Leave is weakly fair) and a request  *)
(* that was handed a permit is polled; arrivals and cancellations are up to  *)
(* the environment.  Then a request that waits in Block mode gets in (or is  *)
(* cancelled): nobody waits for ever behind capacity that was freed.         *)
Fairness == \A r \in Reqs : WF_vars(Poll(r)) /\ WF_vars(\E how \in {"ok", "err"} : Leave(r, how))
FairSpec == Spec /\ Fairness
WaitersGetIn == \A r \in Reqs : (st[r] \in {"waiting", "granted"}) ~> (st[r] \in {"running", "ok", "err", "cancelled"})
EveryoneLeaves == \A r \in Reqs : (st[r] = "running") ~> (st[r] \in {"ok", "err", "cancelled"})
(* whenever all requests are through, every permit is back - and it stays that way *)
CapacityRestored == (\A r \in Reqs : st[r] # "new") ~> [](\A p \in Peers : permits[p] = Max)
=============================================================================
