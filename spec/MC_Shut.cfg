SPECIFICATION Spec
CONSTANTS
  Handlers = {1, 2, 3}
  Teardown = TRUE
INVARIANT Invariants
CHECK_DEADLOCK FALSE
