--------------------------- MODULE MC_ConnReplay ---------------------------
(***************************************************************************)
(* Specification -> implementation for the connection manager: behaviours  *)
(* of MC_Conn (dials, admission, the manager consuming finished connecting *)
(* tasks in any order, handler exits, disconnects, subscriptions) are      *)
(* printed step by step with the state each step must leave behind on      *)
(* every node, and the harness (scenario replay-conn) drives real Networks *)
(* through exactly these steps with schedule gates:                        *)
(*                                                                         *)
(*   dial      Network::connect / connect_with_peer_id is called           *)
(*   admit     the listener's task is released from the gate in.tls: the   *)
(*             real code takes the admission decision (expected verdict    *)
(*             logged) and writes the ack                                  *)
(*   consume   the finished connecting task at the head of the node's      *)
(*             queue is released from dial.done / in.done: the manager     *)
(*             registers it (tie-break, events, replaced connection        *)
(*             closed) and answers the caller                              *)
(*   hexit     the handler parked at h.closing is released: it deregisters *)
(*             its connection if (and only if) it is still the stored one  *)
(*   abandon   the connect() call of a dial under way is dropped           *)
(*   disconnect / subscribe   the API calls                                *)
(*                                                                         *)
(* What the transport does by itself - TLS finishing on the listener, the  *)
(* ack reaching the dialer, the dialer's read being confirmed, a close     *)
(* being noticed by a task that still waits - cannot be held back by the   *)
(* harness (the in-memory network delivers within a millisecond), so here  *)
(* these steps take priority over the controlled ones: the behaviours      *)
(* replayed are the behaviours of MC_Conn in which the network is fast.    *)
(* They are logged as "auto" steps and the harness checks that the real    *)
(* task did reach the corresponding gate with the same result.             *)
(***************************************************************************)
EXTENDS MC_Conn, Json, SequencesExt

CONSTANT Depth

VARIABLE hist
rvars == <<allvars, hist>>

SetSeq(S) == SetToSortSeq(S, <)
NodeSeq == SetSeq(Nodes)

PostOf(n) ==
  [node     |-> n,
   stored   |-> [i \in 1..Cardinality(DOMAIN active'[n]) |->
                   LET p == SetSeq(DOMAIN active'[n])[i] IN
                   [peer |-> p, gid |-> active'[n][p].gid, origin |-> active'[n][p].origin]],
   evs      |-> SubSeq(evlog'[n], Len(evlog[n]) + 1, Len(evlog'[n])),
   handlers |-> SetSeq(handlers'[n])]

Post == [i \in 1..Len(NodeSeq) |-> PostOf(NodeSeq[i])]

Log(op, a, b, x) == hist' = Append(hist, [op |-> op, a |-> a, b |-> b, x |-> x, post |-> Post])

AutoStep(k) ==
  \/ ListenerTls(k)       /\ Log("auto", k, 0, "ListenerTls")
  \/ DialerGetsAck(k)     /\ Log("auto", k, 0, "DialerGetsAck")
  \/ ListenerConfirmed(k) /\ Log("auto", k, 0, "ListenerConfirmed")
  \/ DialerSeesClose(k)   /\ Log("auto", k, 0, "DialerSeesClose")
  \/ ListenerSeesClose(k) /\ Log("auto", k, 0, "ListenerSeesClose")

AutoEnabled ==
  \E k \in Gids : \/ ENABLED ListenerTls(k) \/ ENABLED DialerGetsAck(k) \/ ENABLED ListenerConfirmed(k)
                  \/ ENABLED DialerSeesClose(k) \/ ENABLED ListenerSeesClose(k)

Controlled ==
  \/ \E pr \in Pairs : Dial(pr[1], pr[2]) /\ Log("dial", pr[1], pr[2], Len(att) + 1)
  \/ \E k \in Gids :
        \/ AbandonCall(k) /\ Log("abandon", k, att[k].d, "-")
        \/ Admit(k)  /\ Log("admit", k, att[k].l, "admit")
        \/ Reject(k) /\ Log("admit", k, att[k].l, "reject")
  \/ \E n \in Nodes :
        \/ /\ MgrConsume(n)
           /\ LET r == Head(done[n]) IN
              Log("consume", n, r.g,
                  [side |-> r.side, ok |-> r.ok,
                   listed |-> r.ok /\ OtherOf(n, r.g) \in DOMAIN active'[n],
                   peer |-> OtherOf(n, r.g)])
        \/ \E k \in Gids : HandlerExit(n, k) /\ Log("hexit", n, k, IF RemovesOwn(n, OtherOf(n, k), k) THEN "removed" ELSE "stale")
        \/ \E p \in Nodes : Disconnect(n, p) /\ Log("disconnect", n, p, "-")
        \/ Subscribe(n) /\ Log("subscribe", n, 0, SetSeq(DOMAIN active[n]))

NextR ==
  \/ \E k \in Gids : AutoStep(k)
  \/ ~AutoEnabled /\ Controlled

SpecR == Init /\ hist = <<>> /\ [][NextR]_rvars

Header == [nodes |-> NodeSeq,
           limits |-> [i \in 1..Len(NodeSeq) |-> IF Limits[NodeSeq[i]] = NoLimit THEN -1 ELSE Limits[NodeSeq[i]]],
           affs |-> [i \in 1..Len(NodeSeq) |-> [j \in 1..Len(NodeSeq) |-> Affs[NodeSeq[i]][NodeSeq[j]]]]]

Emit == (Depth > 0 /\ Len(hist) > 0 /\ (Len(hist) = Depth \/ ~ENABLED NextR)) =>
          PrintT(<<"REPLAY", ToJson([hdr |-> Header, steps |-> hist])>>)
DepthBound == Depth = 0 \/ Len(hist) <= Depth
=============================================================================
