------------------------------ MODULE MC_Wire ------------------------------
(* Exhaustive check of AnemoWire over small domains, and the tables replayed *)
(* into the real encoders / decoders.                                        *)
EXTENDS AnemoWire, Json

Sym == {<<47>>, <<97>>, <<195, 169>>}            \* "/", "a", "e-acute" (2 bytes)
Routes == {<<>>} \cup Sym \cup {x \o y : x \in Sym, y \in Sym}
Keys == {<<>>, <<107>>}
EntrySeqs == {<<>>} \cup {<< <<k, v>> >> : k \in Keys, v \in Keys}
             \cup {<< <<<<97>>, <<120>>>>, <<<<98>>, <<>>>> >>, << <<<<98>>, <<>>>>, <<<<97>>, <<120>>>> >>}
Bodies == {<<>>, <<0>>, <<255>>, <<0, 255>>}
BadStatus == {0, 201, 65535}
BadVersions == {0, 2, 256, 257, 513, 32769, 65281, 65535}    \* incl. versions whose low byte is 1

Reqs == {[route |-> r, entries |-> e, body |-> b] : r \in Routes, e \in EntrySeqs, b \in Bodies}
Resps == {[status |-> s, entries |-> e, body |-> b] : s \in ValidStatus, e \in EntrySeqs, b \in Bodies}

ReqBytes(m) == EncReq(1, m.route, m.entries, m.body)
RespBytes(m) == EncResp(1, m.status, m.entries, m.body)

(* C07 RoundTrip: decoding what was encoded gives the same message and nothing else *)
RoundTripReq == \A m \in Reqs :
  LET d == DecReq(ReqBytes(m)) IN
  d.ok /\ d.route = m.route /\ d.headers = AsMap(m.entries) /\ d.body = m.body /\ d.version = 1
RoundTripResp == \A m \in Resps :
  LET d == DecResp(RespBytes(m)) IN
  d.ok /\ d.status = m.status /\ d.headers = AsMap(m.entries) /\ d.body = m.body

(* every strict prefix of a valid message is rejected *)
PrefixRejectedReq == \A m \in Reqs : \A n \in 0..(Len(ReqBytes(m)) - 1) : ~DecReq(Take(ReqBytes(m), n)).ok
PrefixRejectedResp == \A m \in Resps : \A n \in 0..(Len(RespBytes(m)) - 1) : ~DecResp(Take(RespBytes(m), n)).ok

(* the closed sets: magic, reserved byte, version, status *)
SomeReq == CHOOSE m \in Reqs : m.route = <<47, 97>> /\ Len(m.entries) = 2 /\ m.body = <<0, 255>>
SomeResp == CHOOSE m \in Resps : m.status = 404 /\ Len(m.entries) = 1 /\ m.body = <<255>>
Closed ==
  /\ \A v \in BadVersions : ~DecReq(EncReq(v, SomeReq.route, SomeReq.entries, SomeReq.body)).ok
  /\ \A v \in BadVersions : ~DecResp(EncResp(v, SomeResp.status, SomeResp.entries, SomeResp.body)).ok
  /\ \A s \in BadStatus : ~DecResp(EncResp(1, s, SomeResp.entries, SomeResp.body)).ok
  /\ \A i \in 1..5 : ~DecReq([ReqBytes(SomeReq) EXCEPT ![i] = 120]).ok
  /\ ~DecReq([ReqBytes(SomeReq) EXCEPT ![8] = 1]).ok

(* layout: the golden bytes of one request, spelled out *)
Golden ==
  EncReq(1, <<47, 97>>, << <<<<107>>, <<>>>> >>, <<0, 255>>) =
    <<97, 110, 101, 109, 111, 0, 1, 0>>                               \* anemo, version 1 BE, 0
    \o <<0, 0, 0, 35>>                                                \* header frame: 35 bytes, BE
    \o <<2, 0, 0, 0, 0, 0, 0, 0, 47, 97>>                             \* route "/a": u64 LE length
    \o <<1, 0, 0, 0, 0, 0, 0, 0>>                                     \* one header
    \o <<1, 0, 0, 0, 0, 0, 0, 0, 107>> \o <<0, 0, 0, 0, 0, 0, 0, 0>>  \* "k" -> ""
    \o <<0, 0, 0, 2, 0, 255>>                                         \* body frame

(* length prefixes inside a well-framed header that promise more than any message holds:  *)
(* 2^31 - 1, 2^31, 2^32, 2^63, 2^64 - 1 as the route's length, the number of headers, a    *)
(* header name's and a header value's length - rejected (and never trusted for anything)   *)
HugeLens == {<<255, 255, 255, 127, 0, 0, 0, 0>>, <<0, 0, 0, 128, 0, 0, 0, 0>>, <<0, 0, 0, 0, 1, 0, 0, 0>>,
             <<0, 0, 0, 0, 0, 0, 0, 128>>, <<255, 255, 255, 255, 255, 255, 255, 255>>}
AbsurdReqHeaders ==
  {n \o <<47, 97>> : n \in HugeLens}                                             \* route length
  \cup {Str(<<47, 97>>) \o n \o Str(<<107>>) \o Str(<<>>) : n \in HugeLens}       \* number of headers
  \cup {Str(<<47, 97>>) \o LE(1, 8) \o n \o <<107>> \o Str(<<>>) : n \in HugeLens} \* a name's length
  \cup {Str(<<47, 97>>) \o LE(1, 8) \o Str(<<107>>) \o n : n \in HugeLens}        \* a value's length
AbsurdRespHeaders ==
  {LE(200, 2) \o n \o Str(<<107>>) \o Str(<<>>) : n \in HugeLens}
  \cup {LE(200, 2) \o LE(1, 8) \o n \o <<107>> \o Str(<<>>) : n \in HugeLens}
  \cup {LE(200, 2) \o LE(1, 8) \o Str(<<107>>) \o n : n \in HugeLens}
AbsurdReqs == {Preamble(1) \o Frame(h) \o Frame(<<0, 255>>) : h \in AbsurdReqHeaders}
AbsurdResps == {Preamble(1) \o Frame(h) \o Frame(<<0, 255>>) : h \in AbsurdRespHeaders}
AbsurdRejected == (\A b \in AbsurdReqs : ~DecReq(b).ok) /\ (\A b \in AbsurdResps : ~DecResp(b).ok)

ASSUME AbsurdRejected
ASSUME RoundTripReq
ASSUME RoundTripResp
ASSUME PrefixRejectedReq
ASSUME PrefixRejectedResp
ASSUME Closed
ASSUME Golden

Row(kind, m, bytes) == [kind |-> kind, msg |-> m, bytes |-> bytes]
ReqRows == {Row("req", m, ReqBytes(m)) : m \in Reqs}
RespRows == {Row("resp", m, RespBytes(m)) : m \in Resps}
BadRows ==
  {[kind |-> "bad_req", bytes |-> EncReq(v, SomeReq.route, SomeReq.entries, SomeReq.body)] : v \in BadVersions}
  \cup {[kind |-> "bad_resp", bytes |-> EncResp(v, SomeResp.status, SomeResp.entries, SomeResp.body)] : v \in BadVersions}
  \cup {[kind |-> "bad_resp", bytes |-> EncResp(1, s, SomeResp.entries, SomeResp.body)] : s \in BadStatus}
  \cup {[kind |-> "bad_req", bytes |-> [ReqBytes(SomeReq) EXCEPT ![i] = 120]] : i \in 1..5}
  \cup {[kind |-> "bad_req", bytes |-> [ReqBytes(SomeReq) EXCEPT ![8] = 1]]}
  \cup {[kind |-> "bad_req", bytes |-> b] : b \in AbsurdReqs}
  \cup {[kind |-> "bad_resp", bytes |-> b] : b \in AbsurdResps}
ASSUME PrintT(<<"TABLE", "wire_req", ToJson(ReqRows)>>)
ASSUME PrintT(<<"TABLE", "wire_resp", ToJson(RespRows)>>)
ASSUME PrintT(<<"TABLE", "wire_bad", ToJson(BadRows)>>)
=============================================================================
