SPECIFICATION Spec
POSTCONDITION TraceAccepted
CHECK_DEADLOCK FALSE
