SPECIFICATION FairSpec
CONSTANTS
  NoLimit = NoLimit
  Nodes = {1, 2}
  Pairs <- AllPairs
  MaxAtt = 2
  MaxDisc = 1
  MaxSubs = 0
  Sequential = FALSE
  Abandons = FALSE
  Timeouts = TRUE
  Limits <- NoLimits
  Affs <- NoAffs
PROPERTY EventuallyMutual
PROPERTY EventsCease
CHECK_DEADLOCK FALSE
