SPECIFICATION Spec
CONSTANT NoLimit <- TraceNoLimit
POSTCONDITION TraceAccepted
CHECK_DEADLOCK FALSE
