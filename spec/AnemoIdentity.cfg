
