------------------------------ MODULE QuicIdle ------------------------------
(***************************************************************************)
(* The environment assumption behind the C09 deadline rules of             *)
(* AnemoConnTrace (CloseObservedBy, TrSilentEnd, QuietExpiry): how long a  *)
(* QUIC endpoint that has been cut off from its peer can go on believing   *)
(* that the connection is alive.  RFC 9000 10.1, as quinn implements it:   *)
(*                                                                         *)
(*   - the idle timer is restarted when a packet from the peer is          *)
(*     received, and when the endpoint sends an ack-eliciting packet for   *)
(*     the first time since it last received one;                          *)
(*   - the period is max(idle, 3 x PTO), idle being the smaller of the two *)
(*     ends' configured timeouts; PTO doubles with every probe that goes   *)
(*     unanswered and falls back when an acknowledgement arrives;          *)
(*   - a keep-alive is an ack-eliciting packet sent KeepAlive after the    *)
(*     last receipt - it only ever gets sent if KeepAlive is below the      *)
(*     period.                                                             *)
(*                                                                         *)
(* Discrete time.  At Cut the path goes silent: nothing is received any    *)
(* more.  Before the cut datagrams may be lost at will (which inflates     *)
(* PTO).  The model decides the bounds the trace specification uses:       *)
(*   Bound1  expiry <= first send after the cut + period of that moment    *)
(*   Bound2  with no loss before the last receipt the period is the        *)
(*           configured idle timeout, so expiry <= cut + Gap + Idle where  *)
(*           Gap is the time from the cut to the first send after it       *)
(*           (<= KeepAlive when an effective keep-alive is configured)     *)
(***************************************************************************)
EXTENDS Naturals, TLC

CONSTANTS Idle,        \* effective idle timeout (min of both ends)
          KeepAlive,   \* 0: none
          BasePto,     \* probe timeout without backoff
          MaxBackoff,  \* PTO = BasePto * 2^k, k <= MaxBackoff
          Cut,         \* when the path goes silent
          MaxTime

VARIABLES now,
          lastRecv,      \* time of the last packet received from the peer
          sentSince,     \* has an ack-eliciting packet been sent since lastRecv
          firstSendAfterCut, \* 0: none yet
          backoff,       \* exponent of the PTO backoff
          lossBeforeLastRecv, \* was a probe left unanswered before the last receipt (PTO still inflated then)
          deadline,      \* when the idle timer fires
          expired        \* 0: alive, else the time it expired

vars == <<now, lastRecv, sentSince, firstSendAfterCut, backoff, lossBeforeLastRecv, deadline, expired>>

RECURSIVE Pow2(_)
Pow2(k) == IF k = 0 THEN 1 ELSE 2 * Pow2(k - 1)
Pto == BasePto * Pow2(backoff)
Max2(a, b) == IF a > b THEN a ELSE b
Period == Max2(Idle, 3 * Pto)

Init == /\ now = 0 /\ lastRecv = 0 /\ sentSince = FALSE /\ firstSendAfterCut = 0 /\ backoff = 0
        /\ lossBeforeLastRecv = FALSE /\ deadline = Idle /\ expired = 0

Alive == expired = 0

(* a packet from the peer arrives (only before the cut): the timer restarts with the period of *)
(* the moment; the acknowledgement it carries resets the backoff afterwards                    *)
Receive ==
  /\ Alive /\ now < Cut
  /\ lastRecv' = now /\ sentSince' = FALSE
  /\ deadline' = now + Period
  /\ lossBeforeLastRecv' = (backoff > 0)
  /\ backoff' = 0
  /\ UNCHANGED <<now, firstSendAfterCut, expired>>

(* the endpoint sends an ack-eliciting packet (a request, a keep-alive, a probe) *)
Send ==
  /\ Alive
  /\ KeepAlive > 0 => TRUE
  /\ deadline' = IF sentSince THEN deadline ELSE now + Period
  /\ sentSince' = TRUE
  /\ firstSendAfterCut' = IF now >= Cut /\ firstSendAfterCut = 0 THEN now ELSE firstSendAfterCut
  /\ UNCHANGED <<now, lastRecv, backoff, lossBeforeLastRecv, expired>>

(* a probe goes unanswered: the probe timeout doubles *)
ProbeLost ==
  /\ Alive /\ sentSince /\ backoff < MaxBackoff
  /\ backoff' = backoff + 1
  /\ UNCHANGED <<now, lastRecv, sentSince, firstSendAfterCut, lossBeforeLastRecv, deadline, expired>>

(* a keep-alive is due KeepAlive after the last receipt: the endpoint must send before time passes *)
KeepAliveDue == KeepAlive > 0 /\ Alive /\ ~sentSince /\ now >= lastRecv + KeepAlive

Tick ==
  /\ now < MaxTime
  /\ ~KeepAliveDue
  /\ now' = now + 1
  /\ expired' = IF Alive /\ now + 1 >= deadline THEN now + 1 ELSE expired
  /\ UNCHANGED <<lastRecv, sentSince, firstSendAfterCut, backoff, lossBeforeLastRecv, deadline>>

Next == Receive \/ Send \/ ProbeLost \/ Tick
Spec == Init /\ [][Next]_vars

-----------------------------------------------------------------------------
(* the rules of AnemoConnTrace, as consequences *)

(* whatever happened before: the connection does not outlive the first send after the cut by   *)
(* more than the largest period (and the cut itself by that much if nothing was sent)          *)
MaxPeriod == Max2(Idle, 3 * BasePto * Pow2(MaxBackoff))
Bound1 ==
  (now >= Cut + MaxPeriod /\ Alive) =>
     /\ firstSendAfterCut > 0
     /\ now < firstSendAfterCut + MaxPeriod

(* the trace rule: without loss before the last receipt and with the probe timeout small       *)
(* against the idle timeout, the configured idle timeout counts from the first send after the  *)
(* cut (TrSilentEnd: FirstSendAfter + idle), or from the cut if nothing was sent               *)
Bound2 ==
  (Alive /\ ~lossBeforeLastRecv /\ 3 * BasePto <= Idle /\ now >= Cut) =>
     LET base == IF firstSendAfterCut > 0 THEN firstSendAfterCut ELSE Cut IN   \* (a send before the cut is before the cut)
     \/ now <= base + Idle
     \/ backoff > 0 /\ firstSendAfterCut > 0 /\ 3 * Pto > Idle   \* probes lost after the cut but before that first send

(* an effective keep-alive makes that first send come within KeepAlive of the last receipt *)
KeepAliveBound ==
  (KeepAlive > 0 /\ KeepAlive < Idle /\ Alive /\ now > lastRecv + KeepAlive) => sentSince

(* the false alarm of round 6 as a reachable state: loss before the last receipt lets a         *)
(* survivor live longer than cut + idle + slack                                                *)
LongLivedIsPossible == ~(Alive /\ now >= Cut + Idle + 3 /\ firstSendAfterCut = 0)
=============================================================================
