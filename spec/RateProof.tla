----------------------------- MODULE RateProof -----------------------------
(***************************************************************************)
(* The window bound of C19 proved for ANY period, burst, clock and arrival *)
(* pattern (TLAPS), as a complement to TLC's bounded exploration of        *)
(* AnemoRate.                                                              *)
(*                                                                         *)
(* One key (quotas are per key: AnemoRate!PerKey).  The limiter is GCRA as *)
(* in AnemoRate: a request arriving at `now` is admitted iff               *)
(*   now >= tat - Tau        (Tau = (B - 1) * T, the burst tolerance)      *)
(* and then tat' = max(tat, now) + T.  An observer starts a window at an   *)
(* arbitrary instant (StartWindow) and from then on adds T to `acc` for    *)
(* every admission, so acc = n * T for the n admissions in the window.     *)
(*                                                                         *)
(* THEOREM Spec => []WindowBound (proved in RateProofs.tla):               *)
(*   acc <= Tau + T + (now - wstart)                                       *)
(* i.e. n * T <= B * T + window: never more admissions in a window than    *)
(* the burst plus what the period replenishes over it - for every window,  *)
(* since the start is arbitrary.                                           *)
(***************************************************************************)
EXTENDS Integers

CONSTANTS T, Tau
ASSUME ConstAssump == T \in Nat /\ T >= 1 /\ Tau \in Nat

VARIABLES now, tat, counting, wstart, acc, first
vars == <<now, tat, counting, wstart, acc, first>>

TypeOK == /\ now \in Nat /\ tat \in Nat /\ counting \in BOOLEAN
          /\ wstart \in Nat /\ acc \in Nat /\ first \in BOOLEAN

Init == now = 0 /\ tat = 0 /\ counting = FALSE /\ wstart = 0 /\ acc = 0 /\ first = TRUE

Max2(a, b) == IF a > b THEN a ELSE b

(* time passes, by any amount *)
Tick == /\ now' \in Nat /\ now' >= now
        /\ UNCHANGED <<tat, counting, wstart, acc, first>>

(* the observer opens its window (once, at any instant) *)
StartWindow == /\ ~counting
               /\ counting' = TRUE /\ wstart' = now /\ acc' = 0 /\ first' = TRUE
               /\ UNCHANGED <<now, tat>>

Admit == /\ now + Tau >= tat
         /\ tat' = Max2(tat, now) + T
         /\ IF counting THEN acc' = acc + T /\ first' = FALSE ELSE UNCHANGED <<acc, first>>
         /\ UNCHANGED <<now, counting, wstart>>

(* a refusal changes nothing *)
Refuse == now + Tau < tat /\ UNCHANGED vars

Next == Tick \/ StartWindow \/ Admit \/ Refuse
Spec == Init /\ [][Next]_vars

-----------------------------------------------------------------------------
WindowBound == counting => acc <= Tau + T + (now - wstart)

(* what makes it inductive: after the first admission in the window the theoretical arrival *)
(* time has run at least acc ahead of the window's start                                      *)
Ahead == counting => /\ now >= wstart
                     /\ first => acc = 0
                     /\ ~first => tat >= wstart + acc
Inv == TypeOK /\ Ahead /\ WindowBound
=============================================================================
