------------------------------ MODULE ApProof ------------------------------
(***************************************************************************)
(* The core of C04 proved for ANY set of peers and connections (TLAPS), as *)
(* a complement to TLC's bounded exploration of AnemoConn / MC_Ap.         *)
(*                                                                         *)
(* The active set is abstracted to what C04 talks about:                   *)
(*   stored[p]  the connection stored for peer p, or None                  *)
(*   last[p]    the kind of the last event published for p                 *)
(*   closed     connections closed locally                                 *)
(*   ok         history: every event published so far alternated           *)
(* and the actions are those of AnemoConn (AddRes's three outcomes,        *)
(* ApRemove, ApRemoveId with and without a matching stable id).  Publish   *)
(* records whether an event continues the New/Lost alternation.            *)
(*                                                                         *)
(* THEOREM Spec => []Inv (proved in ApProofs.tla): the listing is exactly the set of peers whose    *)
(* last event is New (so snapshot + events reproduces it), events strictly *)
(* alternate per peer, a stored connection is never a closed one, and a    *)
(* stale handler exit (RemoveIdStale) changes nothing.                     *)
(***************************************************************************)
EXTENDS Naturals

CONSTANTS Peers, Gids, PeerOf, None
ASSUME ConstAssump == /\ PeerOf \in [Gids -> Peers]
                      /\ None \notin Gids

VARIABLES stored, last, closed, ok
vars == <<stored, last, closed, ok>>

Kinds == {"none", "new", "lost"}

TypeOK == /\ stored \in [Peers -> Gids \cup {None}]
          /\ last \in [Peers -> Kinds]
          /\ closed \subseteq Gids
          /\ ok \in BOOLEAN

Init == /\ stored = [p \in Peers |-> None]
        /\ last = [p \in Peers |-> "none"]
        /\ closed = {}
        /\ ok = TRUE

(* a connection handed to add() is open and not the one already stored *)
Fresh(g) == g \notin closed /\ \A q \in Peers : stored[q] # g

(* outcome "new": NewPeer *)
AddNew(g) ==
  LET p == PeerOf[g] IN
  /\ Fresh(g) /\ stored[p] = None
  /\ stored' = [stored EXCEPT ![p] = g]
  /\ ok' = (ok /\ last[p] # "new")
  /\ last' = [last EXCEPT ![p] = "new"]
  /\ UNCHANGED closed

(* outcome "replaced": the tie-break keeps the new connection; LostPeer then NewPeer *)
AddReplace(g) ==
  LET p == PeerOf[g] IN
  /\ Fresh(g) /\ stored[p] # None
  /\ closed' = closed \cup {stored[p]}
  /\ stored' = [stored EXCEPT ![p] = g]
  /\ ok' = (ok /\ last[p] = "new")          \* Lost after New, then New after Lost
  /\ last' = [last EXCEPT ![p] = "new"]

(* outcome "rejected": the tie-break keeps the existing connection; no event *)
AddReject(g) ==
  LET p == PeerOf[g] IN
  /\ Fresh(g) /\ stored[p] # None
  /\ closed' = closed \cup {g}
  /\ UNCHANGED <<stored, last, ok>>

(* Network::disconnect *)
Remove(p) ==
  /\ p \in Peers
  /\ IF stored[p] # None
     THEN /\ closed' = closed \cup {stored[p]}
          /\ stored' = [stored EXCEPT ![p] = None]
          /\ ok' = (ok /\ last[p] = "new")
          /\ last' = [last EXCEPT ![p] = "lost"]
     ELSE UNCHANGED vars

(* the handler of connection g ends: removes only its own connection *)
RemoveId(g) ==
  LET p == PeerOf[g] IN
  /\ g \in Gids
  /\ IF stored[p] = g
     THEN /\ closed' = closed \cup {g}
          /\ stored' = [stored EXCEPT ![p] = None]
          /\ ok' = (ok /\ last[p] = "new")
          /\ last' = [last EXCEPT ![p] = "lost"]
     ELSE UNCHANGED vars                     \* a stale exit disturbs nothing

Next == \/ \E g \in Gids : AddNew(g) \/ AddReplace(g) \/ AddReject(g) \/ RemoveId(g)
        \/ \E p \in Peers : Remove(p)

Spec == Init /\ [][Next]_vars

-----------------------------------------------------------------------------
ListedIffLastNew == \A p \in Peers : (stored[p] # None) <=> (last[p] = "new")
StoredIsOwnAndOpen == \A p \in Peers : stored[p] # None => (PeerOf[stored[p]] = p /\ stored[p] \notin closed)

Inv == TypeOK /\ ok /\ ListedIffLastNew /\ StoredIsOwnAndOpen

=============================================================================
