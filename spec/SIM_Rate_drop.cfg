SPECIFICATION Spec
CONSTANTS
  Keys = {1, 2}
  T = 3
  B = 2
  MaxTime = 0
  MaxArrivals = 6
  Fates = {"served", "dropped"}
  Depth = 6
INVARIANT Emit
CONSTRAINT AtZero
CHECK_DEADLOCK FALSE
