SPECIFICATION Spec
CONSTANTS
  Keys = {1, 2}
  T = 3
  B = 2
  MaxTime = 7
  MaxArrivals = 5
  Fates = {"served"}
  Depth = 0
INVARIANT Invariants
PROPERTY RefinesRateProof
CHECK_DEADLOCK FALSE
