(* automatically generated -- do not edit manually *)
theory ApProofs imports Constant Zenon begin
ML_command \<open> writeln ("*** TLAPS PARSED\n"); \<close>
consts
  "isReal" :: c
  "isa_slas_a" :: "[c,c] => c"
  "isa_bksl_diva" :: "[c,c] => c"
  "isa_perc_a" :: "[c,c] => c"
  "isa_peri_peri_a" :: "[c,c] => c"
  "isInfinity" :: c
  "isa_lbrk_rbrk_a" :: "[c] => c"
  "isa_less_more_a" :: "[c] => c"

end
