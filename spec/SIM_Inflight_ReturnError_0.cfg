SPECIFICATION Spec
CONSTANTS
  Reqs = {1, 2, 3, 4, 5}
  PeerOf <- PeerOfA
  Max = 0
  Mode = "ReturnError"
  Depth = 12
INVARIANT Invariants
INVARIANT Emit
CONSTRAINT DepthBound
CHECK_DEADLOCK FALSE
