--------------------------- MODULE AnemoRateTrace ---------------------------
(***************************************************************************)
(* Timed runs of the real RateLimit layer (real clock).  Per admitted      *)
(* request the harness logs lo (taken before calling the layer) and hi     *)
(* (taken inside the wrapped service); the limiter's decision instant lies *)
(* in [lo, hi].  The GCRA bound "j - i + 1 admissions of one key need at   *)
(* least (j - i + 1 - B) periods" is checked in its sound form             *)
(*     hi_j - lo_i >= (j - i + 1 - B) * T                                   *)
(* (delays between the decision and our timestamps can only hide, never    *)
(* fabricate, a violation).  In Block mode every request must be admitted, *)
(* and not unreasonably late.                                              *)
(***************************************************************************)
EXTENDS Naturals, Integers, Sequences, FiniteSets, TLC, Json, IOUtils

Rec == ndJsonDeserialize(IOEnv.TRACE)

VARIABLES l, cfgr, adm     \* adm[k]: sequence of [lo, hi] admitted for key k in hi order
vars == <<l, cfgr, adm>>

Init == l = 1 /\ cfgr = [period |-> 1, burst |-> 1, mode |-> "-", per_key |-> 0] /\ adm = <<>>

Cur == Rec[l]
With(f, x, v) == [y \in DOMAIN f \cup {x} |-> IF y = x THEN v ELSE f[y]]

Reset ==
  /\ l <= Len(Rec) /\ Cur.ev = "reset" /\ l' = l + 1
  /\ cfgr' = [period |-> Cur.period_us, burst |-> Cur.burst, mode |-> Cur.mode, per_key |-> Cur.per_key]
  /\ adm' = <<>>

(* The sound window bound.  Lines arrive in hi order, so every admission seen *)
(* so far has hi <= Cur.hi; those with lo >= x were all decided inside       *)
(* [x, Cur.hi], whatever the order of the decisions, hence                   *)
(*     #{k : lo_k >= x} <= B + 1 + (Cur.hi - x) \div T   for every x = lo_i.  *)
(* The "+ 1" is the known finding recorded for C19 (a peer whose state has   *)
(* gone stale is admitted burst + 1 at once by governor's GCRA; see          *)
(* KNOWN_FINDINGS.json and the rate-stale-probe): the timed runs report      *)
(* anything beyond that; the exact quota (burst, no more) is checked on      *)
(* fresh peers by the exhaustive replay and the first-contact bursts.        *)
Admit ==
  /\ l <= Len(Rec) /\ Cur.ev = "admit" /\ l' = l + 1
  /\ LET s0 == IF Cur.key \in DOMAIN adm THEN adm[Cur.key] ELSE <<>>
         s == Append(s0, [lo |-> Cur.lo, hi |-> Cur.hi])
     IN
     /\ \A i \in DOMAIN s :
           Cardinality({k \in DOMAIN s : s[k].lo >= s[i].lo})
             <= cfgr.burst + 1 + ((Cur.hi - s[i].lo) \div cfgr.period)
     /\ adm' = With(adm, Cur.key, s)
  /\ UNCHANGED cfgr

End ==
  /\ l <= Len(Rec) /\ Cur.ev = "end" /\ l' = l + 1
  /\ cfgr.mode = "Block" => Cur.admitted = Cur.requests            \* Block: everybody gets through
  /\ cfgr.mode = "Block" => Cur.elapsed_us <= (cfgr.per_key + 2) * cfgr.period + 3000000
  /\ Cur.admitted >= 1
  /\ UNCHANGED <<cfgr, adm>>

Next == Reset \/ Admit \/ End
Spec == Init /\ [][Next]_vars

TraceAccepted ==
  LET d == TLCGet("stats").diameter IN
  IF d - 1 = Len(Rec) THEN TRUE
  ELSE /\ PrintT(<<"TRACE-REJECTED at line", d, IF d <= Len(Rec) THEN Rec[d] ELSE "eof">>)
       /\ FALSE
=============================================================================
