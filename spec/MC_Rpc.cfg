SPECIFICATION Spec
CONSTANTS
  Calls = {1, 2, 3}
  Credit = 2
  MayLose = TRUE
  Hangs = {1, 2}
  Hostile = {}
INVARIANT Invariants
CHECK_DEADLOCK FALSE
