SPECIFICATION Spec
CONSTANTS
  NoLimit = NoLimit
  Nodes = {1, 2, 3}
  Pairs <- AllPairs
  MaxAtt = 3
  MaxDisc = 1
  MaxSubs = 0
  Sequential = FALSE
  Abandons = FALSE
  Timeouts = FALSE
  Limits <- NoLimits
  Affs <- NoAffs
INVARIANT Invariants
INVARIANT MutualAtQuiescence
INVARIANT DialerLearns
PROPERTY StaleExitHarmless
CHECK_DEADLOCK FALSE
