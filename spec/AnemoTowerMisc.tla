--------------------------- MODULE AnemoTowerMisc ---------------------------
(***************************************************************************)
(* The remaining middleware of anemo-tower (crates/anemo-tower/src/        *)
(* request_id.rs, set_header/, classify.rs, callback/, trace/): layers an  *)
(* application installs around its service or its outbound calls.  C02     *)
(* ("exactly the response the handler produced for exactly the request the *)
(* caller sent") then holds up to what each layer is specified to change,  *)
(* and nothing else.  Each layer is a function from what goes in to what   *)
(* comes out; TLC prints the complete tables and the harness executes      *)
(* every row on the real layer.                                            *)
(*                                                                         *)
(* Header values are symbolic: "cli" (sent by the caller), "srv" (set by   *)
(* the handler), "gen" / "made" (produced by the layer's maker), "ext0"    *)
(* (an extension already attached), "none".                                *)
(***************************************************************************)
EXTENDS Naturals, Sequences, FiniteSets, TLC, Json

Opt(S) == S \cup {"none"}
Names == {"request-id", "x-custom-id"}          \* the default header name and a configured one
OtherName(n) == IF n = "request-id" THEN "x-custom-id" ELSE "request-id"

-----------------------------------------------------------------------------
(* SetRequestId: a request that carries the header keeps it (and gets the   *)
(* extension if it has none); otherwise the maker may supply an id, which   *)
(* becomes header and extension.                                            *)
SetId(hdr, ext, make) ==
  IF hdr # "none" THEN [hdr |-> hdr, ext |-> IF ext # "none" THEN ext ELSE hdr]
  ELSE IF make # "none" THEN [hdr |-> make, ext |-> make]
  ELSE [hdr |-> "none", ext |-> ext]

SetIdRows == {[name |-> n, hdr |-> h, ext |-> e, make |-> m, other |-> o, expect |-> SetId(h, e, m)] :
                n \in Names, h \in Opt({"cli"}), e \in Opt({"ext0"}), m \in Opt({"gen"}), o \in Opt({"oth"})}

(* PropagateRequestId: the id of the request is copied to the response      *)
(* unless the handler's response already carries one under the configured   *)
(* name; a header under any other name is never touched.                    *)
Propagate(reqHdr, respHdr, respExt) ==
  IF respHdr # "none" THEN [hdr |-> respHdr, ext |-> IF respExt # "none" THEN respExt ELSE respHdr]
  ELSE IF reqHdr # "none" THEN [hdr |-> reqHdr, ext |-> reqHdr]
  ELSE [hdr |-> "none", ext |-> respExt]

PropagateRows ==
  {[name |-> n, req |-> rq, resp |-> rs, resp_ext |-> re, req_other |-> qo, resp_other |-> ro,
    expect |-> Propagate(rq, rs, re), expect_other |-> ro] :       \* the other name's header stays what the handler set
     n \in Names, rq \in Opt({"cli"}), rs \in Opt({"srv"}), re \in Opt({"ext0"}), qo \in Opt({"cli2"}), ro \in Opt({"srv2"})}

(* the handler's own header always survives *)
ASSUME \A r \in PropagateRows : r.resp # "none" => r.expect.hdr = r.resp

-----------------------------------------------------------------------------
(* SetRequestHeader / SetResponseHeader: overriding replaces whatever is    *)
(* there when the maker yields a value; if_not_present only fills a gap.    *)
SetHeader(mode, present, made) ==
  CASE mode = "overriding"     -> IF made # "none" THEN made ELSE present
    [] mode = "if_not_present" -> IF present # "none" THEN present ELSE made

SetHeaderRows ==
  {[target |-> t, mode |-> m, present |-> p, made |-> k, expect |-> SetHeader(m, p, k)] :
     t \in {"request", "response"}, m \in {"overriding", "if_not_present"}, p \in Opt({"orig"}), k \in Opt({"made"})}

-----------------------------------------------------------------------------
(* StatusInRangeAsFailures *)
Statuses == {200, 400, 404, 408, 429, 500, 505, 520}
InRange(range, s) == IF range = "server" THEN s >= 500 /\ s <= 599 ELSE s >= 400 /\ s <= 599
ClassifyRows == {[range |-> r, status |-> s, failure |-> InRange(r, s)] : r \in {"server", "client_and_server"}, s \in Statuses}

-----------------------------------------------------------------------------
(* Callback and Trace: what is called, how often, for each way a request    *)
(* can end.  "cancel": the response future is dropped before it completes.  *)
Outcomes == {"ok200", "ok404", "ok500", "err", "cancel"}
StatusOf(o) == CASE o = "ok200" -> 200 [] o = "ok404" -> 404 [] o = "ok500" -> 500 [] OTHER -> 0

Callback(o) ==
  [made |-> 1,
   on_response |-> IF o \in {"ok200", "ok404", "ok500"} THEN 1 ELSE 0,
   on_error |-> IF o = "err" THEN 1 ELSE 0,
   handler_dropped |-> 1]                         \* consumed by a callback or dropped with the future: once either way
CallbackRows == {[outcome |-> o, expect |-> Callback(o)] : o \in Outcomes}

Trace(range, o) ==
  [on_request |-> 1,
   on_response |-> IF o \in {"ok200", "ok404", "ok500"} THEN 1 ELSE 0,
   on_failure |-> IF o = "err" \/ (o \in {"ok404", "ok500"} /\ InRange(range, StatusOf(o))) THEN 1 ELSE 0]
TraceRows == {[range |-> r, outcome |-> o, expect |-> Trace(r, o)] : r \in {"server", "client_and_server"}, o \in Outcomes}

(* none of these layers changes the result itself *)
ASSUME \A r \in TraceRows : r.expect.on_response + (IF r.outcome = "err" THEN 1 ELSE 0) <= 1

ASSUME PrintT(<<"TABLE", "misc_setid", ToJson(SetIdRows)>>)
ASSUME PrintT(<<"TABLE", "misc_propagate", ToJson(PropagateRows)>>)
ASSUME PrintT(<<"TABLE", "misc_setheader", ToJson(SetHeaderRows)>>)
ASSUME PrintT(<<"TABLE", "misc_classify", ToJson(ClassifyRows)>>)
ASSUME PrintT(<<"TABLE", "misc_callback", ToJson(CallbackRows)>>)
ASSUME PrintT(<<"TABLE", "misc_trace", ToJson(TraceRows)>>)
=============================================================================
