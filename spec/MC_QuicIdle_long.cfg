SPECIFICATION Spec
CONSTANTS
  Idle = 6
  KeepAlive = 0
  BasePto = 1
  MaxBackoff = 2
  Cut = 5
  MaxTime = 30
INVARIANT LongLivedIsPossible
CHECK_DEADLOCK FALSE
