SPECIFICATION Spec
CONSTANTS
  Keys = {1, 2}
  T = 2
  B = 3
  MaxTime = 8
  MaxArrivals = 7
  Fates = {"served"}
  Depth = 0
INVARIANT Invariants
PROPERTY RefinesRateProof
CHECK_DEADLOCK FALSE
