SPECIFICATION Spec
CONSTANTS
  NoLimit = NoLimit
  Nodes = {1, 2, 3}
  Pairs <- AllPairs
  MaxAtt = 3
  MaxDisc = 1
  MaxSubs = 0
  Sequential = TRUE
  Abandons = FALSE
  Timeouts = FALSE
  Limits <- C10Limits
  Affs <- C10Affs
INVARIANT Invariants
INVARIANT AdmissionTable
INVARIANT RejectedDialerFails
INVARIANT MutualAtQuiescence
CHECK_DEADLOCK FALSE
