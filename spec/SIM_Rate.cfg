SPECIFICATION Spec
CONSTANTS
  Keys = {1, 2, 3}
  T = 3
  B = 2
  MaxTime = 0
  MaxArrivals = 8
  Depth = 8
INVARIANT Emit
CONSTRAINT AtZero
CHECK_DEADLOCK FALSE
