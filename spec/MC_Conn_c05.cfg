SPECIFICATION Spec
CONSTANTS
  NoLimit = NoLimit
  Nodes = {1, 2}
  Pairs <- AllPairs
  MaxAtt = 2
  MaxDisc = 0
  MaxSubs = 1
  Sequential = FALSE
  Abandons = FALSE
  Timeouts = FALSE
  Limits <- NoLimits
  Affs <- NoAffs
INVARIANT Invariants
INVARIANT MutualAtQuiescence
INVARIANT Converge
INVARIANT DialerLearns
PROPERTY StaleExitHarmless
CHECK_DEADLOCK FALSE
