---------------------------- MODULE AnemoCodegen ----------------------------
(***************************************************************************)
(* anemo-build (crates/anemo-build/src/{client,server}.rs) computes each   *)
(* method's route twice - once for the generated client, once for the      *)
(* generated server's dispatch - and the service name the router uses as   *)
(* prefix a third time.  All three must agree:                             *)
(*     path   = "/" pkg ["."] svc "/" route                                *)
(*     prefix = "/" pkg ["."] svc "/"      (registered as prefix + "*rest")*)
(* and the typed call pipeline (crates/anemo/src/rpc/mod.rs) must map      *)
(* handler results and failures as the table below says.                   *)
(***************************************************************************)
EXTENDS Naturals, Sequences, FiniteSets, TLC, Json

Packages == {"", "p", "p.q"}
Services == {"Greeter", "Greet", "G"}
Routes == {"SayHello", "Say", "x"}

FullName(pkg, svc) == pkg \o (IF pkg = "" THEN "" ELSE ".") \o svc
Path(pkg, svc, route) == "/" \o FullName(pkg, svc) \o "/" \o route
Prefix(pkg, svc) == "/" \o FullName(pkg, svc) \o "/"

Rows == {[pkg |-> pkg, svc |-> svc, route |-> r, path |-> Path(pkg, svc, r), name |-> FullName(pkg, svc),
          prefix |-> Prefix(pkg, svc)] : pkg \in Packages, svc \in Services, r \in Routes}

(* a path lies under its own service's prefix and under no other service's *)
StartsWith(s, pre) == \E r \in Routes : s = pre \o r
UnderOwnPrefixOnly ==
  \A a \in Rows : \A b \in Rows :
     StartsWith(a.path, b.prefix) <=> (a.pkg = b.pkg /\ a.svc = b.svc)
(* distinct methods of one service have distinct paths *)
Injective == \A a \in Rows : \A b \in Rows : a.path = b.path => a = b

ASSUME UnderOwnPrefixOnly
ASSUME Injective
ASSUME PrintT(<<"TABLE", "codegen_paths", ToJson(Rows)>>)

(* The typed pipeline: what the handler does / what travels -> what the typed caller gets *)
Handler == {"ok", "status", "status_bare"}   \* handler returns a response message / an error Status with a
                                             \* message and headers / an error Status with headers only
Payload == {"good", "garbage"}          \* request payload decodable by the server's codec or not
Pipeline(h, p) ==
  IF p = "garbage" THEN [result |-> "err", code |-> 520, handler_ran |-> FALSE]        \* Unknown, handler not run
  ELSE IF h = "ok" THEN [result |-> "ok", code |-> 200, handler_ran |-> TRUE]
  ELSE [result |-> "err", code |-> 400, handler_ran |-> TRUE]                          \* the handler's own status
PipeRows == {[handler |-> h, payload |-> p, expect |-> Pipeline(h, p)] : h \in Handler, p \in Payload}
ASSUME PrintT(<<"TABLE", "codegen_pipeline", ToJson(PipeRows)>>)

(* the handler's own error status reaches the typed caller with its code, message and headers  *)
(* whatever the code is - also one the router or a middleware could have produced itself       *)
ErrorCodes == {400, 404, 408, 429, 500, 505, 520}
StatusRows == {[code |-> c, message |-> m, expect |-> [result |-> "err", code |-> c, message |-> m, headers_kept |-> TRUE, handler_ran |-> TRUE]] :
                 c \in ErrorCodes, m \in {"with", "without"}}
ASSUME PrintT(<<"TABLE", "codegen_statuses", ToJson(StatusRows)>>)

(* Message types whose encoding is empty or that accept "nothing": a payload is handed to the   *)
(* handler / returned to the typed caller iff the method's codec decodes it as the method's     *)
(* type; bincode encodes a unit type in zero bytes, JSON never produces or accepts zero bytes   *)
(* (null is four), an Option is one byte (bincode) or null / a value (JSON).                    *)
Codecs == {"bincode", "json"}
Kinds == {"unit", "option"}
Payloads == {"good", "empty", "garbage"}
Decodable(codec, kind, payload) ==
  CASE payload = "good" -> TRUE
    \* bincode's default options ignore trailing bytes, so every byte string decodes as a unit;
    \* for every other (codec, type) the garbage used (bad Option tag, broken JSON) does not decode
    [] payload = "garbage" -> (codec = "bincode" /\ kind = "unit")
    [] payload = "empty" -> (codec = "bincode" /\ kind = "unit")
EdgeRows == {[codec |-> c, kind |-> k, payload |-> p, dir |-> d, decodable |-> Decodable(c, k, p)] :
               c \in Codecs, k \in Kinds, p \in Payloads, d \in {"request", "response"}}
(* the good encoding of a unit under bincode IS the empty payload: the two rows must agree *)
ASSUME Decodable("bincode", "unit", "empty") = Decodable("bincode", "unit", "good")
ASSUME PrintT(<<"TABLE", "codegen_edges", ToJson(EdgeRows)>>)
=============================================================================
